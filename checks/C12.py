"""C12 -- invalid calls fail cleanly and change nothing  (PARTIAL: see below).

Proof side : coq/Properties_C12.v.  translators/c12_validate.py re-extracts from the CURRENT sources (a) the table of index
             getters of cgns_internals.c and the instances of the ADDRESS4MULTIPLE macro and (b) the STRUCTURED skeleton of every
             function of cgnslib.c / cgns_internals.c / cgns_io.c / cgns_error.c with classified checks (coq/Gen_C12.v).
             coq/Validate.v holds the skeleton machine and the decidable predicates, coq/ValidateProofs.v the generic theorems
             (for ANY table satisfying the predicates and ANY state: a call that returns at a failing validation has changed
             neither file nor tree; a failing argument check makes the call return a failure; every failing return carries a
             message; an accepted index i satisfies 1 <= i <= count and selects element i-1).
             PROVED: validation order, failure propagation, message provenance and the index arithmetic, all entry points.
             NOT PROVED (tested only): memory safety of the code after validation -- it is seen by ASan/UBSan in the runs below.
Tie T      : the translator runs on every check (cached by source hash under .build/c12_cache) and in pregen().
Tie C      : (1) the property's OWN ORACLE, not through the model: every callable entry point x every argument position x every
             invalid class (closed / never issued / 0 / -1 handle; index 0 / -1 / count+1 / INT_MAX; empty / 33 / 1000-character
             name; enum -1 / max+1; inconsistent ranges and sizes; wrong open mode), each call in a process of its own with a
             watchdog, under ASan/UBSan, in several file states, ADF and HDF5: status must be an error, cg_get_error() non-empty,
             the full tree dump through the read API unchanged on the same handle, the cgio tree digest of the file after close
             (and, in read mode, the SHA-256 of its bytes) equal to a control run without the call;
             (2) the translator rows are cross-checked: a parameter the table says is validated on the spine of an entry point
             must be rejected dynamically for the matching class; the open modes the table says are refused must be refused;
             (3) the getter model (extracted) against the real cgi_get_* functions on live files (harness/c12_get.c);
             (4) the use-after-close scenario of DESIGN.md section 6 row 11.
"""
import hashlib, json, os, re, subprocess, sys, time
import vlib

sys.path.insert(0, os.path.join(vlib.ROOT, "translators"))
import c12_validate
from checks import C07

CHECKER = ("make -C coq Gates.vo Validate.vo ValidateProofs.vo Gen_C12.vo (coqc 8.16.1 kernel; vm_compute of prepare, the call-graph "
           "fixpoints and the predicates on the regenerated table) ; coqc Properties_C12.v (Print Assumptions)")
BACKENDS = ["adf", "hdf5"]
STATES = ["rich12", "unstr", "bare12", "str2d"]
MODES = {"read": 0, "write": 1, "modify": 2}
JOBS = 4


def pregen():
    c12_validate.write_gen(repo=vlib.REPO, impl=vlib.IMPL)


# ------------------------------------------------------------------------------------------------ argument synthesis
ENUM_NOF = {"MassUnits_t": "NofValidMassUnits", "LengthUnits_t": "NofValidLengthUnits", "TimeUnits_t": "NofValidTimeUnits",
            "TemperatureUnits_t": "NofValidTemperatureUnits", "AngleUnits_t": "NofValidAngleUnits",
            "ElectricCurrentUnits_t": "NofValidElectricCurrentUnits", "SubstanceAmountUnits_t": "NofValidSubstanceAmountUnits",
            "LuminousIntensityUnits_t": "NofValidLuminousIntensityUnits", "DataClass_t": "NofValidDataClass",
            "GridLocation_t": "NofValidGridLocation", "BCDataType_t": "NofValidBCDataTypes",
            "GridConnectivityType_t": "NofValidGridConnectivityTypes", "PointSetType_t": "NofValidPointSetTypes",
            "GoverningEquationsType_t": "NofValidGoverningEquationsTypes", "ModelType_t": "NofValidModelTypes",
            "ParticleGoverningEquationsType_t": "NofValidParticleGoverningEquationsTypes",
            "ParticleModelType_t": "NofValidParticleModelTypes", "BCType_t": "NofValidBCTypes", "DataType_t": "NofValidDataTypes",
            "ElementType_t": "NofValidElementTypes", "ZoneType_t": "NofValidZoneTypes",
            "RigidGridMotionType_t": "NofValidRigidGridMotionTypes", "ArbitraryGridMotionType_t": "NofValidArbitraryGridMotionTypes",
            "SimulationType_t": "NofValidSimulationTypes", "WallFunctionType_t": "NofValidWallFunctionTypes",
            "AreaType_t": "NofValidAreaTypes", "AverageInterfaceType_t": "NofValidAverageInterfaceTypes"}
ENUM_VALID_EXTRA = {"ParticleGoverningEquationsType_t": "CGNS_ENUMV(DEM)", "ParticleModelType_t": "CGNS_ENUMV(Linear)",
                    "MassUnits_t": "CGNS_ENUMV(Kilogram)", "LengthUnits_t": "CGNS_ENUMV(Meter)", "TimeUnits_t": "CGNS_ENUMV(Second)",
                    "TemperatureUnits_t": "CGNS_ENUMV(Kelvin)", "AngleUnits_t": "CGNS_ENUMV(Degree)",
                    "ElectricCurrentUnits_t": "CGNS_ENUMV(Ampere)", "SubstanceAmountUnits_t": "CGNS_ENUMV(Mole)",
                    "LuminousIntensityUnits_t": "CGNS_ENUMV(Candela)"}
# index parameters by name (C07.INDEX) plus the particle-zone index
INDEX = set(C07.INDEX) | {"P"}
CTX_RULES12 = [(r"^cg_particle_(governing|model)", 14), (r"^cg_particle_equationset", 13)]


def enum_base(t):
    m = re.search(r"(\w+_t)\b", t)
    return m.group(1) if m else t


# parameters the documentation declares ignored (kept for backward compatibility)
IGNORED_PARAMS = {("cg_conn_read", "donor_datatype"), ("cg_conn_write", "donor_datatype")}


LINK_WRITERS = {"cg_link_write", "cgio_create_link"}
ALWAYS_RUN = ("bound", "text-empty", "overwrite", "link-")          # "may" classes that every tier runs
CGIO_DATA = {"cgio_read_data_type", "cgio_write_data", "cgio_write_data_type"}
CGIO_DATA_VALID = {"s_start": "D12_ONES", "s_end": "D12_DIMS", "s_stride": "D12_ONES", "m_num_dims": "g_n2nd", "m_dims": "D12_DIMS",
                   "m_start": "D12_ONES", "m_end": "D12_DIMS", "m_stride": "D12_ONES", "m_data_type": "g_n2type"}


def arg_for12(fname, i, pn, pt, writer):
    """C07.arg_for with the invalid classes C12 asks for: -> (valid expression, kind, [(class, expression, must fail)])"""
    v, kind, inv = C07.arg_for(fname, i, pn, pt, writer)
    if (fname, pn) in IGNORED_PARAMS:
        return v, kind, []
    t = pt.replace("const ", "").strip()
    if fname == "cg_conn_write" and pn == "donor_ptset_type":
        v = "CGNS_ENUMV(PointListDonor)"      # the only kinds a donor list may have: PointListDonor / CellListDonor
    if fname == "cg_boco_normal_write" and pn == "NormalListFlag":
        v = "1"           # with the flag 0 the list and its NormalDataType are (legitimately) ignored
    if t == "int" and pn in INDEX and kind != "index" and kind not in ("handle", "special"):
        kind, inv = "index", [("index-0", "0", 1), ("index--1", "-1", 1), ("index-count+1", "1000", 1), ("index-INT_MAX", "INT_MAX", 1)]
    if kind == "enum":
        eb = enum_base(t)
        if eb in ENUM_VALID_EXTRA:
            v = ENUM_VALID_EXTRA[eb]
        nof = ENUM_NOF.get(eb)
        inv = [("enum--1", "(%s)-1" % t, 1), ("enum-max+1", "(%s)%s" % (t, nof) if nof else "(%s)1000" % t, 1)]
    if kind == "index":
        # small indices just beyond the counts of the template files (count+1 exactly, for off-by-one tests): they MAY be valid
        inv = list(inv) + [("index-2", "2", 0), ("index-3", "3", 0), ("index-4", "4", 0), ("index-5", "5", 0)]
    if kind == "pnts":
        inv = []          # point sets may legitimately lie in rind planes (indices <= 0 or beyond the core range)
        if fname == "cg_1to1_write" and pn == "range":
            inv = [("range-beyond", "SZ_BAD_HI", 1)]       # 1-to-1 ranges are checked against the zone's core dimensions
    if kind == "rmin":
        inv = [("range-min>max", "SZ_BAD_HI", 1), ("range-min-negative", "SZ_NEG", 1)]
    if kind == "size" and pn in ("start", "end"):
        inv = [("range-start>end", "5" if pn == "start" else "0", 1)]
    if kind == "size" and pn == "npnts":
        inv = [("npnts-0", "0", 1), ("npnts--1", "-1", 1)]
        if fname in ("cg_conn_write", "cg_conn_write_short"):
            inv.append(("npnts-beyond", "1000000", 1))     # more points than the zone has
    if fname.startswith("cgio_"):
        # the low-level layer: handles, names and data types are validated; 0 dimensions are legal (an MT node), and the
        # dimension utilities (cgio_check_dimensions, cgio_copy_dimensions, cgio_compute_data_size) return values, not statuses
        if kind == "dimcount":
            # the rank of the MEMORY array of the data entry points must be 1 .. 12 (13, 0, -1 are refused); the rank of a node
            # may be 0 (an MT node): only 13 is invalid for cgio_set_dimensions / cgio_new_node
            inv = list(inv) if fname in CGIO_DATA else [x for x in inv if x[0] == "ndim-13"] if re.search(r"set_dimensions|new_node", fname) else []
        if fname in CGIO_DATA and pn in CGIO_DATA_VALID:
            # valid arguments read from the node itself (probe12_cgio): the whole data of g_node2 in its own type and shape; the
            # index arrays have EXACTLY 12 entries (CGIO_MAX_DIMENSIONS), so that an access at [12] is seen by the sanitizers
            v = CGIO_DATA_VALID[pn]
        if fname in ("cgio_compute_data_size", "cgio_check_dimensions", "cgio_copy_dimensions"):
            inv = []
    if fname in LINK_WRITERS and pn in ("filename", "name_in_file"):
        # both string arguments of the link entry points: the file name may be empty (a link inside the file) but not longer than
        # CGIO_MAX_FILE_LENGTH (1024); the target path must not be empty and not longer than CGIO_MAX_LINK_LENGTH (4096)
        inv = [("link-file-1025", "LONG1025", 1), ("link-file-5999", "LONG5999", 1)] if pn == "filename" else \
              [("link-path-empty", '""', 1), ("link-path-4097", "LONG4097", 1), ("link-path-5999", "LONG5999", 1)]
    elif (writer or fname.startswith("cgio_")) and "char" in pt and "const" in pt and pt.count("*") == 1 and kind in ("text", "filename", "special", "path") \
            and v != '""' and not any("empty" in c[0] for c in inv) and re.search(r"write|create|set_|new_node", fname):
        # a string stored as node DATA (descriptor text, family name, geometry file / format, free-text units ..): the empty string
        # MAY be refused, but then the call must leave no node behind and delete nothing
        inv = list(inv) + [("text-empty", '""', 0)]
    return v, kind, inv


# ------------------------------------------------------------------------------------------------ state-driven bounds
# Values just inside / just outside every bound that zone (1,1) of the OPEN file implies; the driver reads the zone before the
# call (harness/c12_drv.c: probe12 -> g_nv, g_nc, g_vd[], g_cd[], g_idim, g_cdim, section 1, particle zone 1, node size).
# must = 1 only where the catalogue below knows a rule (SIDS, stated in notes/C12.md section 10); everything else is a "may":
# the call may succeed, but when it fails nothing may have changed and no sanitizer may fire.
#   R1 GridConnectivity_t: a PointList has at most as many entries as the zone has vertices (Vertex) / cells (CellCenter);
#      Abutting1to1: the donor list has exactly as many entries as the point set
#   R2 GridConnectivity1to1_t: PointRange inside [1, VertexSize]; R6: range and donor range span the same number of points
#   R3 partial / general access to coordinates, solutions, particle data: rmin >= 1 - lower rind, rmax <= size + upper rind at
#      the location of the data (vertex or cell sizes); solution 3 of the templates has asymmetric rind planes {2,0}; with
#      CG_CONFIG_RIND_ZERO the bounds are 1 and size + lower + upper rind.  Readers may name any range of the stored extent.
#   R4 Elements_t: ElementSizeBoundary <= number of elements of the section
#   R5 Zone_t, Structured: CellSize = VertexSize - 1 in every index dimension
#   R7 OversetHoles_t: PointRange => 2 points per point set, PointList => one point set
#   R8 ZoneSubRegion_t: RegionCellDimension <= CellDimension of the base
#   R9 cgio block access: 1 <= b_start <= b_end <= number of values of the node
BIGN = "(g_nv > g_nc ? g_nv : g_nc + 1)"          # "as many as there are vertices" (more than the cells in every template)


def bound_variants(name, params, vals):
    # only INPUT parameters take part: scalars, and pointers to const
    pn = [p[0] if ("*" not in p[1] or "const" in p[1]) else "(out)" + p[0] for p in params]
    ix = {n: i for i, n in enumerate(pn)}
    out = []

    def add(cls, primary, must, **kw):
        argv = [x[0] for x in vals]
        for k, ex in kw.items():
            if k in ix:
                argv[ix[k]] = ex
        out.append(("%s:%s=bound" % (cls, primary), argv, must, ix[primary], primary, cls))

    conn = name in ("cg_conn_write", "cg_conn_write_short")
    if {"ptset_type", "npnts", "pnts"} <= set(pn) and not name.startswith("cg_particle"):
        locs = [("Vertex", "CGNS_ENUMV(Vertex)", 0), ("CellCenter", "CGNS_ENUMV(CellCenter)", 1)] if "location" in ix else [("", None, 0)]
        for lname, lex, cell in locs:
            for tag, ex, over_v, over_c in (("ncells", "g_nc", 0, 0), ("ncells+1", "(g_nc + 1)", 0, 1), ("nvertices", BIGN, 0, 1), ("nvertices+1", "(g_nv + 1)", 1, 1)):
                must = 1 if conn and (over_c if cell else over_v) else 0
                kw = dict(ptset_type="CGNS_ENUMV(PointList)", npnts=ex, pnts="BIGP", ndata_donor=ex, donor_data="BIGP", nptsets="1")
                if lex:
                    kw["location"] = lex
                add("bound-list-%s%s" % (tag, "@" + lname if lname else ""), "npnts", must, **kw)
            # a PointRange one plane outside the zone (rind planes may make it legal: a "may")
            kw = dict(ptset_type="CGNS_ENUMV(PointRange)", npnts="2", nptsets="1")
            if lex:
                kw["location"] = lex
            add("bound-range-end+1%s" % ("@" + lname if lname else ""), "pnts", 0, pnts="RNGV(%d, 0, 1)" % cell, **kw)
            add("bound-range-start-0%s" % ("@" + lname if lname else ""), "pnts", 0, pnts="RNGV(%d, -1, 0)" % cell, **kw)
    if name == "cg_conn_write":
        add("bound-donor-npnts+1", "ndata_donor", 1, ptset_type="CGNS_ENUMV(PointList)", npnts="2", pnts="BIGP", ndata_donor="3", donor_data="BIGP",
            type="CGNS_ENUMV(Abutting1to1)")
        add("bound-donor-npnts", "ndata_donor", 0, ptset_type="CGNS_ENUMV(PointList)", npnts="2", pnts="BIGP", ndata_donor="2", donor_data="BIGP",
            type="CGNS_ENUMV(Abutting1to1)")
    if name == "cg_particle_sol_ptset_write":
        for tag, ex in (("size", "g_psz"), ("size+1", "(g_psz + 1)")):
            add("bound-list-" + tag, "npnts", 0, ptset_type="CGNS_ENUMV(PointList)", npnts=ex, pnts="BIGP")
    if name == "cg_hole_write":
        add("bound-hole-2sets-2points", "npnts", 1, ptset_type="CGNS_ENUMV(PointRange)", nptsets="2", npnts="2", pnts="BIGP")
        add("bound-hole-1set-4points", "npnts", 1, ptset_type="CGNS_ENUMV(PointRange)", nptsets="1", npnts="4", pnts="BIGP")
        add("bound-hole-list-2sets", "nptsets", 1, ptset_type="CGNS_ENUMV(PointList)", nptsets="2", npnts="2", pnts="BIGP")
    if name == "cg_subreg_ptset_write":
        add("bound-dimension-celldim", "dimension", 0, dimension="g_cdim")
        add("bound-dimension-celldim+1", "dimension", 1, dimension="(g_cdim + 1)")
    if name == "cg_1to1_write":
        add("bound-range-full", "range", 0, range="RNGV(0, 0, 0)", donor_range="RNGV(0, 0, 0)")
        add("bound-range-end+1", "range", 1, range="RNGV(0, 0, 1)", donor_range="RNGV(0, 0, 1)")
        add("bound-range-start-0", "range", 1, range="RNGV(0, -1, 0)", donor_range="RNGV(0, -1, 0)")
        add("bound-donor-extent", "donor_range", 1, range="RNGV(0, 0, 0)", donor_range="RNGV(0, 0, -1)")
    if name == "cg_zone_write":
        add("bound-cells=vertices", "size", 1, size="ZS_EQ", type="CGNS_ENUMV(Structured)")
        add("bound-cells=vertices-2", "size", 1, size="ZS_M2", type="CGNS_ENUMV(Structured)")
        add("bound-cells=vertices-1", "size", 0, size="ZS_OK", type="CGNS_ENUMV(Structured)")
    # ranges into coordinates / solutions / particle data
    rmin = "rmin" if "rmin" in ix else "s_rmin" if "s_rmin" in ix else None
    rmax = "rmax" if "rmax" in ix else "s_rmax" if "s_rmax" in ix else None
    if rmin and rmax and re.match(r"cg_(particle_)?(coord|field)_", name):
        mem = lambda e: dict(m_numdim="g_idim", m_dims=e, m_dimvals=e, m_rmin="SZ_ONES", m_rmax=e)
        if name.startswith("cg_particle"):
            mem1 = lambda e: dict(m_dims=e, m_rmin="SZ_ONES", m_rmax=e)
            add("bound-max-size", rmax, 0, **{rmin: "SZ_ONES", rmax: "VEC1(g_psz)"}, **mem1("VEC1(g_psz)"))
            add("bound-max-size+1", rmax, 1, **{rmin: "SZ_ONES", rmax: "VEC1(g_psz + 1)"}, **mem1("VEC1(g_psz + 1)"))
            add("bound-min-0", rmin, 1, **{rmin: "SZ_ZERO", rmax: "VEC1(g_psz)"}, **mem1("VEC1(g_psz)"))
        else:
            sols = [("", None, 0)] if "S" not in ix else [("@Vertex", "1", 0), ("@CellCenter", "2", 1)]
            for tag, sx, cell in sols:
                kw = {"S": sx} if sx else {}
                add("bound-max-size" + tag, rmax, 0, **{rmin: "SZ_ONES", rmax: "DIMV(%d, 0)" % cell}, **mem("DIMV(%d, 0)" % cell), **kw)
                add("bound-max-size+1" + tag, rmax, 1, **{rmin: "SZ_ONES", rmax: "DIMV(%d, 1)" % cell}, **mem("DIMV(%d, 1)" % cell), **kw)
                add("bound-min-0" + tag, rmin, 1, **{rmin: "SZ_ZERO", rmax: "DIMV(%d, 0)" % cell}, **mem("DIMV(%d, 0)" % cell), **kw)
                if cell:
                    add("bound-max-vertexsize" + tag, rmax, 1, **{rmin: "SZ_ONES", rmax: "DIMV(0, 0)"}, **mem("DIMV(0, 0)"), **kw)
            if "S" in ix:
                # solution 3 of the templates: asymmetric rind planes (lower > upper) in the first index dimension; the driver
                # reads them (probe12_rind) and follows the rind indexing of the session (RV: core or zero based)
                # READERS: a range whose extent equals the stored extent is taken as "everything" whatever its indices (the
                # documented s_reset_range shortcut of cgi_array_general_verify_range, disabled for writing): a "may" for them
                reader = re.search(r"_read$", name) is not None
                for tag, kind, must in (("legal-max-range", 0, 0), ("core-range", 4, 0), ("end+1", 1, 1), ("start-1", 2, 1),
                                        ("shifted-same-extent", 3, 0 if reader else 1)):
                    add("bound-rind-%s@Rind" % tag, rmax if kind != 2 else rmin, must, S="3", **{rmin: "RV(%d, 0)" % kind, rmax: "RV(%d, 1)" % kind},
                        **mem("RV(%d, 2)" % kind))
    # element sections
    if "nbndry" in ix and "start" in ix and "end" in ix:
        add("bound-nbndry-nelem", "nbndry", 0, start="1", end="2", nbndry="2")
        add("bound-nbndry-nelem+1", "nbndry", 1, start="1", end="2", nbndry="3")
    if "S" in ix and "start" in ix and "end" in ix and re.search(r"partial_write|general_write", name):
        add("bound-elements-section-range", "end", 0, start="g_s1s", end="g_s1e")
        add("bound-elements-after-section", "start", 0, start="(g_s1e + 1)", end="(g_s1e + 1)")
        add("bound-elements-before-section", "start", 0, start="(g_s1s - 1)", end="g_s1s")
    if name in ("cgio_write_block_data", "cgio_read_block_data_type"):
        add("bound-block-end-size", "b_end", 0, b_start="1", b_end="g_nd2")
        add("bound-block-end-size+1", "b_end", 1, b_start="1", b_end="(g_nd2 + 1)")
        add("bound-block-start-0", "b_start", 1, b_start="0", b_end="1")
    return out


def overwrite_variants(name, params, vals):
    """A FAILING OVERWRITE must not update the in-memory tree first.  Pairs of calls in one session on the same (fixed) node name:
    (valid values, then the next value of every enumeration argument) and (the Null value 0 of every enumeration argument, then
    the valid values).  The driver runs the `first` call, dumps the view, runs the `second`; when the second FAILS the view must be
    what it was after the first (harness/c12_drv.c: overwrite-second)."""
    en = [i for i, (v, kind, inv) in enumerate(vals) if kind == "enum"]
    if not en:
        return []
    base = [x[0] for x in vals]
    for i, (v, kind, inv) in enumerate(vals):
        if kind == "name" and v == "fresh()":
            base[i] = '"Vrep"'
    pname = params[en[0]][0]

    def with_enum(f):
        a = list(base)
        for i in en:
            t = params[i][1].replace("const ", "").strip()
            a[i] = f(t, base[i])
        return a
    nxt = with_enum(lambda t, v: "(%s)((int)(%s) + 1)" % (t, v))
    nul = with_enum(lambda t, v: "(%s)0" % t)
    return [("overwrite-first-valid:%s=enum" % pname, list(base), 0, en[0], pname, "overwrite-first-valid"),
            ("overwrite-second-next-value:%s=enum" % pname, nxt, 0, en[0], pname, "overwrite-second-next-value"),
            ("overwrite-first-null:%s=enum" % pname, nul, 0, en[0], pname, "overwrite-first-null"),
            ("overwrite-second-after-null:%s=enum" % pname, list(base), 0, en[0], pname, "overwrite-second-after-null")]


def ctx_of12(name, params):
    for rx, c in CTX_RULES12:
        if re.search(rx, name):
            return c
    return C07.ctx_of(name, params)


def gen_stubs(d, path):
    """c07_stubs.inc for harness/c12_drv.c: one stub per public entry point, variant 0 = valid arguments, variant k = the k-th
    (position, invalid class).  -> (entries, static_only)"""
    api = [a for a in d["api"] if a["defined"]]
    protos = d["protos"]
    out, entries, static_only = ["static cgsize_t SZ_NEG[64] = {[0 ... 63] = -1000};",
                                 "static cgsize_t ZS_EQ[9] = {3,3,3,3,3,3,0,0,0}, ZS_M2[9] = {3,3,3,1,1,1,0,0,0}, ZS_OK[9] = {3,3,3,2,2,2,0,0,0};",
                                 "/* defined in c12_drv.c (facts about zone (1,1) of the open file) */",
                                 "static cgsize_t g_vd[3], g_cd[3], g_nv, g_nc, g_s1s, g_s1e, g_psz, g_nd2, BIGP[3 * 4096]; static int g_idim, g_cdim;",
                                 "static const cgsize_t *DIMV(int cell, int d0); static const cgsize_t *RNGV(int cell, int dlo, int dhi); "
                                 "static const cgsize_t *VEC1(cgsize_t a); static const cgsize_t *RV(int kind, int which);",
                                 "static cgsize_t D12_ONES[12], D12_DIMS[12]; static int g_n2nd; static char g_n2type[40];",
                                 "static char LONG1025[1026], LONG4097[4098], LONG5999[6000];"], [], {}
    for a in api:
        name = a["name"]
        pr = protos[name]
        if C07.SKIP.match(name):
            static_only[name] = "not callable in a shared process (terminates, closes or reconfigures the library)"
            continue
        writer = a["doc"] == "Write"
        params = pr["params"]
        ret = pr["ret"]
        if name == "cg_where":
            vals = [("(int *)OUT(0)", "out", []), ("(int *)OUT(1)", "out", []), ("(int *)OUT(2)", "out", []), ("(char **)PP(3)", "out", []), ("(int *)OUT(4)", "out", [])]
        elif name == "cg_free":
            vals = [("malloc(8)", "special", [])]
        elif name == "cg_golist":
            vals = [arg_for12(name, 0, "fn", "int", False), arg_for12(name, 1, "B", "int", False), ("0", "int", []), ("(char **)PP(3)", "out", []), ("(int *)OUT(4)", "out", [])]
        elif name in C07.HAND:
            vals = [arg_for12(name, 0, "fn", "int", False)]
        elif pr["variadic"]:
            static_only[name] = "variadic"
            continue
        else:
            vals = [arg_for12(name, i, pn, pt, writer) for i, (pn, pt) in enumerate(params)]
        variants = [("valid", [v[0] for v in vals], 0, -1, "valid", "valid")]
        has_status = ret == "int"
        for i, (v, kind, invs) in enumerate(vals):
            for cls, ex, must in invs:
                must = must if has_status else 2          # 2: no status to return: only memory safety and "nothing changed"
                argv = [x[0] for x in vals]
                argv[i] = ex
                pname = params[i][0] if i < len(params) else "arg%d" % i
                variants.append(("%s:%s=%s" % (cls, pname, kind), argv, must, i, pname, cls))
        if name == "cg_family_write":          # family tree paths: the over-long component after a valid one
            argv = [x[0] for x in vals]
            argv[2] = '"/Base/NewFam/nnnnnnnnnnnnnnnnnnnnnnnnnnnnnnnnn"'
            variants.append(("name-33-in-path:family_name=name", argv, 1, 2, "family_name", "name-33-in-path"))
        if name == "cg_bcdataset_write":       # a value of the enumeration that this function does not accept
            argv = [x[0] for x in vals]
            argv[2] = "CGNS_ENUMV(BCDataTypeUserDefined)"
            variants.append(("enum-not-accepted:BCDataType=enum", argv, 1, 2, "BCDataType", "enum-not-accepted"))
        if name in ("cg_geo_write", "cg_node_geo_write"):     # an empty file name while overwriting an existing node
            argv = [x[0] for x in vals]
            gi = [p[0] for p in params].index("geo_name")
            fi = [p[0] for p in params].index("filename")
            argv[gi], argv[fi] = '"Geo1"', '""'
            variants.append(("name-empty:filename=filename", argv, 1, fi, "filename", "name-empty-overwrite"))
        if has_status and name not in C07.HAND:
            variants += bound_variants(name, params, vals)
            if writer:
                variants += overwrite_variants(name, params, vals)
        body = ["static int call_%s(int v) {" % name, "  switch (v) {"]
        for k, (desc, argv, must, pos, pname, cls) in enumerate(variants):
            if name in C07.HAND:
                call = C07.HAND[name] % argv[0]
            else:
                call = "%s(%s)" % (name, ", ".join(argv))
            if ret == "int":
                body.append("  case %d: return %s;" % (k, call))
            elif ret == "void":
                body.append("  case %d: %s; return 0;" % (k, call))
            else:
                body.append("  case %d: return (%s) == 0 ? -77 : 0;" % (k, call))
        body += ["  }", "  return -99;", "}"]
        body.append("static const char *const vd_%s[] = {%s};" % (name, ", ".join('"%s"' % v[0] for v in variants)))
        out += body
        flags = 0
        if name.startswith("cgio_"):
            flags |= 1
        if not ({p[0] for p in params} & (C07.HANDLE | C07.CGIO_HANDLE)) and ctx_of12(name, params) == 0:
            flags |= 2
        entries.append(dict(name=name, fn=name, doc=a["doc"], nvar=len(variants), ctx=ctx_of12(name, params), flags=flags,
                            variants=[dict(desc=v[0], must=v[2], pos=v[3], param=v[4], cls=v[5]) for v in variants]))
        for c in C07.EXTRA_CTX.get(name, []):
            entries.append(dict(entries[-1], name="%s@%d" % (name, c), ctx=c))
    out.append("static const entry_t entries[] = {")
    for e in entries:
        out.append('  {"%s", call_%s, %d, %d, %d, vd_%s},' % (e["name"], e["fn"], e["nvar"], e["ctx"], e["flags"], e["fn"]))
    out.append("};")
    out.append("#define NENTRIES %d" % len(entries))
    txt = "\n".join(out) + "\n"
    os.makedirs(os.path.dirname(path), exist_ok=True)
    if not os.path.exists(path) or open(path).read() != txt:
        open(path, "w").write(txt)
    return entries, static_only


def gen_getter_rows(d, path):
    """c12_get_rows.inc for harness/c12_get.c: one function per index row of the getter table"""
    src = open(os.path.join(vlib.REPO, "src", "cgns_internals.c"), errors="replace").read()
    out, called, skipped = [], [], []
    for k, r in enumerate(d["getters"]):
        if r["kind"] != "Idx":
            continue
        g = r["getter"]
        m = re.search(r"^(cgns_\w+)\s*\*\s*%s\s*\(([^)]*)\)\s*\{(.*?)^\}" % re.escape(g), src, re.M | re.S)
        if not m:
            skipped.append((k, g, "definition not found")); continue
        rtype, plist, body = m.group(1), m.group(2), m.group(3)
        params = [x.strip().split()[-1].lstrip("*") for x in plist.split(",")]
        ptypes = [" ".join(x.strip().split()[:-1]) for x in plist.split(",")]
        if r["idx"] not in params:
            skipped.append((k, g, "the index is not a parameter (%s)" % r["idx"])); continue
        parent = r["parent"]
        # how the getter obtains the parent, and its type
        if parent in params:
            pexpr, ptype = parent, ptypes[params.index(parent)].replace("*", "").strip()
        else:
            mm = re.search(r"(cgns_\w+)\s*\*\s*%s\s*(?:=\s*(cgi_get_\w+\s*\([^;]*\))\s*)?;" % re.escape(parent), body)
            ma = re.search(r"\b%s\s*=\s*(cgi_get_\w+\s*\([^;]*\))\s*;" % re.escape(parent), body)
            if not mm or not (mm.group(2) or ma):
                skipped.append((k, g, "parent expression not recognised")); continue
            ptype, pexpr = mm.group(1), (mm.group(2) or ma.group(1))
        vals = {}
        for pn, pt in zip(params, ptypes):
            if pn == "cg":
                vals[pn] = "cg"
            elif pn == r["idx"]:
                vals[pn] = "smp[si]"
            elif "int" in pt and "*" not in pt:
                vals[pn] = "0" if (pn == "Z" and parent == "base") or (pn == "P" and parent == "base" and g != "cgi_get_particle") else "1"
            else:
                vals[pn] = None
        if any(v is None for v in vals.values()):
            skipped.append((k, g, "a parameter that is not an index")); continue
        pcall = re.sub(r"\b(%s)\b" % "|".join(map(re.escape, params)), lambda mo: vals[mo.group(1)] if mo.group(1) != r["idx"] else "1", pexpr)
        call = "%s(%s)" % (g, ", ".join(vals[p] for p in params))
        out.append("static void row_%d(void) {\n  %s *par = %s;\n  if (!par) { printf(\"n %d NOPARENT\\n\"); return; }\n"
                   "  { int n = (int)par->%s; SAMPLES(n);\n    for (si = 0; si < ns; si++) { %s *r = %s; OUT(%d, n, smp[si], r, par->%s); } }\n}"
                   % (k, ptype, pcall, k, r["cnt"], rtype, call, k, r["arr"]))
        called.append(k)
    out.append("static void all_rows(void) {\n" + "\n".join("  row_%d();" % k for k in called) + "\n}")
    txt = "\n".join(out) + "\n"
    os.makedirs(os.path.dirname(path), exist_ok=True)
    if not os.path.exists(path) or open(path).read() != txt:
        open(path, "w").write(txt)
    return called, skipped


def build_driver(d):
    gen = os.path.join(vlib.HDIR, "gen_c12")
    entries, static_only = gen_stubs(d, os.path.join(gen, "c07_stubs.inc"))
    exe = vlib.build_harness("c12_drv", ["c12_drv.c"], includes=[gen])
    return exe, entries, static_only


# ------------------------------------------------------------------------------------------------ running the driver
def parse_cases(lines):
    """-> list of dicts, one per case (C ... S ... R ... E ...)"""
    cases, cur = [], None
    for l in lines:
        if not l.startswith(("C ", "S ", "D ", "R ", "E ")):
            # the library may print a diagnostic of its own in front of the line without a newline (ADFH_CHECK_HID: "#### BAD ID [..] ")
            m = re.search(r"\b([SD] \S+ v=\d+ .*)$", l)
            if m:
                l = m.group(1)
        if l.startswith("C "):
            t = l.split()
            cur = {"name": t[1], "v": int(t[2][2:]), "stderr": []}
            cases.append(cur)
        elif cur is None:
            continue
        elif l.startswith("S ") or l.startswith("D "):
            for kv in l.split()[3:]:
                if "=" in kv:
                    k, v = kv.split("=", 1)
                    cur[k] = v
                elif kv == "OPENFAIL":
                    cur["openfail"] = True
        elif l.startswith("R "):
            m = re.match(r"R (\S+) v=(\d+) out=(\S+)(?: ms=(\d+))? desc=(.*)", l)
            if m:
                cur.update(out=m.group(3), ms=int(m.group(4) or 0), desc=m.group(5))
        elif l.startswith("E "):
            cur["stderr"].append(l[2:])
    return cases


def san_summary(c):
    txt = "\n".join(c.get("stderr", []))
    m = re.search(r"ERROR: AddressSanitizer: (\S+)", txt)
    if m:
        fr = [f for f in re.findall(r"#\d+ 0x[0-9a-f]+ in (\w+)", txt) if not f.startswith("__")][:3]
        return "asan:%s@%s" % (m.group(1), ">".join(fr))
    m = re.search(r"runtime error: ([^\n]*)", txt)
    if m:
        return "ubsan:" + m.group(1)[:70]
    return c.get("out", "?")


def run_inv(exe, tmpl, workdir, backend, mode, n, tag, vto=None, timeout=1200):
    """all entries [0, n) split over JOBS processes; -> cases"""
    procs, per = [], (n + JOBS - 1) // JOBS
    env = dict(os.environ); env.update(vlib.ASAN_ENV); env["C12_BACKEND"] = backend
    for j in range(JOBS):
        a, b = j * per, min(n, (j + 1) * per)
        if a >= b:
            continue
        wk = os.path.join(workdir, "w_%s_%d.cgns" % (tag, j))
        args = [exe, "inv", tmpl, wk, str(mode), str(a), str(b), "0"] + ([str(vto)] if vto is not None else [])
        of = open(wk + ".out", "w")             # a file, not a pipe: the four drivers must not block on a full pipe
        procs.append((subprocess.Popen(args, stdout=of, stderr=subprocess.DEVNULL, cwd=workdir, env=env), of, wk + ".out"))
    cases = []
    for p, of, path in procs:
        try:
            p.wait(timeout=timeout)
        except subprocess.TimeoutExpired:
            p.kill()
            p.wait()
        of.close()
        cases += parse_cases(open(path, errors="replace").read().split("\n"))
    return cases


def make_templates(exe, work, states=STATES):
    t = {}
    for b in BACKENDS:
        for s in states:
            p = os.path.join(work, "t_%s_%s.cgns" % (b, s))
            lines, outcome = vlib.run_impl(exe, "", args=["build", b, s, p], cwd=work)
            if outcome != "ok" or not os.path.exists(p):
                raise vlib.Infra("template %s/%s could not be built: %s %s" % (b, s, outcome, lines[-3:]))
            t[(b, s)] = p
    return t


def judge(c, e, mode, must=1):
    """the property's oracle on one case with an invalid argument: -> list of what is wrong (empty = holds)"""
    bad = []
    if c.get("openfail"):
        return bad
    if c.get("out") != "ok":
        bad.append("sanitizer/signal: " + san_summary(c))
        return bad
    if must == 1 and c.get("st") == "0":
        bad.append("accepted (status CG_OK)")
    elif must == 1 and c.get("msg") == "EMPTY":
        bad.append("error status with an EMPTY message")
    if c.get("view") == "CHANGED":
        bad.append("session view changed")
    if c.get("gone") not in (None, "0"):
        bad.append("a node that existed before the call is gone (CG_MODE_WRITE is append-only: %s node(s))" % c.get("gone"))
    if c.get("sel") == "CHANGED" and c.get("st") not in (None, "0"):
        bad.append("selection state changed (current position / configuration)")
    if c.get("sel") == "UNSET" and c.get("st") not in (None, "0") and not NAVIGATION.match(e["fn"]):
        # a FAILED navigation call that leaves NO position is the specified fail-safe (property C11: "a failed navigation reports
        # an error and never leaves the position silently on a different node"); the cursor is not part of C12's session view.
        # A position that MOVED (sel=CHANGED) stays a violation for them, and UNSET / CHANGED for every other entry point.
        bad.append("selection state changed: the current position is unset after the call")
    if c.get("tree") not in ("same", "-"):
        bad.append("file content %s" % c.get("tree"))
    if mode == 0 and c.get("file") == "CHANGED":
        bad.append("bytes of a read-mode file changed")
    return bad


# ------------------------------------------------------------------------------------------------ keys
def family(cls):
    if "handle" in cls:
        return "handle"
    if cls.startswith("index"):
        return "index"
    if cls in ("name-empty", "name-empty-overwrite"):
        return "name-empty"
    if cls.startswith("name"):
        return "name-long"
    if cls.startswith("enum"):
        return "enum"
    if cls.startswith("datatype"):
        return "datatype"
    if cls == "text-empty":
        return "text-empty"
    if cls.startswith("link-"):
        return "link-string"
    if cls.startswith("overwrite"):
        return "overwrite"
    if cls == "valid":
        return "valid-call"
    return "range"


FAMILY_CLAIM = {"handle": {"handle"}, "index": {"index", "range"}, "name-long": {"name"}, "enum": {"enum", "range"},
                "range": {"range", "enum", "null"}, "datatype": {"name", "range", "enum"}}


_CALLEES = {}


def callees_of(fn, F, depth=3):
    """callees of fn, transitively to a small depth (for the attribution of a failing case to a shared root cause)"""
    if (fn, depth) in _CALLEES:
        return _CALLEES[(fn, depth)]
    out = set()

    def walk(l):
        for s in l:
            a = s.get("a")
            if a and a.get("callee"):
                out.add(a["callee"])
            for k in ("t", "e", "b"):
                if k in s:
                    walk(s[k])
    if fn in F:
        walk(F[fn]["body"])
        if depth > 1:
            for g in list(out):
                out |= callees_of(g, F, depth - 1)
    _CALLEES[(fn, depth)] = out
    return out


def finding_key(fn, var, what, state, F, claims, bad_long=frozenset(), doc="Write"):
    """the stable key of a failing case: <function>:<argument>:<class family>, or the key of the shared root cause"""
    fam = family(var["cls"])
    changed = any("changed" in w or "CHANGED" in w for w in what)
    accepted = any(w.startswith("accepted") for w in what)
    cs = callees_of(fn, F)
    if var["cls"] == "name-empty" and not accepted and "cgi_check_strlen" in cs and (fn, var["param"]) not in bad_long:
        return "cgi_check_strlen:string:name-empty"      # over-long names are refused cleanly: the validator runs, and lets "" through
    if any("EMPTY message" in w for w in what) and "cgi_get_particle_pcoorPC" in cs:
        return "cgi_get_particle_pcoorPC:P:fails-without-message"
    if fn == "cgio_new_node" and changed and not accepted:
        return "cgio_new_node:args:node-created-before-validation"     # create, then set label / dimensions / data, no roll-back
    if changed and not accepted and (fam in ("index", "range", "enum", "datatype", "handle", "valid-call", "text-empty", "overwrite") or doc == "Read"):
        if "cgi_get_zcoorGC" in cs:
            return "cgi_get_zcoorGC:Z:container-created-before-validation"
        if "cgi_get_particle_pcoorPC" in cs:
            return "cgi_get_particle_pcoorPC:P:container-created-before-validation"
    if changed and not accepted and fn in ZGC_CREATORS and not any("file content" in w for w in what):
        # the view changed but not the file: the empty ZoneGridConnectivity_t container of a zone that has none (bare12, unstr,
        # Zone2 of rich12) was created and counted before the arguments were checked
        return "cg_1to1_write:range:range" if fn == "cg_1to1_write" else "%s:Z:container-created-before-validation" % ZGC_CREATORS[fn]
    if fam == "index" and accepted and fn in TOLERANT_COUNTERS:
        return "%s:B/Z:index" % fn                       # one missing test of the getter's result per function
    return "%s:%s:%s" % (fn, var["param"], fam)


ZGC_CREATORS = {"cg_1to1_write": "cg_1to1_write", "cg_conn_write": "cg_conn_write", "cg_conn_write_short": "cg_conn_write", "cg_hole_write": "cg_hole_write"}
# the count functions that report 0 with CG_OK when the getter of their container fails (Validate.known_tolerant [G])
TOLERANT_COUNTERS = {"cg_ncoords", "cg_nholes", "cg_nconns", "cg_n1to1", "cg_n1to1_global", "cg_nbocos", "cg_particle_ncoords"}


# ------------------------------------------------------------------------------------------------ selection of cases
NAVIGATION = re.compile(r"cg_(goto|gorel|gopath|golist)(_f08|_f)?$")      # the entry points that set the cursor


SELECTORS = re.compile(r"zconn|cg_goto|cg_gorel|cg_gopath|cg_golist|cg_where|cg_grid_|cg_ngrids")


def select_cases(entries, rng, tier, frac_entries=1.0, all_classes=True, only_valid=False, probes=False, bounds_only=False):
    """-> [(entry index, variant)] : which cases a pass runs (probes: the may-be-valid small indices as well; bounds_only: the
    state-driven bound variants of every entry point, and every variant of the entry points that select / navigate)"""
    out = []
    for i, e in enumerate(entries):
        isb = [var["cls"].startswith(ALWAYS_RUN) for var in e["variants"]]
        if bounds_only:
            if any(isb) and not e["fn"].startswith("cgio_"):
                out += [(i, 0)] + [(i, v) for v in range(1, len(isb)) if isb[v]]
            elif SELECTORS.search(e["fn"]) or e["fn"].startswith("cgio_"):
                # also every cgio_* entry point with every class: a refused low-level call must leave the node (type, shape, DATA:
                # the tree digest reads them back) as it was on BOTH back ends, and the sampled HDF5 passes may skip it
                out += [(i, v) for v in range(len(isb)) if e["variants"][v]["must"] != 0 or v == 0]
            continue
        if frac_entries < 1.0 and rng.random() > frac_entries and not re.search(r"delete", e["fn"]):
            continue
        out.append((i, 0))
        if only_valid:
            continue
        out += [(i, v) for v in range(1, len(isb)) if isb[v]]
        groups = {}
        for v, var in enumerate(e["variants"]):
            if v == 0 or isb[v] or (var["must"] == 0 and not probes):
                continue
            groups.setdefault((var["pos"], family(var["cls"]), var["must"] == 0), []).append(v)
        for g, vs in groups.items():
            if all_classes or len(vs) <= 2:
                out += [(i, v) for v in vs]
            else:
                out += [(i, v) for v in rng.sample(vs, 2)]
    return out


def run_cases(exe, tmpl, workdir, backend, mode, cases, tag, timeout=1500, extra_env=None):
    """the (entry, variant) pairs split over JOBS driver processes (balanced); -> parsed cases"""
    env = dict(os.environ); env.update(vlib.ASAN_ENV); env["C12_BACKEND"] = backend
    env.pop("C12_RINDZERO", None)
    env.update(extra_env or {})
    chunks = [cases[j::JOBS] for j in range(JOBS)]
    procs = []
    for j, ch in enumerate(chunks):
        if not ch:
            continue
        wk = os.path.join(workdir, "w_%s_%d.cgns" % (tag, j))
        lf = wk + ".list"
        open(lf, "w").write("".join("%d %d\n" % c for c in ch))
        of = open(wk + ".out", "w")
        procs.append((subprocess.Popen([exe, "invl", tmpl, wk, str(mode), lf], stdout=of, stderr=subprocess.DEVNULL, cwd=workdir, env=env), of, wk + ".out"))
    res = []
    for p, of, path in procs:
        try:
            p.wait(timeout=timeout)
        except subprocess.TimeoutExpired:
            p.kill(); p.wait()
        of.close()
        res += parse_cases(open(path, errors="replace").read().split("\n"))
    return res


def model_lists():
    out = {}
    for l in vlib.run_model("c12", "", args=["lists"]):
        t = l.split()
        if t and t[0] == "l":
            out[t[1]] = t[2:]
    return out


def model_claims():
    claims, modes = {}, {}
    for l in vlib.run_model("c12", "", args=["claims"]):
        t = l.split()
        if not t:
            continue
        if t[0] == "c":
            for pc in t[2:]:
                p, c = pc.split(":")
                claims.setdefault(t[1], {}).setdefault(int(p), set()).add(c)
        elif t[0] == "m":
            modes[t[1]] = set(t[2:])
    return claims, modes


def getter_correspondence(ck, d, tm, work):
    gen = os.path.join(vlib.HDIR, "gen_c12")
    called, skipped = gen_getter_rows(d, os.path.join(gen, "c12_get_rows.inc"))
    exe = vlib.build_harness("c12_get", ["c12_get.c"], includes=[gen])
    files = [tm[k] for k in sorted(tm) if k[1] in ("rich12", "unstr")]
    lines, outcome = vlib.run_impl(exe, "", args=files, cwd=work)
    g = [l for l in lines if l.startswith("g ")]
    script = "\n".join(" ".join(l.split()[:4]) for l in g) + "\n"
    m = [l for l in vlib.run_model("c12", script, args=["getters"]) if l.startswith("g ")]
    div = [(a, b) for a, b in zip(g, m) if a != b]
    if len(g) != len(m):
        div.append(("%d lines" % len(g), "%d lines" % len(m)))
    nontrivial = len({(l.split()[1], l.split()[2]) for l in g if int(l.split()[2]) > 0})
    return dict(rows_called=len(called), rows_skipped=[list(x) for x in skipped], samples=len(g), outcome=outcome, divergences=div[:10],
                rows_with_nonempty_arrays=nontrivial), div, outcome


def run(ck):
    big = ck.tier == "thorough"
    t_start = time.time()
    vlib.build_impl()
    info, d = c12_validate.write_gen(repo=vlib.REPO, impl=vlib.IMPL)
    exe, entries, static_only = build_driver(d)
    E = {e["name"]: e for e in entries}
    DOC = {e["fn"]: e["doc"] for e in entries}
    F = {}
    for f in d["functions"]:
        F.setdefault(f["name"], f)
    res = vlib.coq_check_properties("C12")
    broken = ck.proof_result(res, CHECKER)
    forb = vlib.coq_forbidden_scan("C12")
    ck.extra["forbidden_tokens"] = forb
    if forb:
        ck.violation({"broken_obligation": "forbidden tokens in the Coq files C12 depends on", "hits": forb}, nofail=True)
    vlib.build_modelrun("c12")
    L = model_lists()
    claims, modegates = model_claims()
    # the Python mirror (line numbers for the reports) must agree with the extracted Coq functions
    import c12_explain
    ex = c12_explain.Explain(d, coq_dir=vlib.COQ)
    ex.analyse()
    dom = sorted(n for n in ex.api if n not in set(L.get("file_ops", [])))
    mirror = {"late": [n for n in dom if (n, "CW") not in ex.V], "silent": [n for n in dom if (n, "CW") not in ex.NS],
              "tolerant": [n for n in dom if ex.why_tolerant(n)]}
    tie_broken = []
    for k in ("late", "silent", "tolerant"):
        if sorted(L.get(k, [])) != sorted(mirror[k]):
            tie_broken.append({"list": k, "only_coq": sorted(set(L.get(k, [])) - set(mirror[k]))[:10], "only_mirror": sorted(set(mirror[k]) - set(L.get(k, [])))[:10]})
    excused = {"late": set(L.get("known_late", [])) | set(L.get("revalidating_wrappers", [])), "tolerant": set(L.get("known_tolerant", [])),
               "silent": set(L.get("known_silent", [])), "unclaimed": set(L.get("known_unvalidated", []))}
    new_static = {k: sorted(set(L.get(k, [])) - excused[k]) for k in excused}       # functions that newly fail an obligation
    new_fns = sorted({x.split(":")[0] for v in new_static.values() for x in v})
    # listed exceptions that the current sources no longer need (a repaired entry point): reported, never an error --
    # the list in Validate.v is then to be shortened (notes/C12-fixes/Validate-after-fixes.diff)
    stale = {k: sorted((excused[k] - (set(L.get("revalidating_wrappers", [])) if k == "late" else set())) - set(L.get(k, []))) for k in excused}
    ck.extra["translator"] = dict(info, entry_points=len(d["api"]), in_domain=len(dom), late=len(L.get("late", [])), tolerant=len(L.get("tolerant", [])),
                                  silent=len(L.get("silent", [])), unclean_getters=L.get("unclean_getters", []), newly_failing=new_static,
                                  listed_but_no_longer_failing=stale,
                                  mirror_disagreement=tie_broken, claims=sum(len(v) for v in claims.values()),
                                  entry_points_with_mode_gate=sum(1 for v in modegates.values() if v))
    ck.cov["trusted_base"] = [
        "Coq 8.16.1 kernel + vm_compute (no native_compute)",
        "translators/c12_validate.py (clang 14 -ast-dump=json of the four files; the walk that turns a body into the structured skeleton: which "
        "test links to which call, check classes, parameter dependence / identity tokens, break/continue/goto handling) and the helpers it "
        "imports from translators/c07_gates.py -- cross-checked dynamically: every claimed validation is exercised with the matching invalid class",
        "the modelling decisions of coq/Validate.v: benign_stores (caches / lazily allocated empty containers), prim_effects / benign_externs of "
        "Gates.v, `prepare` (a re-validation with identical argument identities cannot fail; a callee's check of a value that is not a caller "
        "parameter is an internal error of the caller), CState checks are not argument checks, the exception lists (each entry tagged)",
        "the skeleton machine abstracts data: conditions are oracle bits; what it cannot exhibit (out-of-bounds accesses after validation, heap "
        "layout) is left to ASan/UBSan in the dynamic runs",
        "extraction: ExtrOcamlBasic only; OCaml 4.13.1; ocaml/eng_c12.ml, ocaml/zutil.ml",
        "harness/c12_drv.c (+ harness/c07_drv.c: SHA-256, cgio tree walk, template files), harness/c12_get.c, the stub generator in this file, "
        "ASan/UBSan; translators/c12_explain.py only names source lines (its lists are compared with the extracted ones)",
    ]
    ck.assumptions = ["PARTIAL: proved = validation order, failure propagation, message provenance, index arithmetic (all entry points, named exceptions "
                      "apart); memory safety after validation is TESTED under ASan/UBSan, not proved",
                      "the back ends (ADF_*/ADFH_* mutators, unlink/rename) are the only primitives that change a file (Gates.prim_effects)",
                      "entity counts never shrink inside one API call (re-validation assumption of Validate.prepare)",
                      "file-level operations (cg_open, cg_close, cg_save_as, cg_is_cgns, cgio_open_file, cgio_close_file, cgio_compress_file, cgio_copy_file, "
                      "library configuration / exit) are outside the domain; ADF / ADFH internals are reached only dynamically through cgio_*",
                      "the current FILE pointer (cg) is navigation state, not session view: an invalid handle clears it and later node-context calls "
                      "fail with 'no current CGNS file open'; the current POSITION (cg_where; for cg_goto / cg_gorel / cg_gopath / cg_golist a failed call "
                      "may leave NO position -- the fail-safe property C11 specifies -- but not another one), the current ZoneGridConnectivity_t "
                      "(cg_zconn_get), cg_get_compress / cg_get_file_type / cg_get_cgio ARE compared (no public getter exists for the rind-index and search-path "
                      "settings); the entry points that reconfigure the library (cg_configure, cg_set_*) are static-only"]
    ck.cov["rule"] = ("every callable public entry point (stub generated from the prototype table) x every argument position x every invalid class of its "
                      "kind (handle: closed / never issued / 0 / -1; index: 0 / -1 / count+1 / INT_MAX; name: empty / 33 / 1000 characters; enum: -1 / "
                      "max+1; ranges and sizes: min>max, negative, beyond, 0 / -1 / 13 dimensions; data type strings; STATE-DRIVEN BOUNDS: for every size "
                      "/ count / range argument of the writers the values just inside and just outside each bound that zone (1,1) of the open file "
                      "implies -- ncells, ncells+1, nvertices, nvertices+1 per GridLocation, VertexSize / CellSize (+1) per range, section and particle "
                      "sizes, node sizes for cgio blocks; must-fail only where the rule catalogue R1-R9 of bound_variants knows the SIDS rule) x {ADF, "
                      "HDF5} x {rich structured 3-D zone with three ZoneGridConnectivity_t (the second one current), two GridCoordinates_t, vertex and "
                      "cell solutions, particles, a second base; unstructured; bare zone; 2-D structured zone with two ZoneGridConnectivity_t} x "
                      "{MODIFY, READ, WRITE}; each call in its own process with a watchdog; oracle: error status, non-empty message, read-API dump "
                      "(every ZoneGridConnectivity_t, the current one) unchanged, selection state (cg_where, compress, file type, cgio number) "
                      "unchanged, cgio tree digest (and SHA-256 in READ mode) equal to a control run, no sanitizer report.  quick: all classes on ADF/rich/modify and ADF/bare/modify, seeded samples elsewhere.  non-trivial = the same "
                      "entry point accepts the valid variant in that configuration (the invalid argument is the only reason to fail); distinct by "
                      "(entry point, parameter, class, configuration)")
    work = ck.work
    tm = make_templates(exe, work)

    # ---- getter model vs the real getters
    gc, gdiv, goutcome = getter_correspondence(ck, d, tm, work)
    ck.extra["getter_correspondence"] = gc
    ck.cov["traces_validated_against_impl"] += gc["samples"]

    # ---- the property's own oracle
    rng = ck.rng
    BO = "bounds"      # a pass of the state-driven bounds (+ the selecting / navigating entry points) only
    BZ = "bounds-rindzero"     # the same with cg_configure(CG_CONFIG_RIND_INDEX, CG_CONFIG_RIND_ZERO) in every session
    if big:
        plan = [("adf", "rich12", "modify", 1.0, True, False), ("adf", "bare12", "modify", 1.0, True, False), ("adf", "unstr", "modify", 1.0, True, False),
                ("adf", "str2d", "modify", 1.0, True, False), ("hdf5", "str2d", "modify", BO, True, False), ("adf", "str2d", "read", BO, True, False),
                ("adf", "rich12", "write", BO, True, False), ("adf", "rich12", "modify", BZ, True, False), ("hdf5", "str2d", "modify", BZ, True, False),
                ("adf", "rich12", "read", 1.0, True, False), ("adf", "unstr", "read", 0.5, True, False), ("adf", "bare12", "read", 0.5, True, False),
                ("hdf5", "rich12", "modify", 0.55, True, False), ("hdf5", "bare12", "modify", 1.0, True, False), ("hdf5", "unstr", "modify", 0.5, True, False),
                ("hdf5", "rich12", "read", 0.25, True, False), ("hdf5", "unstr", "read", 0.25, False, False),
                ("adf", "bare12", "write", 1.0, True, False), ("hdf5", "bare12", "write", 0.5, True, False)]
    else:
        plan = [("adf", "rich12", "modify", 1.0, False, False), ("adf", "bare12", "modify", 1.0, False, False),
                ("adf", "unstr", "modify", BO, False, False), ("adf", "str2d", "modify", BO, False, False), ("hdf5", "rich12", "modify", BO, False, False),
                ("adf", "rich12", "modify", BZ, False, False),
                ("hdf5", "rich12", "modify", 0.12, False, False), ("hdf5", "bare12", "modify", 0.2, False, False),
                ("adf", "unstr", "read", 0.2, False, False), ("adf", "bare12", "write", 0.3, False, False)]
    findings, observations, dyn = {}, {}, {"passes": [], "cases": 0, "sanitizer_reports": 0}
    valid_ok, rejected, raw = {}, {}, []
    bound_ok, bound_seen = set(), set()
    for (b, st, mode, frac, allc, onlyv) in plan:
        t0 = time.time()
        bo = frac in (BO, BZ)
        cases = select_cases(entries, rng, ck.tier, 1.0 if bo else frac, allc, onlyv, probes=big and st == "rich12" and b == "adf", bounds_only=bo)
        rs = run_cases(exe, tm[(b, st)], work, b, MODES[mode], cases, "%s_%s_%s%s" % (b, st, mode, "_rz" if frac == BZ else ""),
                       extra_env={"C12_RINDZERO": "1"} if frac == BZ else None)
        cfg = "%s/%s/%s%s" % (b, st, mode, "/" + frac if bo else "")
        dyn["passes"].append({"config": cfg, "cases": len(rs), "wall_s": round(time.time() - t0, 1)})
        dyn["cases"] += len(rs)
        ok_here = {c["name"] for c in rs if c["v"] == 0 and c.get("st") == "0" and c.get("out") == "ok"}
        for c in rs:
            e = E.get(c["name"])
            if e is None or c["v"] >= len(e["variants"]):
                continue
            var = e["variants"][c["v"]]
            fn = e["fn"]
            if c.get("out") not in ("ok", None):
                dyn["sanitizer_reports"] += 1
            if c["v"] == 0:
                if c.get("st") == "0":
                    valid_ok.setdefault(fn, set()).add(cfg)
                if c.get("out") != "ok" and not c.get("openfail"):
                    observations.setdefault("valid-call:" + fn, {"what": san_summary(c), "config": cfg})
                # whatever the reason: a call that returns an error must leave the view, the selection state and the file alone;
                # and in CG_MODE_WRITE no call, successful or not, removes a node that existed
                gone = c.get("gone") not in (None, "0")
                if (c.get("st") not in (None, "0") or gone) and c.get("out") == "ok" and not c.get("openfail"):
                    w0 = [x for x in judge(c, e, MODES[mode], 0) if "hanged" in x or "CHANGED" in x or "gone" in x]
                    if c.get("st") == "0":
                        w0 = [x for x in w0 if "gone" in x]
                    if w0:
                        raw.append((fn, dict(var, cls="valid", param="call"), ["the call with the VALID arguments returned status %s" % c.get("st")] + w0, st,
                                    {"level": "inv", "config": cfg, "backend": b, "state": st, "mode": mode, "entry": c["name"], "variant": 0, "desc": "valid arguments",
                                     "what": w0, "observed": {k: c.get(k) for k in ("st", "msg", "view", "sel", "tree", "file", "out")}}))
                # wrong open mode: a documented writer on a READ-mode handle must be refused
                if mode == "read" and e["doc"] == "Write" and c.get("st") == "0":
                    findings.setdefault("%s:mode:read-only-handle" % fn, {"level": "inv", "config": cfg, "entry": c["name"], "variant": 0, "desc": "valid arguments, READ-mode handle",
                                                                         "what": ["a writer accepted a READ-mode handle"], "observed": {k: c.get(k) for k in ("st", "msg", "view", "tree", "file", "out")}})
                continue
            nontrivial = c["name"] in ok_here
            ck.case((fn, var["param"], var["cls"], cfg) if nontrivial else None,
                    sample={"config": cfg, "entry": c["name"], "variant": var["desc"], "status": c.get("st"), "message": c.get("msg"), "view": c.get("view"),
                            "tree": c.get("tree"), "outcome": c.get("out")} if nontrivial and len(ck.cov["samples"]) < 4 else None)
            if c.get("st") not in (None, "0"):
                rejected.setdefault((fn, var["pos"] + 1), set()).add(family(var["cls"]))
            if var["cls"].startswith("bound") and var["must"] == 0:
                bound_seen.add("%s %s" % (fn, var["desc"]))
                if c.get("st") == "0":
                    bound_ok.add("%s %s" % (fn, var["desc"]))
            w = judge(c, e, MODES[mode], var["must"])
            if var["must"] == 0:
                # a probe: it may be a valid index.  Only a sanitizer report counts, or a change although the call was refused
                w = [x for x in w if x.startswith("sanitizer") or "is gone" in x] + ([x for x in w if "hanged" in x or "CHANGED" in x] if c.get("st") not in (None, "0") else [])
            if w and (var["must"] or var["must"] == 0):
                wit = {"level": "inv", "config": cfg, "backend": b, "state": st, "mode": mode, "entry": c["name"], "variant": c["v"], "desc": var["desc"],
                       "what": w, "observed": {k: c.get(k) for k in ("st", "msg", "view", "sel", "tree", "file", "out")}, "stderr": c.get("stderr", [])[:6],
                       "valid_variant_accepted_here": nontrivial,
                       "oracle": "an invalid argument => error status, non-empty message, read-API dump and file content unchanged, no sanitizer report",
                       "replay_hint": ".build/h/c12_drv inv <template %s/%s> <work> %d <entry index> <entry index + 1> %d %d" % (b, st, MODES[mode], c["v"], c["v"] + 1)}
                raw.append((fn, var, w, st, wit))
    bad_long = frozenset((fn, var["param"]) for fn, var, w, st, wit in raw if family(var["cls"]) == "name-long")
    for fn, var, w, st, wit in raw:
        key = finding_key(fn, var, w, st, F, claims, bad_long, DOC.get(fn, "Write"))
        if key in findings:
            findings[key].setdefault("also", [])
            if len(findings[key]["also"]) < 12:
                findings[key]["also"].append("%s %s %s: %s" % (wit["config"], wit["entry"], var["desc"], "; ".join(w)[:80]))
        else:
            findings[key] = wit
    ck.cov["traces_validated_against_impl"] += dyn["cases"]

    # ---- use after close (DESIGN.md section 6 row 11)
    nuac = int(vlib.run_impl(exe, "", args=["nuac"], cwd=work)[0][0])
    uac = []
    for b in (BACKENDS if big else ["adf"]):
        for k in (range(nuac) if big else rng.sample(range(nuac), 4)):
            lines, outcome = vlib.run_impl(exe, "", args=["uac", os.path.join(work, "u1.cgns"), os.path.join(work, "u2.cgns"), b, str(k)], cwd=work)
            cs = parse_cases(lines)
            ck.cov["evaluations"] += 1
            for c in cs:
                bad = c.get("out") != "ok" or c.get("st") == "0" or c.get("msg") == "EMPTY" or c.get("view") == "CHANGED"
                uac.append({"backend": b, "call": c["name"], "status": c.get("st"), "outcome": san_summary(c) if c.get("out") != "ok" else "ok"})
                if bad:
                    findings.setdefault("cg_close:fn:current-file-dangling",
                                        {"level": "uac", "backend": b, "k": k, "call": c["name"], "observed": {x: c.get(x) for x in ("st", "msg", "view", "out")},
                                         "stderr": c.get("stderr", [])[:6], "what": [san_summary(c) if c.get("out") != "ok" else "accepted / view changed"],
                                         "oracle": "files f1, f2 open; cg_goto(f1, ..); cg_close(f1); a node-context call must fail cleanly (the current file is closed)"})
    dyn["use_after_close"] = uac

    # ---- cross-checks of the translator rows (tie T <-> C)
    contradicted = []
    confirmed = 0
    for fn, ps in claims.items():
        for p, cl in ps.items():
            for (f2, p2), fams in rejected.items():
                pass
    for e in entries:
        fn = e["fn"]
        for v, var in enumerate(e["variants"]):
            if v == 0 or var["must"] != 1:
                continue
            fam = family(var["cls"])
            cl = claims.get(fn, {}).get(var["pos"] + 1, set())
            if cl & FAMILY_CLAIM.get(fam, set()):
                if fam in rejected.get((fn, var["pos"] + 1), set()):
                    confirmed += 1
    for key, wit in findings.items():
        if wit.get("level") == "inv" and any(w.startswith("accepted") for w in wit.get("what", [])):
            fn = E[wit["entry"]]["fn"]
            var = E[wit["entry"]]["variants"][wit["variant"]] if wit.get("variant") else None
            if var and (claims.get(fn, {}).get(var["pos"] + 1, set()) & FAMILY_CLAIM.get(family(var["cls"]), set())):
                contradicted.append({"entry": fn, "param": var["param"], "class": var["cls"], "table": sorted(claims[fn][var["pos"] + 1])})
    dyn["claims_confirmed"] = confirmed
    dyn["claims_contradicted"] = contradicted[:10]

    # ---- verdicts
    for key, wit in sorted(findings.items()):
        ck.finding(key, wit)
    problems = []
    if broken:
        problems.append({"broken_obligations": broken})
    if tie_broken:
        problems.append({"python_mirror_disagrees_with_extracted_lists": tie_broken})
    if any(new_static.values()):
        problems.append({"entry_points_newly_failing_an_obligation": new_static,
                         "where": {n: (ex.why_late(n) if n in new_static["late"] else ex.why_silent(n) if n in new_static["silent"] else ex.why_tolerant(n))
                                   for n in new_fns[:8] if n in ex.F}})
    if gdiv or goutcome != "ok":
        problems.append({"getter_model_vs_implementation": gc})
    if problems and not ck.violations:
        # widened search: everything about the functions behind the broken obligation, all classes, all states, both back ends
        suspects = set(new_fns)
        for br in broken:
            suspects |= set(re.findall(r"\b(cgi?o?_\w+)\b", br.get("message", "")))
        # a getter whose model and implementation disagree, or whose row no longer checks: every entry point that uses it
        bad_rows = {a_.split()[1] for a_, b_ in gdiv if a_.startswith("g ")}
        gnames = {d["getters"][int(k)]["getter"] for k in bad_rows if k.isdigit() and int(k) < len(d["getters"])} | set(L.get("bad_getters", [])) | \
                 (set(L.get("unclean_getters", [])) - {"cgi_get_zcoorGC", "cgi_get_particle_pcoorPC"})
        if gnames:
            suspects |= {e["fn"] for e in entries if callees_of(e["fn"], F) & gnames}
        suspects &= {e["fn"] for e in entries}
        idxs = [i for i, e in enumerate(entries) if e["fn"] in suspects]
        found = False
        if idxs:
            for b in BACKENDS:
                for st in STATES:
                    for mode in ("modify", "read"):
                        cases = [(i, v) for i in idxs for v in range(entries[i]["nvar"])]
                        rs = run_cases(exe, tm[(b, st)], work, b, MODES[mode], cases, "widen_%s_%s_%s" % (b, st, mode))
                        ck.cov["evaluations"] += len(rs)
                        for c in rs:
                            e = E.get(c["name"])
                            if e is None or c["v"] == 0:
                                continue
                            var = e["variants"][c["v"]]
                            w = judge(c, e, MODES[mode], var["must"])
                            if var["must"] == 0:
                                w = [x for x in w if x.startswith("sanitizer") or "is gone" in x] + ([x for x in w if "hanged" in x or "CHANGED" in x] if c.get("st") not in (None, "0") else [])
                            if w:
                                key = finding_key(e["fn"], var, w, st, F, claims, frozenset(), e["doc"])
                                if ck.finding(key, {"level": "inv", "config": "%s/%s/%s" % (b, st, mode), "backend": b, "state": st, "mode": mode, "entry": c["name"],
                                                    "variant": c["v"], "desc": var["desc"], "what": w, "found_by": "widened search behind a broken obligation"}):
                                    found = True
        if not found and not ck.violations:
            ck.violation({"problems": problems,
                          "note": "an obligation over the regenerated table no longer checks (or a tie broke) but every invalid call explored failed cleanly"},
                         nofail=True)
    dyn["findings"] = sorted(findings)
    dyn["finding_witnesses"] = {k: {f: w.get(f) for f in ("config", "entry", "desc", "what", "also") if w.get(f) is not None}
                                for k, w in sorted(findings.items())}
    dyn["observations_outside_the_property"] = observations
    dyn["entry_points_called"] = len(entries)
    dyn["static_only"] = sorted(static_only)
    dyn["entry_points_whose_valid_variant_is_accepted_somewhere"] = len(valid_ok)
    dyn["valid_variant_never_accepted"] = sorted({e["fn"] for e in entries} - set(valid_ok))
    dyn["bounds"] = {"variants": sum(1 for e in entries if "@" not in e["name"] for v in e["variants"] if v["cls"].startswith("bound")),
                     "must_fail": sum(1 for e in entries if "@" not in e["name"] for v in e["variants"] if v["cls"].startswith("bound") and v["must"] == 1),
                     "inside_values_accepted_somewhere": sorted(bound_ok), "never_accepted_may_variants": sorted(bound_seen - bound_ok)}
    ck.extra["dynamic"] = dyn
    ck.extra["proved_vs_tested"] = {
        "proved": "C12_getter_bounds / _complete / _rejects (any count, any array), C12_invalid_no_change (RINV => unchanged, any table passing van_ok), "
                  "C12_failing_check_fails, C12_failure_has_message, and their table-level instances on the regenerated table "
                  "(C12_validate_before_effect, C12_checks_guarded, C12_error_nonempty, C12_getter_table) with the named exceptions",
        "tested_only": "memory safety after validation (ASan/UBSan), the entry points of the exception lists, the session view and file content after "
                       "every invalid call"}
    ck.extra["input_distribution"] = {"plan": [list(x) for x in plan], "entry_points": len(entries), "variants": sum(e["nvar"] - 1 for e in entries),
                                      "classes": sorted({v["cls"] for e in entries for v in e["variants"][1:]})}
    ck.extra["wall_s_parts"] = {"total": round(time.time() - t_start, 1)}


def replay(ck, path):
    r = json.load(open(path))
    vlib.build_impl()
    info, d = c12_validate.write_gen(repo=vlib.REPO, impl=vlib.IMPL)
    exe, entries, static_only = build_driver(d)
    idx = {e["name"]: i for i, e in enumerate(entries)}
    E = {e["name"]: e for e in entries}
    tm = make_templates(exe, ck.work)
    if r.get("level") == "inv" and r.get("entry") in idx:
        b, st, mode = r["config"].split("/")[:3] if "config" in r else (r["backend"], r["state"], r["mode"])
        rs = run_cases(exe, tm[(b, st)], ck.work, b, MODES[mode], [(idx[r["entry"]], 0), (idx[r["entry"]], r["variant"])], "replay",
                       extra_env={"C12_RINDZERO": "1"} if r.get("config", "").endswith("rindzero") else None)
        fails, det = False, []
        for c in rs:
            e = E[c["name"]]
            var = e["variants"][c["v"]]
            if c["v"] == 0:
                if r["variant"] == 0 and c.get("st") == "0" and mode == "read":
                    fails = True            # a writer accepted a READ-mode handle
                if r["variant"] == 0 and c.get("st") not in (None, "0"):
                    w0 = [x for x in judge(c, e, MODES[mode], 0) if "hanged" in x or "CHANGED" in x]
                    det.append({"variant": "valid arguments", "what": w0, "observed": {k: c.get(k) for k in ("st", "msg", "view", "sel", "tree", "file", "out")}})
                    fails = fails or bool(w0)
                continue
            w = judge(c, e, MODES[mode], var["must"])
            if var["must"] == 0:      # a value that may be legal: only a sanitizer report, or a change although the call was refused
                w = [x for x in w if x.startswith("sanitizer") or "is gone" in x] + ([x for x in w if "hanged" in x or "CHANGED" in x] if c.get("st") not in (None, "0") else [])
            det.append({"variant": var["desc"], "what": w, "observed": {k: c.get(k) for k in ("st", "msg", "view", "sel", "tree", "file", "out")}, "stderr": c.get("stderr", [])[:5]})
            fails = fails or bool(w)
    elif r.get("level") == "uac":
        lines, outcome = vlib.run_impl(exe, "", args=["uac", os.path.join(ck.work, "u1.cgns"), os.path.join(ck.work, "u2.cgns"), r["backend"], str(r["k"])], cwd=ck.work)
        cs = parse_cases(lines)
        fails = any(c.get("out") != "ok" or c.get("st") == "0" or c.get("msg") == "EMPTY" or c.get("view") == "CHANGED" for c in cs)
        det = [{k: c.get(k) for k in ("name", "st", "msg", "view", "out")} for c in cs]
    else:
        print("replay names a broken obligation / tie, no input to run:", json.dumps(r)[:800])
        return 1
    print("replay: property C12 on this input: %s %s" % ("FAILS" if fails else "holds", json.dumps(det)[:900]))
    return 1 if fails else 0
