"""C02c -- third layer of C02: how ADF stores ONE node's data in data chunks and a data-chunk table.

Model    : coq/AdfChunks.v (ADF_Put_Dimension_Information, ADF_Write_All/Block/_Data, ADF_Read_All/Block/_Data,
           ADFI_read/write_data_chunk with the zero fill, ADFI_read/write_data_chunk_table, ADFI_delete_data; the
           free-space allocator is an oracle = the addresses the real allocator returned, read off the raw file).
Proofs   : coq/Properties_C02c.v (C02_chunks_read_after_write, C02_chunks_invariant, C02_chunk_lookup_total, the
           *_refuted witnesses of d6f9e64 and of the defects found here).
Tie      : (1) differential: seeded histories of set_dimensions / write_all / write_block / write_data / the three
               readers / close + reopen on ONE ADF node (generator aimed at chunk boundaries), harness/c02c_hist.c on
               the real library, ocaml/eng_c02c.ml on the extracted model: every status and every specified byte;
               model-independent oracle: a plain Python array of the elements written since the last set_dimensions;
           (2) structural: after every mutator and after reopen the node header, the data-chunk table and every
               chunk's own boundary tags and end pointer are decoded from the RAW FILE (pread; extracted AdfCodec
               decoders) and compared with the model: number of chunks, capacity of each, and every dumped byte the
               model specifies -- the model is pinned to the code's allocation decisions, not only to its answers.
The variant of the code (old unsigned count / the four proposed repairs) is DETECTED by running five witness
histories on the library; the model is run in that variant, and every defect present is reported through ck.finding.

run_extra(ck) is called from checks/C02.py; run(ck) / replay(ck, path) let `./check C02c` work on its own."""
import hashlib, json, os, struct, sys
import vlib

CHECKER = "make -C coq Properties_C02c.vo (coqc 8.16.1 kernel); coqc Properties_C02c.v (Print Assumptions)"
TYPES = {"C1": 1, "B1": 1, "I4": 4, "U4": 4, "R4": 4, "I8": 8, "U8": 8, "R8": 8, "X4": 8, "X8": 16}

KEY_WALL = "adf-write-all-shrinks-chunk-under-table"
KEY_WBLK = "adf-write-block-new-chunk-wrong-offset"
KEY_ZERO = "adf-zero-fill-overreads-zero-block"
KEY_RBLK = "adf-read-block-incomplete-memset-overflow"
KEY_UNSIGNED = "adf-write-data-unsigned-count"
KEY_STATUS = "adf-chunk-write-failure-not-reported"
WHAT = {
    KEY_WALL: "ADF_Write_All_Data (several chunks) rewrites the last chunk it fills with chunk_bytes = the bytes that go into it: the "
              "chunk's end tag and end pointer move inwards while the data-chunk table keeps the old size; after the node grows "
              "again (within its capacity) read_all / read_block fail with ADF 35, a strided write lands on the displaced end tag "
              "and read_all / read_block / set_dimensions / delete then fail with ADF 17 for ever (also after reopen)",
    KEY_WBLK: "ADF_Write_Block_Data (several chunks, a further chunk is added) places the block inside the new chunk at "
              "MAX(0, start_byte - <size of the new chunk>) instead of start_byte - <bytes in the old chunks>: the block is stored "
              "at the wrong elements (or refused with ADF 35) and the addressed elements keep unspecified bytes",
    KEY_ZERO: "ADFI_write_data_chunk(NULL) writes DISK_BLOCK_SIZE - offset + 1 bytes from the 4096-byte block_of_00: a new chunk of "
              "more than 4096 data bytes whose data area starts on a block boundary reads 4097 bytes from it (ASan "
              "global-buffer-overflow in ADFI_write_file); the loop that follows never advances the block, so the chunk is not zeroed",
    KEY_RBLK: "ADF_Read_Block_Data (several chunks that hold less than the block asked for: the node was re-dimensioned beyond its "
              "capacity and not yet rewritten) reports INCOMPLETE_DATA after memset(data_pointer, 0, total_bytes - bytes_read) into the "
              "caller's buffer of block_bytes bytes: heap-buffer-overflow WRITE (ASan) of up to the whole node's size",
    KEY_STATUS: "an I/O error (EIO injected into one system call) inside a write that adds a data chunk or a data-chunk table is not "
                "reported: the call returns success and the data written cannot be read back (state before /repo cdc1612 + 40a004d: "
                "the status of ADFI_write_data_chunk_table was not checked)",
    KEY_UNSIGNED: "ADF_Write_Data counts the remaining bytes in an unsigned variable (state before /repo d6f9e64): a node grown to two "
                  "chunks and then shrunk below the first one cannot be written with cgio_write_data any more (ADF 14) and becomes unreadable",
}


# ----------------------------------------------------------------------------- ./check C02c: its own Check
_Base = vlib.Check


class _Check(_Base):
    """standalone runs use the C02 lines of KNOWN_FINDINGS.txt as well (the layer belongs to C02)"""
    def __init__(self, pid, tier, seed):
        _Base.__init__(self, pid, tier, seed)
        if pid == "C02c":
            k2, f2 = vlib.load_known("C02")
            self.known += k2; self.fixed += f2


if len(sys.argv) > 1 and sys.argv[1] == "C02c":
    vlib.Check = _Check


# ----------------------------------------------------------------------------- helpers
def prod(l):
    p = 1
    for x in l:
        p *= x
    return p


def positions(dims, sel):
    """linear 0-based element offsets of a strided selection, first index fastest (nested loops; the oracle's own)"""
    pos = [0]
    mult = 1
    for d, (s, e, st) in zip(dims, sel):
        idx = range(s, e + 1, st)
        pos = [p + (i - 1) * mult for i in idx for p in pos]
        mult *= d
    return pos


def sel_valid(dims, sel):
    return len(dims) == len(sel) and all(1 <= s <= e <= d and st >= 1 for d, (s, e, st) in zip(dims, sel))


def short(line, n=120):
    return line if len(line) <= n else line[:n] + "...(%d chars)" % len(line)


class Gen:
    """history generator aimed at chunk boundaries.  [caps] is the generator's own guess of the chunk capacities (bytes);
    it only steers the choice of sizes and positions, verdicts never come from it."""
    def __init__(self, rng, path, big=False, multi_d=False):
        self.rng, self.path, self.big, self.multi_d = rng, path, big, multi_d
        self.lines = ["new " + path]
        self.ty, self.dims, self.caps, self.fresh = "MT", [], [], True
        self.ctr = rng.randrange(1, 200)

    def elems(self, n, tsz):
        """n distinct recognisable element values"""
        out = bytearray()
        for _ in range(n):
            self.ctr += 1
            v = self.ctr
            out += bytes(((v >> (8 * (k % 3))) + 7 * k) & 255 if k else v & 255 for k in range(tsz))
        return bytes(out).hex() if n else "-"

    def total(self):
        return TYPES.get(self.ty, 0) * prod(self.dims) if self.dims else 0

    def cap(self):
        return sum(self.caps)

    def grow_caps(self, kind):
        t = self.total()
        if not self.caps:
            self.caps = [t]
        elif t > self.cap():
            self.caps.append(t - self.cap())
        elif kind == "wall" and len(self.caps) == 1:
            self.caps = [t]

    def shape(self, n):
        r = self.rng
        if not self.multi_d or n < 4 or r.random() < 0.5:
            return [n]
        a = r.choice([2, 3, 4, 5]); b = max(1, n // a)
        if r.random() < 0.3 and b >= 4:
            c = r.choice([2, 3]); return [a, c, max(1, b // c)]
        return [a, b]

    def op_dims(self, first=False):
        r = self.rng
        tsz_now = TYPES.get(self.ty, 0)
        if first or not self.dims or r.random() < 0.12:
            # a new type / rank: the data are dropped
            ty = r.choice(["I4", "I4", "R8", "C1", "X8", "U4", "I8", "R4"])
            tsz = TYPES[ty]
            lim = 12000 if self.big else 1600
            nbytes = r.choice([tsz, 40, 100, 400, 1000, r.randint(tsz, lim)] + ([4096, 4100, 8192, 9000] if self.big else []))
            n = max(1, nbytes // tsz)
            dims = self.shape(n)
            if self.dims and ty == self.ty and len(dims) == len(self.dims):
                pass                       # would preserve: fine too
            else:
                self.caps = []
            self.ty, self.dims = ty, dims
        else:
            # keep type and rank: shrink or grow around the capacities
            cap, c0 = self.cap(), (self.caps[0] if self.caps else 0)
            cur = self.total()
            cands = []
            if cap:
                for b in [cap, c0] + [sum(self.caps[:k]) for k in range(1, len(self.caps) + 1)]:
                    cands += [b - tsz_now, b, b + tsz_now]
                cands += [cap * 2, cap * 3 // 2, cap + 7 * tsz_now, max(tsz_now, c0 // 2), 2 * tsz_now, tsz_now, cur + tsz_now, cur - tsz_now]
            else:
                cands = [cur + tsz_now, cur * 2, max(tsz_now, cur // 2)]
            lim = 20000 if self.big else 4000
            cands = [c for c in cands if tsz_now <= c <= lim] or [max(tsz_now, min(lim, cur))]
            n = max(1, r.choice(cands) // tsz_now)
            rank = len(self.dims)
            if rank == 1:
                dims = [n]
            else:
                lead = self.dims[:-1]; q = prod(lead)
                dims = lead + [max(1, n // q)]
            self.dims = dims
        self.fresh = True
        self.lines.append("dims %s %d %s" % (self.ty, len(self.dims), " ".join(map(str, self.dims))))

    def boundaries(self):
        """element indices (0-based) of the first element of every later chunk"""
        tsz = TYPES[self.ty]; out = []; s = 0
        for c in self.caps[:-1]:
            s += c
            if s % tsz == 0 and s // tsz < prod(self.dims):
                out.append(s // tsz)
        return out

    def op_wall(self):
        n = prod(self.dims)
        self.lines.append("wall " + self.elems(n, TYPES[self.ty])); self.fresh = False; self.grow_caps("wall")

    def pick_block(self):
        r = self.rng; n = prod(self.dims); bnd = self.boundaries()
        if bnd and r.random() < 0.7:
            b = r.choice(bnd)
            lo = max(1, b + 1 - r.choice([0, 0, 1, 2, 5])); hi = min(n, b + r.choice([0, 1, 1, 2, 9]))
            if hi < lo:
                hi = lo
            return lo, hi
        lo = r.randint(1, n); hi = r.randint(lo, min(n, lo + r.choice([0, 1, 5, 50, n])))
        if r.random() < 0.2:
            lo, hi = 1, n
        if self.caps and self.total() > self.cap() and r.random() < 0.6:
            # the node has outgrown its chunks: aim inside / across the chunk that is about to be added
            tsz = TYPES[self.ty]; first_new = self.cap() // tsz + 1
            if first_new <= n:
                lo = r.choice([first_new, min(n, first_new + r.randint(0, n - first_new)), max(1, first_new - 3)])
                hi = r.randint(lo, n)
        return lo, hi

    def op_wblk(self):
        lo, hi = self.pick_block()
        self.lines.append("wblk %d %d %s" % (lo, hi, self.elems(hi - lo + 1, TYPES[self.ty]))); self.fresh = False; self.grow_caps("wblk")

    def pick_sel(self):
        r = self.rng; dims = self.dims
        if len(dims) == 1:
            n = dims[0]; bnd = self.boundaries()
            if bnd and r.random() < 0.75:
                b = r.choice(bnd) + 1                     # 1-based index of the first element of a later chunk
                k = r.random()
                if k < 0.25:
                    return [(b, b, 1)]
                if k < 0.5:                               # starts exactly on it
                    st = r.choice([1, 2, 3]); return [(b, min(n, b + st * r.randint(0, 6)), st)]
                if k < 0.75:                              # ends exactly on it
                    st = r.choice([1, 2, 3]); s = b - st * r.randint(0, min(6, (b - 1) // st)); return [(max(1, s), b, st)]
                st = r.choice([1, 2, 5]); s = max(1, b - st * r.randint(0, 4)); return [(s, min(n, b + st * r.randint(0, 4)), st)]
            if r.random() < 0.25:
                return [(1, n, 1)]
            s = r.randint(1, n); e = r.randint(s, n); return [(s, e, r.choice([1, 1, 2, 3, max(1, (e - s) // 3 + 1)]))]
        sel = []
        for d in dims:
            s = r.randint(1, d); e = r.randint(s, d); sel.append((s, e, r.choice([1, 1, 2])))
        if r.random() < 0.3:
            sel = [(1, d, 1) for d in dims]
        return sel

    def op_wsel(self):
        sel = self.pick_sel(); n = len(positions(self.dims, sel))
        self.lines.append("wsel %d %s %s" % (len(sel), " ".join("%d %d %d" % t for t in sel), self.elems(n, TYPES[self.ty])))
        self.fresh = False; self.grow_caps("wsel")

    def op_read(self):
        r = self.rng; k = r.random()
        if k < 0.35:
            self.lines.append("rall")
        elif k < 0.65:
            lo, hi = self.pick_block(); self.lines.append("rblk %d %d" % (lo, hi))
        else:
            sel = self.pick_sel(); self.lines.append("rsel %d %s" % (len(sel), " ".join("%d %d %d" % t for t in sel)))

    def op_invalid(self):
        r = self.rng; n = prod(self.dims); k = r.random()
        if k < 0.3:
            self.lines.append("wblk %d %d %s" % (n, n + 1, self.elems(2, TYPES[self.ty])))
        elif k < 0.5:
            self.lines.append("rblk 0 1")
        elif k < 0.7 and len(self.dims) == 1:
            self.lines.append("wsel 1 %d %d 1 %s" % (n, n + 1, self.elems(2, TYPES[self.ty])))
        elif k < 0.85 and len(self.dims) == 1:
            self.lines.append("rsel 1 2 1 1")
        else:
            self.lines.append("dims %s 1 0" % self.ty)

    def history(self, nops):
        r = self.rng
        if r.random() < 0.6:
            self.lines.append("pad %d" % r.choice([1, 17, 246, 1000, 2684, r.randint(1, 4096)]))
        self.op_dims(first=True)
        while len(self.lines) < nops:
            k = r.random()
            if self.fresh:
                # right after set_dimensions: mostly write (reads of a re-dimensioned node are unspecified)
                if k < 0.12:
                    self.op_read()
                elif k < 0.45:
                    self.op_wall()
                elif k < 0.75:
                    self.op_wblk()
                else:
                    self.op_wsel()
                continue
            if k < 0.2:
                self.op_dims()
            elif k < 0.3:
                self.op_wall()
            elif k < 0.45:
                self.op_wblk()
            elif k < 0.6:
                self.op_wsel()
            elif k < 0.9:
                self.op_read()
            elif k < 0.94:
                self.lines.append("reopen")
            elif k < 0.97:
                self.op_invalid()
            else:
                self.lines.append("pad %d" % r.choice([1, 100, r.randint(1, 3000)]))
        if self.dims and not self.fresh:
            self.lines += ["rall", "reopen", "rall", "rsel %d %s" % (len(self.dims), " ".join("1 %d 1" % d for d in self.dims))]
        return self.lines


# ----------------------------------------------------------------------------- the model-independent oracle
class Oracle:
    """a plain Python array: the elements written since the last successful set_dimensions, nothing else.
    check(script, impl blocks) -> None or a description of the first answer that is wrong."""
    def __init__(self, fault_mode=False):
        self.ty, self.dims, self.vals, self.written = "MT", [], [], False
        self.fault_mode, self.dead = fault_mode, False      # fault injection: after a REPORTED failure nothing is specified

    def n(self):
        return prod(self.dims) if self.dims else 0

    def feed(self, line, status, data):
        w = line.split(" "); op = w[0]; tsz = TYPES.get(self.ty, 0)
        if self.dead or op in ("arm", "disarm"):
            return None
        if self.fault_mode and status not in (0, None) and op not in ("rall", "rblk", "rsel"):
            self.dead = True; return None
        if op in ("new", "pad", "reopen", "close"):
            return None if status == 0 else "%s failed with %s" % (op, status)
        if status is None:
            return "the library stopped inside: " + short(line)
        if op == "dims":
            ty, rank = w[1], int(w[2]); dims = [int(x) for x in w[3:3 + rank]]
            valid = rank <= 12 and all(d > 0 for d in dims)
            if valid != (status == 0):
                return "set_dimensions: status %d for %s arguments" % (status, "valid" if valid else "invalid")
            if status == 0:
                self.ty, self.dims = ty, dims; self.vals = [None] * self.n(); self.written = False
            return None
        if tsz == 0 or not self.dims:
            return None
        if op == "wall":
            b = bytes.fromhex(w[1])
            if status != 0:
                return "write_all refused with %d" % status
            self.vals = [b[i * tsz:(i + 1) * tsz] for i in range(self.n())]; self.written = True
        elif op == "wblk":
            lo, hi = int(w[1]), int(w[2]); valid = 1 <= lo <= hi <= self.n()
            if valid != (status == 0):
                return "write_block %d..%d of %d elements: status %d" % (lo, hi, self.n(), status)
            if status == 0:
                b = bytes.fromhex(w[3])
                for k, i in enumerate(range(lo - 1, hi)):
                    self.vals[i] = b[k * tsz:(k + 1) * tsz]
                self.written = True
        elif op == "wsel":
            rank = int(w[1]); sel = [(int(w[2 + 3 * i]), int(w[3 + 3 * i]), int(w[4 + 3 * i])) for i in range(rank)]
            valid = sel_valid(self.dims, sel)
            if valid != (status == 0):
                return "write_data %s: status %d for a%s selection" % (sel, status, " valid" if valid else "n invalid")
            if status == 0:
                b = bytes.fromhex(w[2 + 3 * rank])
                for k, i in enumerate(positions(self.dims, sel)):
                    self.vals[i] = b[k * tsz:(k + 1) * tsz]
                self.written = True
        elif op in ("rall", "rblk", "rsel"):
            if op == "rall":
                idx = list(range(self.n())); valid = True
            elif op == "rblk":
                lo, hi = int(w[1]), int(w[2]); valid = 1 <= lo <= hi <= self.n(); idx = list(range(lo - 1, hi)) if valid else []
            else:
                rank = int(w[1]); sel = [(int(w[2 + 3 * i]), int(w[3 + 3 * i]), int(w[4 + 3 * i])) for i in range(rank)]
                valid = sel_valid(self.dims, sel); idx = positions(self.dims, sel) if valid else []
            if not valid:
                return None if status != 0 else "%s with an invalid range returned success" % op
            if not self.written:
                return None                        # re-dimensioned and not yet rewritten: unspecified
            if status != 0:
                return "%s failed with %d although the node was written after its last set_dimensions" % (short(line, 60), status)
            b = bytes.fromhex(data) if data and data != "-" else b""
            for k, i in enumerate(idx):
                v = self.vals[i]
                if v is not None and b[k * tsz:(k + 1) * tsz] != v:
                    return "%s: element %d is %s, last written %s" % (short(line, 60), i + 1, b[k * tsz:(k + 1) * tsz].hex(), v.hex())
        return None


def parse_blocks(out):
    """[(op line, status or None, data or None)] from the harness output"""
    blocks, cur = [], None
    for l in out:
        if l.startswith("OP "):
            cur = [l[3:], None, None]; blocks.append(cur)
        elif l.startswith("ST ") and cur:
            cur[1] = int(l[3:])
        elif l.startswith("DATA ") and cur:
            cur[2] = l[5:].strip()
    return blocks


def oracle_failure(out, fault_mode=False):
    o = Oracle(fault_mode)
    for i, (line, status, data) in enumerate(parse_blocks(out)):
        bad = o.feed(line, status, data)
        if bad:
            return {"op_index": i, "failure": bad}
    return None


# ----------------------------------------------------------------------------- running
def run_hist(exe, script, cfg, timeout=180):
    text = "\n".join(script) + "\n"
    out, outcome, stack = vlib.run_impl(exe, text, timeout=timeout, want_stack=True)
    model = vlib.run_model("c02c", "\n".join(out) + "\n", args=[cfg], timeout=900)
    return out, outcome, stack, model


def analyse(out, model):
    """pair the engine's verdict lines with the operations"""
    ops = [l[3:] for l in out if l.startswith("OP ")]
    res = {"diffs": [], "viols": [], "skips": 0, "crash_predicted": False, "summary": {}, "nops": len(ops)}
    k = -1; pend = []
    for m in model:
        if m.startswith("VIOL "):
            pend.append(m)
        elif m.startswith("SUMMARY"):
            res["summary"] = {a: int(b) for a, b in (x.split("=") for x in m.split()[1:])}
        else:
            k += 1
            for p in pend:
                res["viols"].append((k, p))
            pend = []
            if m.startswith("DIFF"):
                res["diffs"].append((k, m[:300], short(ops[k], 100) if k < len(ops) else "?"))
            elif m.startswith("SKIP"):
                res["skips"] += 1
            elif m.startswith("CRASH predicted"):
                res["crash_predicted"] = True
    return res


def i4(vals):
    return b"".join(struct.pack("<i", v) for v in vals).hex()


def zero_witness(path, pad):
    return ["new " + path, "pad %d" % pad, "dims C1 1 5000", "wsel 1 7 7 1 41", "rsel 1 7 7 1", "rsel 1 4500 4600 1"]


def find_zero_pad(exe, work):
    """pad size that puts the data area of N's first chunk on a block boundary (the chunk starts at offset 4080 of its
    block); found by trial runs, reading the chunk's address off the raw dump"""
    p = os.path.join(work, "zp.adf")
    k = 1
    for _ in range(6):
        out, outcome = vlib.run_impl(exe, "\n".join(["new " + p, "pad %d" % k, "dims C1 1 5000", "wblk 1 1 41"]) + "\n")
        raws = [l for l in out if l.startswith("RAW ")]
        if os.path.exists(p):
            os.unlink(p)
        if len(raws) < 2:
            return None
        addr = int(raws[-1].split(" ")[1])
        if addr % 4096 == 4080:
            return k
        k = k + (4080 - addr) % 4096
        if k > 4000:
            k -= 2048
    return None


def corpus_scripts(work):
    """corpus/C02c/*.txt: (file, key or None, switch index or None, lines); @PATH@ is replaced by a scratch file"""
    d = os.path.join(vlib.ROOT, "corpus", "C02c")
    out = []
    if os.path.isdir(d):
        for f in sorted(os.listdir(d)):
            if not f.endswith(".txt"):
                continue
            key, sw, lines = None, None, []
            for l in open(os.path.join(d, f)):
                l = l.rstrip("\n")
                if l.startswith("# key:"):
                    key = l.split(":", 1)[1].strip()
                elif l.startswith("# switch:"):
                    sw = int(l.split(":", 1)[1])
                elif l.strip() and not l.startswith("#"):
                    lines.append(l.replace("@PATH@", os.path.join(work, "corpus_" + f[:-4] + ".adf")))
            out.append((f, key, sw, lines))
    return out


def detect(exe, work):
    """run the five witness histories of corpus/C02c (one per repaired defect) and, for the zero fill, one whose pad size
    is searched at run time; a witness that fails under the model-independent oracle (or a sanitizer) means that the
    library is in the state BEFORE that commit: the switch goes to 0 (so that the model keeps describing the library)
    and the defect is reported under its original key.  Returns (cfg string, {key: replay}, details)."""
    bits = ["1"] * 5
    present, details = {}, {}
    wits = [(f, key, sw, lines) for f, key, sw, lines in corpus_scripts(work) if sw is not None]
    pad = find_zero_pad(exe, work)
    if pad:
        wits.append(("zero-fill witness with searched pad %d" % pad, KEY_ZERO, 3, zero_witness(os.path.join(work, "wit_zero.adf"), pad)))
    for f, key, sw, script in wits:
        out, outcome, stack = vlib.run_impl(exe, "\n".join(script) + "\n", want_stack=True)
        bad = oracle_failure(out) if outcome == "ok" else {"outcome": outcome, "stack": stack}
        details[f] = {"defect_present": bad is not None, "failure": bad}
        if bad is not None:
            bits[sw] = "0"
            present.setdefault(key, {"script": [short(x, 300) for x in script], "script_full": script, "failure": bad, "what": WHAT.get(key, ""),
                                     "witness": f, "oracle": "plain Python array of the elements written since the last set_dimensions; sanitizer"})
        p = script[0].split(" ")[1]
        if os.path.exists(p):
            os.unlink(p)
    return "".join(bits), present, details


def classify(viols, upto):
    """finding key of an oracle failure: the first unsafe step (a hypothesis of the theorems breached) before it"""
    for k, v in viols:
        if k <= upto:
            if v.startswith("VIOL unsafe-wall"):
                return KEY_WALL
            if v.startswith("VIOL unsafe-wblk"):
                return KEY_WBLK
            if v.startswith("VIOL zerosrc"):
                return KEY_ZERO
    return None


def crash_key(outcome, stack):
    """a sanitizer report: the zero-fill over-read is recognised by its frames (the model cannot be given the allocator's
    answer for a call the library did not survive)"""
    if "global-buffer-overflow" in outcome and "ADFI_write_data_chunk" in stack:
        return KEY_ZERO
    if "heap-buffer-overflow" in outcome and "ADF_Read_Block_Data" in stack:
        return KEY_RBLK
    return "adf-chunks-crash:" + outcome.split("@")[-1]


def pack(script):
    return {"script": [short(x, 300) for x in script], "script_full": script if sum(map(len, script)) < 400000 else None,
            "script_sha1": hashlib.sha1("\n".join(script).encode()).hexdigest()}


# ----------------------------------------------------------------------------- fault injection around chunk growth
def fault_scenarios(path):
    """writes that add a chunk / a table, each inside an arm .. disarm window; sizes above one 4096-byte block and sibling
    data of several sizes so that chunk headers, table and data fall on both sides of block boundaries (the block buffer
    then has to be flushed and reloaded in the middle of ADFI_write_data_chunk_table, where a failure must not be lost)"""
    out = {}
    for pad in (0, 700, 2900, 4000):
        new = ["new " + path] + (["pad %d" % pad] if pad else [])
        n1, n2, n3 = 1000, 2100, 3300
        tail = ["disarm", "rall", "rsel 1 1 %d 7" % n2, "reopen", "rall"]
        out["write_all adds the second chunk and the table (pad %d)" % pad] = \
            new + ["dims I4 1 %d" % n1, "wall " + i4(range(100, 100 + n1)), "dims I4 1 %d" % n2, "arm", "wall " + i4(range(5000, 5000 + n2))] + tail
        out["write_data adds the second chunk and the table (pad %d)" % pad] = \
            new + ["dims I4 1 %d" % n1, "wall " + i4(range(100, 100 + n1)), "dims I4 1 %d" % n2, "arm", "wsel 1 1 %d 1 " % n2 + i4(range(7000, 7000 + n2))] + tail
        out["write_block adds a third chunk (pad %d)" % pad] = \
            new + ["dims I4 1 %d" % n1, "wall " + i4(range(100, 100 + n1)), "dims I4 1 %d" % n2, "wall " + i4(range(5000, 5000 + n2)),
                   "dims I4 1 %d" % n3, "arm", "wblk %d %d " % (n2 - 50, n3) + i4(range(9000, 9000 + n3 - n2 + 51)), "disarm",
                   "rblk %d %d" % (n2 - 50, n3), "rsel 1 %d %d 1" % (n2 - 50, n3), "reopen", "rblk %d %d" % (n2 - 50, n3)]
        out["write_data adds a third chunk (pad %d)" % pad] = \
            new + ["dims I4 1 %d" % n1, "wall " + i4(range(100, 100 + n1)), "dims I4 1 %d" % n2, "wall " + i4(range(5000, 5000 + n2)),
                   "dims I4 1 %d" % n3, "arm", "wsel 1 %d %d 1 " % (n2 - 50, n3) + i4(range(9000, 9000 + n3 - n2 + 51)), "disarm",
                   "rsel 1 %d %d 1" % (n2 - 50, n3), "rblk %d %d" % (n2 - 50, n3), "reopen", "rsel 1 %d %d 1" % (n2 - 50, n3)]
    return out


def fault_leg(ck, exe, work, thorough):
    """EIO injected into each system call of a write that grows the node (harness/interpose.c): either the write reports
    the failure, or everything it wrote reads back -- judged by the plain-array oracle.  (C14 owns the general statement;
    this leg keeps the three writers' chunk-growth paths under it: cdc1612 + 40a004d.)"""
    from checks import C15 as ip
    ipso = ip.build_interposer()
    fdir = os.path.join(work, "fault"); os.makedirs(fdir, exist_ok=True)
    stat = {"scenarios": 0, "runs": 0, "failure_reported": 0, "success_and_data_correct": 0, "calls_per_window": {}}
    bad = None
    plain_bad = None
    for name, script in fault_scenarios(os.path.join(fdir, "f.adf")).items():
        trace = os.path.join(fdir, "trace.txt")
        if os.path.exists(trace):
            os.unlink(trace)
        out, outcome, err = ip.run_ip(ipso, [exe], fdir, trace=trace, stdin="\n".join(script) + "\n")
        f0 = oracle_failure(out) if outcome == "ok" else {"outcome": outcome, "stderr": err[-300:]}
        if f0:
            # not a fault-injection matter: the scenario itself gives a wrong answer (reported by the caller as a plain history)
            stat.setdefault("scenarios_failing_without_fault", []).append(name)
            if plain_bad is None:
                plain_bad = (name, script, f0, outcome)
            continue
        # fault positions = the write / lseek / sync calls of the window (a failing READ that loads the write-back block is
        # swallowed by ADFI_write_file: C14_read_error_swallowed_refuted, outside the property "write, seek or close")
        ks = []
        if os.path.exists(trace):
            for l in open(trace):
                t = l.split(" ")
                if len(t) > 2 and t[0].isdigit() and t[2] in ("write", "pwrite", "lseek", "fsync", "fdatasync", "ftruncate"):
                    ks.append(int(t[0]))
        stat["scenarios"] += 1; stat["calls_per_window"][name] = len(ks)
        for k in ks:
            for kind in (("eio", "enospc") if thorough else ("eio",)):
                out, outcome, err = ip.run_ip(ipso, [exe], fdir, fault="%d:%s" % (k, kind), stdin="\n".join(script) + "\n")
                stat["runs"] += 1
                sts = [b[1] for b in parse_blocks(out)]
                f = oracle_failure(out, fault_mode=True) if outcome == "ok" else {"outcome": outcome, "stderr": err[-300:]}
                if any(x not in (0, None) for x in sts):
                    stat["failure_reported"] += 1
                elif not f:
                    stat["success_and_data_correct"] += 1
                if f and bad is None:
                    bad = dict(pack(script), mode="fault", scenario=name, fault="%d:%s" % (k, kind), failure=f, what=WHAT[KEY_STATUS],
                               oracle="plain Python array; a write that reported success must read back")
    return stat, bad, plain_bad


# ----------------------------------------------------------------------------- the check
def run_extra(ck, pid="C02c"):
    thorough = ck.tier == "thorough"
    work = os.path.join(ck.work, "c02c") if ck.pid != "C02c" else ck.work
    os.makedirs(work, exist_ok=True)
    vlib.build_impl()
    exe = vlib.build_harness("c02c_hist", ["c02c_hist.c"])
    prev = {k: ck.extra.get(k) for k in ("print_assumptions", "theorems", "coq_wall_s")}
    res = vlib.coq_check_properties(pid)
    broken = ck.proof_result(res, CHECKER if ck.pid == "C02c" else ck.cov.get("checker_cmd", "") + "; " + CHECKER)
    if prev["theorems"] and ck.pid != "C02c":
        pa, pb = prev["print_assumptions"] or {}, res["assumptions"]
        ck.extra["print_assumptions"] = {"closed": pa.get("closed", 0) + pb["closed"], "with_axioms": pa.get("with_axioms", 0) + pb["with_axioms"],
                                         "axioms": sorted(set(pa.get("axioms", [])) | set(pb["axioms"]))}
        ck.extra["theorems"] = list(prev["theorems"]) + res["theorems"]
        ck.extra["coq_wall_s"] = round((prev["coq_wall_s"] or 0) + res.get("wall_s", 0), 1)
    forb = vlib.coq_forbidden_scan(pid)
    if forb:
        ck.violation({"broken_obligation": "forbidden tokens", "hits": forb}, nofail=True)
    vlib.build_modelrun("c02c")
    ex = ck.extra.setdefault("c02c", {})
    ck.cov["trusted_base"] = list(ck.cov.get("trusted_base") or []) + [
        "C02c: Coq 8.16.1 kernel + vm_compute; extraction (ExtrOcamlBasic only); ocaml/eng_c02c.ml + zutil.ml (parser, comparators, derivation of the allocator's answers from the decoded raw file)",
        "C02c: harness/c02c_hist.c (script driver; pread dump of header, table and chunks -- its own decoding only locates what is dumped)",
        "C02c: AdfChunks.v as a transcription of the data side of ADF_interface.c / ADF_internals.c (validated on every run: status, answers, and the raw file after every mutator); AdfCodec.v decoders (C13); Hyperslab.v element walk (C05)",
        "C02c: block buffers and priority stack are abstracted to a fault-free byte store (justified by the C02b layer); allocator = oracle"]
    ck.assumptions = list(ck.assumptions or []) + [
        "C02c theorems assume alloc_ok (allocator answers normalised, below 2^31 blocks, disjoint from the node's live chunks and table and from each other): evaluated on every real trace",
        "C02c: dims_ok (rank <= 12, extents >= 1, fewer than 2^36 elements) so that Z arithmetic is the C arithmetic; memory side of strided calls contiguous (C05 covers the pairing); native number format (C19)",
        "C02c: on the code as it is, read-after-write additionally assumes wall_safe / wblock_safe / zero_ok (three defects found; each has a kernel-checked *_refuted witness that is replayed on the library); the three hypotheses are identically true for the repaired variant"]

    findings, diffs = {}, []
    cfg, present, details = detect(exe, work)
    ex["variant_detected"] = {"cfg(d6f9e64,b21b08d,3f8f7e0,5177c7b,5c54229; 1 = commit present)": cfg, "witnesses": details}
    for key, rep in present.items():
        findings[key] = dict(rep, mode="witness")

    # ---- witnesses and corpus through the model of the detected variant (the model must predict them byte for byte)
    fixed = [("corpus:" + f, lines) for f, key, sw, lines in corpus_scripts(work)]
    stats = {"histories": 0, "ops": 0, "by_max_chunks": {"0": 0, "1": 0, "2": 0, ">=3": 0}, "counters": {}, "skipped_ops": 0,
             "histories_with_unsafe_steps": 0, "crashes_predicted_by_model": 0, "hypothesis_monitor_hits": {}}

    def account(a, nontriv_key, sample=None):
        stats["histories"] += 1; stats["ops"] += a["nops"]; stats["skipped_ops"] += a["skips"]
        mc = a["summary"].get("max_chunks", 0)
        stats["by_max_chunks"]["0" if mc == 0 else "1" if mc == 1 else "2" if mc == 2 else ">=3"] += 1
        for k, v in a["summary"].items():
            stats["counters"][k] = max(stats["counters"].get(k, 0), v) if k == "max_chunks" else stats["counters"].get(k, 0) + v
        if a["viols"]:
            stats["histories_with_unsafe_steps"] += 1
        for k, v in a["viols"]:
            kind = v.split(" ")[1]
            stats["hypothesis_monitor_hits"][kind] = stats["hypothesis_monitor_hits"].get(kind, 0) + 1
        ck.cov["traces_validated_against_impl"] += 1
        ck.case(nontriv_key, sample=sample)

    def judge(name, script, out, outcome, stack, model):
        a = analyse(out, model)
        nontriv = a["summary"].get("max_chunks", 0) >= 2 and a["summary"].get("read_bytes_compared", 0) > 0
        account(a, hashlib.sha1("\n".join(script).encode()).hexdigest() if nontriv else None,
                sample={"history": name, "ops": [short(x, 70) for x in script[:7]] + ["..."], "max_chunks": a["summary"].get("max_chunks", 0)})
        bad = oracle_failure(out)
        crashed = outcome != "ok"
        if crashed and a["crash_predicted"]:
            stats["crashes_predicted_by_model"] += 1
        if bad or crashed:
            upto = bad["op_index"] if bad else a["nops"]
            key = classify(a["viols"], upto) or (crash_key(outcome, stack) if crashed else "adf-chunks-wrong-answer")
            findings.setdefault(key, dict(pack(script[:upto + 1] if bad else script), mode="history", name=name, failure=bad or {"outcome": outcome, "stack": stack},
                                          what=WHAT.get(key, ""), hypotheses_breached_before=[v for k, v in a["viols"] if k <= upto][:4],
                                          oracle="plain Python array of the elements written since the last set_dimensions; sanitizer"))
        real_diffs = [d for d in a["diffs"] if not (crashed and "implementation stopped inside" in d[1])]
        if real_diffs or not model:
            diffs.append((name, script, [d[1] for d in real_diffs[:3]] or ["no model output"]))
        return a

    from concurrent.futures import ThreadPoolExecutor
    pool = ThreadPoolExecutor(max_workers=4)
    jobs = []
    for name, script in fixed:
        jobs.append((name, script, pool.submit(run_hist, exe, script, cfg)))
    n_hist = 1500 if thorough else 150
    for i in range(n_hist):
        g = Gen(ck.rng, os.path.join(work, "h%d.adf" % i), big=(i % 4 == 3), multi_d=(i % 3 == 1))
        script = g.history(ck.rng.choice([28, 40, 60]) if not thorough else ck.rng.choice([30, 50, 80]))
        jobs.append(("gen%d" % i, script, pool.submit(run_hist, exe, script, cfg)))
    for name, script, fut in jobs:
        out, outcome, stack, model = fut.result()
        judge(name, script, out, outcome, stack, model)
        p = script[0].split(" ")[1]
        if os.path.exists(p):
            os.unlink(p)
    pool.shutdown()
    fstat, fbad, fplain = fault_leg(ck, exe, work, thorough)
    ex["fault_injection_around_growth"] = fstat
    if fbad:
        findings.setdefault(KEY_STATUS, fbad)
    if fplain:
        name, script, f0, oc = fplain
        script = [l for l in script if l not in ("arm", "disarm")]
        out, outcome, stack, model = run_hist(exe, script, cfg)
        judge("fault-scenario:" + name, script, out, outcome, stack, model)
    ex["histories"] = stats
    ck.extra.setdefault("input_distribution_c02c", stats)

    # ---- verdicts
    for key in list(findings):
        rep = findings[key]
        if rep.get("mode") == "history" and rep.get("script_full") and not ck.known_match(key):
            # shrink a generated failing history (same key must persist)
            full = rep["script_full"]

            def still(lines, key=key):
                if not lines or not lines[0].startswith("new "):
                    return False
                o, oc, stk, m = run_hist(exe, lines, cfg)
                a = analyse(o, m); b = oracle_failure(o)
                if not b and oc == "ok":
                    return False
                k2 = classify(a["viols"], b["op_index"] if b else a["nops"]) or (crash_key(oc, stk) if oc != "ok" else "adf-chunks-wrong-answer")
                return k2.split(":")[0] == key.split(":")[0]
            small = [full[0]] + vlib.ddmin(full[1:], lambda ls: still([full[0]] + ls), max_tests=60)
            o, oc, stk, m = run_hist(exe, small, cfg)
            rep = dict(rep, **pack(small)); rep["failure"] = oracle_failure(o) or {"outcome": oc}
        ck.finding(key, rep)
    real = [k for k in findings if not ck.known_match(k)]
    if diffs and not real:
        name, script, detail = diffs[0]
        ck.violation({"broken_correspondence": "extracted AdfChunks (variant %s) vs the ADF data-chunk code" % cfg, "history": name,
                      "first_divergences": detail, "script": [short(x, 300) for x in script],
                      "note": "the model no longer describes the code; the Python array oracle found no wrong answer in any history"}, nofail=True)
    if broken and not ck.violations:
        ck.violation({"broken_obligations": broken, "note": "a C02c theorem no longer checks; no history explored diverges"}, nofail=True)
    ex["model_vs_implementation_divergences"] = len(diffs)
    ex["first_divergences"] = [(n, d) for n, s, d in diffs[:3]]
    ex["finding_keys_seen"] = sorted(findings)


def run(ck):
    ck.cov["rule"] = ("seeded histories on ONE ADF node: set_dimensions (new type / rank = data dropped; same type and rank = sizes just below / at / "
                      "above the capacity of the chunks, growth by one element and by factors, shrink below the first chunk), write_all, "
                      "write_block (straddling chunks, inside the chunk about to be added), write_data (strided selections starting / ending "
                      "exactly on the first element of a later chunk), the three readers, close + reopen, sibling data to move chunk starts "
                      "inside their block, a few invalid calls. non-trivial = the node reached two or more chunks and answers were compared; "
                      "distinct by SHA1")
    run_extra(ck, "C02c")


def replay(ck, path):
    r = json.load(open(path))
    vlib.build_impl(); exe = vlib.build_harness("c02c_hist", ["c02c_hist.c"]); vlib.build_modelrun("c02c")
    script = r.get("script_full") or r.get("script")
    if not script:
        print("replay names a broken obligation / correspondence, no input to run"); return 1
    script = [script[0].split(" ")[0] + " " + os.path.join(ck.work, "replay.adf")] + script[1:]
    cfg, present, details = detect(exe, ck.work)
    out, outcome, stack, model = run_hist(exe, script, cfg)
    a = analyse(out, model); bad = oracle_failure(out)
    print("replay: outcome %s; oracle: %s; model(variant %s)/implementation divergences: %d; hypotheses breached: %s" % (
        outcome, json.dumps(bad) if bad else "holds", cfg, len(a["diffs"]), sorted({v.split(" ")[1] for k, v in a["viols"]})))
    return 1 if (bad or outcome != "ok") else 0
