"""C06 -- the stored type is the requested type and conversions equal C conversion.

Proof side : coq/Properties_C06.v  (Convert.v: C conversion semantics on bit patterns built on Flocq + transcription
             of cgi_array_general_write/_read, cg_array_read_as and the integer helpers; ConvertProofs.v).
Tie (T)    : translators/c06_casts.py regenerates coq/Gen_C06.v from cgi_convert_data (clang AST, configuration header
             of the build under test); the kernel re-checks `forallb (row_is_c_cast cast_table) all_pairs = true`.
Tie (C)    : three levels, each compared three ways (implementation / extracted model / oracle):
   conv  : cgi_convert_data itself, every ordered pair, boundary-rich values          (harness/c06_conv_h.c)
   api   : cg_coord/field/array _general_write/_read, cg_*_write/_read, cg_array_read_as, cg_*_info on ADF and HDF5,
           new/existing arrays, full/partial file and memory ranges, reopen             (harness/c06_api_h.c)
   elem  : element connectivity / offsets / parent data with I4/I8 memory and file types (harness/c06_elem_h.c;
           implementation vs oracle only)
Oracle (independent of the model; the property-level verdict): plain C casts compiled in the harnesses
(c06_common.c) driving an ideal array store.  Only values representable in the destination type are given to the
oracle (the property's quantifier; outside it C is undefined / implementation-defined and ADF wraps where HDF5
saturates).  Bit patterns are compared exactly, except that two NaNs with different payloads count as equal.
"""
import hashlib, json, math, os, struct, sys
import vlib

TYPES = ["C1", "I4", "I8", "R4", "R8", "X4", "X8"]
SIZE = {"C1": 1, "I4": 4, "I8": 8, "R4": 4, "R8": 8, "X4": 8, "X8": 16}
CPLX = {"X4", "X8"}
INTB = {"C1": 8, "I4": 32, "I8": 64}
CHECKER = "make -C coq ConvertProofs.vo Gen_C06.vo (coqc 8.16.1 kernel) ; coqc Properties_C06.v (Print Assumptions)"


def supported(f, t):
    return (f in CPLX) == (t in CPLX)


def pregen():
    sys.path.insert(0, os.path.join(vlib.ROOT, "translators"))
    import c06_casts
    return c06_casts.main(vlib.REPO, os.path.join(vlib.IMPL, "src"), os.path.join(vlib.COQ, "Gen_C06.v"))


# ------------------------------------------------------------------ values (bit patterns as Python ints)
def f32(x):
    return struct.unpack("<I", struct.pack("<f", x))[0]


def f64(x):
    return struct.unpack("<Q", struct.pack("<d", x))[0]


def as_f32(u):
    return struct.unpack("<f", struct.pack("<I", u))[0]


def as_f64(u):
    return struct.unpack("<d", struct.pack("<Q", u))[0]


def sgn(b, u):
    return u if u < (1 << (b - 1)) else u - (1 << b)


def int_specials(b):
    v = {0, 1, -1, 2, -2, 100, -100}
    for k in range(1, b):
        for d in (-1, 0, 1):
            v.add((1 << k) + d)
            v.add(-(1 << k) + d)
    for k in (24, 25, 53, 54, 31, 32, 62, 63):          # round-to-even halfway cases of float / double
        if k < b - 1:
            for d in (1, 2, 3, 5, 6, 7):
                v.add((1 << k) + d)
                v.add(-(1 << k) - d)
    for d in range(0, 130, 3):
        v.add((1 << (b - 1)) - 1 - d)
        v.add(-(1 << (b - 1)) + d)
    if b == 64:
        for d in (255, 256, 257, 511, 512, 513, 1023, 1024, 1025):
            v.add((1 << 63) - d)
    return sorted(x for x in v if -(1 << (b - 1)) <= x < (1 << (b - 1)))


def r4_specials():
    u = {0, 0x80000000, 1, 0x80000001, 0x007fffff, 0x00800000, 0x7f7fffff, 0xff7fffff, 0x7f800000, 0xff800000,
         0x7fc00000, 0xffc00000, 0x7f800001, 0x7fa55aa5, 0xffbfffff, 0x7fffffff, 0x3f800000, 0xbf800000}
    for x in (0.5, -0.5, 0.99999994, 1.5, 2.5, -2.5, 3.5, 126.99999, 127.0, 127.5, 127.99999, 128.0, -128.0, -128.5, -128.99999,
              -129.0, 255.0, 16777216.0, 16777215.0, 2147483520.0, 2147483648.0, -2147483648.0, -2147483904.0,
              9223371487098961920.0, 9223372036854775808.0, -9223372036854775808.0, 1e10, -1e10, 1e-10, 3.4e38, 65535.7):
        u.add(f32(x))
    return sorted(u)


def r8_specials():
    u = {0, 1 << 63, 1, 0x000fffffffffffff, 0x0010000000000000, 0x7fefffffffffffff, 0xffefffffffffffff,
         0x7ff0000000000000, 0xfff0000000000000, 0x7ff8000000000000, 0xfff8000000000000, 0x7ff0000000000001,
         0x7ff4a5a5a5a5a5a5, 0xfff7ffffffffffff, 0x7fffffffffffffff, 0x7ff0000020000000, 0x7ff000001fffffff}
    xs = [0.5, -0.5, 1.0, -1.0, 1.5, 2.5, -2.5, 126.999, 127.0, 127.5, 127.999999, 128.0, -128.0, -128.5, -128.999999, -129.0,
          2147483647.0, 2147483647.5, 2147483647.999, 2147483648.0, -2147483648.0, -2147483648.5, -2147483648.999, -2147483649.0,
          9007199254740992.0, 9007199254740993.0, 9223372036854774784.0, 9223372036854775808.0, -9223372036854775808.0,
          -9223372036854777856.0, 1e300, -1e300, 1e-300, 3.4028234663852886e38, 3.4028235677973362e38, 3.4028235677973366e38,
          -3.4028234663852886e38, 3.5e38, 1e39, 16777217.0, 16777219.0, 4294967295.0, 4294967296.0, 65535.7]
    for k in (24, 23, 25):                               # halfway between adjacent binary32 numbers
        for m in (1, 3, 5, 7):
            xs += [1.0 + m * 2.0 ** -k, -(1.0 + m * 2.0 ** -k), 1.0 + m * 2.0 ** -k + 2.0 ** -50, 1.0 + m * 2.0 ** -k - 2.0 ** -50]
    for e in (-149, -150, -151, -148, -127, -126, -125):  # binary32 denormal range
        for m in (1.0, 1.5, 1.25, 1.75, 1.0000001, 0.9999999, 1.9999999):
            xs += [m * 2.0 ** e, -m * 2.0 ** e]
    xs.append(2.0 ** -126 * (1 - 2.0 ** -24))
    xs.append(2.0 ** -126 * (1 - 2.0 ** -25))
    for x in xs:
        u.add(f64(x))
    return sorted(u)


def gen_values(rng, t, n):
    """boundary-rich bit patterns of type t"""
    if t == "C1":
        return list(range(256))
    if t in INTB:
        b = INTB[t]
        vs = int_specials(b)
        while len(vs) < n:
            k = rng.choice([8, 16, 24, 25, 31, 32, 53, 54, 62, 63, 64])
            x = rng.getrandbits(min(k, b)) - (1 << (min(k, b) - 1))
            if rng.random() < 0.3:
                x = (x >> rng.randint(0, 40)) << rng.randint(0, 20)
            if -(1 << (b - 1)) <= x < (1 << (b - 1)):
                vs.append(x)
        return [v & ((1 << b) - 1) for v in vs]
    if t == "R4":
        vs = r4_specials()
        while len(vs) < n:
            r = rng.random()
            if r < 0.4:
                vs.append(rng.getrandbits(32))
            elif r < 0.7:
                vs.append(f32(float(rng.randint(-(1 << 31), 1 << 31)) * rng.choice([1.0, 0.5, 0.25, 1.0 / 3])))
            else:
                vs.append(f32(rng.uniform(-300, 300)))
        return vs
    if t == "R8":
        vs = r8_specials()
        while len(vs) < n:
            r = rng.random()
            if r < 0.3:
                vs.append(rng.getrandbits(64))
            elif r < 0.5:
                vs.append(f64(as_f32(rng.getrandbits(32) & 0x7f7fffff | (rng.getrandbits(1) << 31)) * (1 + rng.choice([0, 2.0 ** -24, 2.0 ** -25, -2.0 ** -25, 3 * 2.0 ** -25]))))
            elif r < 0.8:
                vs.append(f64(float(rng.randint(-(1 << 63), 1 << 63)) * rng.choice([1.0, 0.5, 2.0 ** -32, 1.0 / 3])))
            else:
                vs.append(f64(rng.uniform(-300, 300)))
        return vs
    comp = "R4" if t == "X4" else "R8"
    w = 32 if t == "X4" else 64
    a, b = gen_values(rng, comp, n), gen_values(rng, comp, n)
    rng.shuffle(b)
    return [x | (y << w) for x, y in zip(a, b)]


FLT_MAX = 3.4028234663852886e38


def representable(f, t, u):
    """the property's guard, decided in Python independently of the model"""
    if f == t:
        return True
    if f in CPLX or t in CPLX:
        if not supported(f, t):
            return False
        w = 32 if f == "X4" else 64
        cf, ct = ("R4", "R8") if f == "X4" else ("R8", "R4")
        return representable(cf, ct, u & ((1 << w) - 1)) and representable(cf, ct, u >> w)
    if f in INTB:
        if t in INTB:
            return -(1 << (INTB[t] - 1)) <= sgn(INTB[f], u) < (1 << (INTB[t] - 1))
        return True
    x = as_f32(u) if f == "R4" else as_f64(u)
    if t in INTB:
        return math.isfinite(x) and -(1 << (INTB[t] - 1)) <= math.trunc(x) < (1 << (INTB[t] - 1))
    if f == "R8" and t == "R4":
        return math.isnan(x) or math.isinf(x) or abs(x) <= FLT_MAX
    return True


def is_nan_elem(t, u):
    if t == "R4":
        return (u >> 23) & 0xff == 0xff and u & 0x7fffff != 0
    if t == "R8":
        return (u >> 52) & 0x7ff == 0x7ff and u & ((1 << 52) - 1) != 0
    return False


def blob(t, vals):
    return "".join(v.to_bytes(SIZE[t], "little").hex() for v in vals) or "-"


def unblob(t, h):
    if h == "-":
        return []
    b = bytes.fromhex(h)
    s = SIZE[t]
    return [int.from_bytes(b[i:i + s], "little") for i in range(0, len(b), s)]


def same_elems(t, a, b):
    """bit-identical, or both NaN (payload propagation through a cast is hardware-defined)"""
    if a == b:
        return True
    if t in ("R4", "R8"):
        return is_nan_elem(t, a) and is_nan_elem(t, b)
    if t in CPLX:
        c, w = ("R4", 32) if t == "X4" else ("R8", 64)
        m = (1 << w) - 1
        return same_elems(c, a & m, b & m) and same_elems(c, a >> w, b >> w)
    return False


def same_blob(t, ha, hb):
    if ha == hb:
        return True
    try:
        a, b = unblob(t, ha), unblob(t, hb)
    except ValueError:
        return False
    return len(a) == len(b) and all(same_elems(t, x, y) for x, y in zip(a, b))


def same_line(types, la, lb):
    """canonical lines equal up to NaN payloads; `types` = element type(s) of the hex fields of a 'd ok' / 'c' line"""
    if la == lb:
        return True
    if la is None or lb is None:
        return False
    ta, tb = la.split(" "), lb.split(" ")
    if len(ta) != len(tb):
        return False
    k = 0
    for x, y in zip(ta, tb):
        if x == y:
            if len(x) > 3 and all(c in "0123456789abcdef" for c in x):
                k += 1
            continue
        if not types or k >= len(types) or not same_blob(types[k], x, y):
            return False
        k += 1
    return True


# ------------------------------------------------------------------ conversion level
def conv_level(ck, conv_h, nvals, state):
    rng = ck.rng
    pairs = [(f, t) for f in TYPES for t in TYPES]
    lines_in, meta = [], []
    for f, t in pairs:
        vals = gen_values(rng, f, nvals)
        if not supported(f, t):
            lines_in.append("conv %s %s %s" % (f, t, blob(f, vals[:4])))
            meta.append((f, t, vals[:4], "unsupported"))
            continue
        good = [v for v in vals if representable(f, t, v)]
        lines_in.append("conv %s %s %s" % (f, t, blob(f, good)))
        meta.append((f, t, good, "representable"))
        # outside the property's quantifier but well defined on this platform: integer narrowing wraps, double -> float
        # overflows to infinity.  Model vs library only (correspondence), never the oracle.
        if f in INTB and t in INTB or (f, t) in (("R8", "R4"), ("X8", "X4")):
            bad = [v for v in vals if not representable(f, t, v)]
            if bad:
                lines_in.append("conv %s %s %s" % (f, t, blob(f, bad)))
                meta.append((f, t, bad, "wrap"))
    script = "\n".join(lines_in) + "\n"
    il, outcome = vlib.run_impl(conv_h, script, args=["lib"])
    ol, o2 = vlib.run_impl(conv_h, script, args=["oracle"])
    ml = vlib.run_model("c06", script, args=["conv"])
    if o2 != "ok":
        raise vlib.Infra("oracle harness failed: " + o2)
    state["dist"]["conv_pairs"] = len(pairs)
    for i, (f, t, vals, kind) in enumerate(meta):
        li = il[i] if i < len(il) else None
        lo, lm = ol[i], ml[i] if i < len(ml) else None
        state["dist"]["conv_values"] = state["dist"].get("conv_values", 0) + len(vals)
        ck.cov["traces_validated_against_impl"] += 1
        for v in vals[:: max(1, len(vals) // 40)]:
            ck.case("conv:%s:%s:%x" % (f, t, v) if f != t and kind != "unsupported" else None)
        ck.cov["evaluations"] += max(0, len(vals) - len(vals[:: max(1, len(vals) // 40)]))
        for v in vals:
            if f != t and kind != "unsupported":
                ck.distinct.add("conv:%s:%s:%x" % (f, t, v))
        if i < 3:
            ck.case(None, sample={"level": "conv", "from": f, "to": t, "kind": kind, "values_hex": ["%x" % v for v in vals[:6]],
                                  "library": (li or "")[:60]})
        if kind != "wrap" and (outcome != "ok" and li is None or not same_line([t], li, lo)):
            # the property's oracle fails on the implementation: find one value
            w = shrink_conv(conv_h, f, t, vals)
            ck.violation(dict(w, level="conv", oracle="plain C cast (harness/c06_common.c)",
                              replay_hint="echo 'conv %s %s <hex>' | .build/h/c06_conv_h lib   (compare with: ... oracle)" % (f, t)))
            state["failed"] = True
            return
        if li is None or not same_line([t], li, lm):
            state["corr_broken"].append({"level": "conv", "from": f, "to": t, "kind": kind, "impl": (li or "")[:200], "model": (lm or "")[:200],
                                         "outcome": outcome})
    if outcome != "ok" and not state["failed"]:
        state["corr_broken"].append({"level": "conv", "outcome": outcome})


def conv_one(conv_h, f, t, vals):
    s = "conv %s %s %s\n" % (f, t, blob(f, vals))
    il, o = vlib.run_impl(conv_h, s, args=["lib"])
    ol, _ = vlib.run_impl(conv_h, s, args=["oracle"])
    li = il[0] if il else None
    ok = o == "ok" and same_line([t], li, ol[0])
    return ok, {"from": f, "to": t, "values_hex": ["%x" % v for v in vals], "source_bytes": blob(f, vals), "library": li, "expected": ol[0],
                "outcome": o}


def shrink_conv(conv_h, f, t, vals):
    small = vlib.ddmin(vals, lambda s: not conv_one(conv_h, f, t, s)[0], max_tests=120) if len(vals) > 1 else vals
    return conv_one(conv_h, f, t, small)[1]


# ------------------------------------------------------------------ API level
ENTRY_W = {"coord": (["R4", "R8"], ["R4", "R8", "I4", "I8"]),
           "field": (["R4", "R8", "I4", "I8", "X4", "X8"], ["R4", "R8", "I4", "I8", "X4", "X8"]),
           "array": (TYPES, TYPES)}
ENTRY_R = {"coord": ["R4", "R8"], "field": TYPES, "array": TYPES}


class Pool:
    """per (m, s): candidate memory values (representable for m -> s) and what the oracle says gets stored"""

    def __init__(self, rng, conv_h, n):
        self.rng, self.v, self.s = rng, {}, {}
        lines, keys = [], []
        for m in TYPES:
            for s in TYPES:
                if supported(m, s):
                    vals = [v for v in gen_values(rng, m, n) if representable(m, s, v)]
                    self.v[(m, s)] = vals
                    lines.append("conv %s %s %s" % (m, s, blob(m, vals)))
                    keys.append((m, s))
        ol, o = vlib.run_impl(conv_h, "\n".join(lines) + "\n", args=["oracle"])
        if o != "ok":
            raise vlib.Infra("oracle harness failed: " + o)
        for k, l in zip(keys, ol):
            self.s[k] = unblob(k[1], l.split(" ")[1])

    def pick(self, m, s, n, readers):
        """n memory values of type m whose stored form (type s) is representable in every reader type"""
        vals, st = self.v[(m, s)], self.s[(m, s)]
        ok = [i for i in range(len(vals)) if all(representable(s, r, st[i]) for r in readers if supported(s, r))]
        if not ok:
            ok = [i for i in range(len(vals)) if representable(s, m, st[i])] or list(range(len(vals)))
        return [vals[self.rng.choice(ok)] for _ in range(n)]


def gen_api_script(rng, pool, backend, N, combos, tag):
    """one script: for every (entry, s, m) of `combos` the life of an array: new+full, info, reads (full / partial file
    range / partial memory range / other entry points), existing+partial, existing+full with another memory type,
    refused file type, new+partial; a reopen at the end and everything read again."""
    ops, types, later = [], [], []
    k = 0

    def add(op, ty=None):
        ops.append(op)
        types.append(ty)

    for entry, s, m in combos:
        k += 1
        name = "%s%s%d" % (entry[0].upper(), tag, k)
        dim = N if entry != "array" else rng.choice([N, 1, 2, 3, rng.randint(1, 24)])
        readers_all = [r for r in ENTRY_R[entry] if not (entry == "array" and s == "C1" and r != "C1")]
        readers = rng.sample(readers_all, min(len(readers_all), 2))
        if m in readers_all and m not in readers:
            readers.append(m)
        if not supported(m, s):
            # refused; the node may be left behind, so the name is not used again
            add("w %s %s %s %d 1 %d %s %d 1 %d %s" % (entry, name, s, dim, dim, m, dim, dim, blob(m, gen_values(rng, m, 8)[:1] * dim)))
            continue
        vals = pool.pick(m, s, dim, readers)
        use_plain = rng.random() < 0.3 and s == m
        if use_plain:
            add("w %swrite %s %s %d 1 %d %s %d 1 %d %s" % (entry, name, s, dim, dim, m, dim, dim, blob(m, vals)))
        else:
            add("w %s %s %s %d 1 %d %s %d 1 %d %s" % (entry, name, s, dim, dim, m, dim, dim, blob(m, vals)))
        add("i %s %s" % (entry, name))
        for r in readers:
            add("r %s %s 1 %d %s %d 1 %d" % (entry, name, dim, r, dim, dim), [r])
            if dim >= 2:
                lo = rng.randint(1, dim); hi = rng.randint(lo, dim); n = hi - lo + 1
                add("r %s %s %d %d %s %d 1 %d" % (entry, name, lo, hi, r, n, n), [r])
                if entry in ("coord", "field") and rng.random() < 0.5:
                    add("r %sread %s %d %d %s %d 1 %d" % (entry, name, lo, hi, r, n, n), [r])
                md = n + rng.randint(1, 3); mlo = rng.randint(1, md - n + 1)
                add("r %s %s %d %d %s %d %d %d" % (entry, name, lo, hi, r, md, mlo, mlo + n - 1), [r])   # ADF + conversion: refused
        if entry == "array":
            ras = [r for r in TYPES if supported(s, r) and (r == "C1") == (s == "C1")]
            r = rng.choice(ras)
            if all(representable(s, r, x) for x in pool_stored(pool, m, s, vals)):
                add("r readas %s 1 %d %s %d 1 %d" % (name, dim, r, dim, dim), [r])
            add("r arrayread %s 1 %d %s %d 1 %d" % (name, dim, s, dim, dim), [s])
        # existing + partial
        if dim >= 2:
            lo = rng.randint(1, dim); hi = rng.randint(lo, dim); n = hi - lo + 1
            v2 = pool.pick(m, s, n, readers)
            add("w %s %s %s %d %d %d %s %d 1 %d %s" % (entry, name, s, dim, lo, hi, m, n, n, blob(m, v2)))
            md = n + 2
            v3 = pool.pick(m, s, md, readers)
            add("w %s %s %s %d %d %d %s %d 2 %d %s" % (entry, name, s, dim, lo, hi, m, md, n + 1, blob(m, v3)))   # partial memory
            add("r %s %s 1 %d %s %d 1 %d" % (entry, name, dim, readers[0], dim, dim), [readers[0]])
        # existing + full with another memory type
        m2s = [x for x in ENTRY_W[entry][1] if supported(x, s) and x != m]
        if m2s:
            m2 = rng.choice(m2s)
            v4 = pool.pick(m2, s, dim, readers)
            add("w %s %s %s %d 1 %d %s %d 1 %d %s" % (entry, name, s, dim, dim, m2, dim, dim, blob(m2, v4)))
            add("r %s %s 1 %d %s %d 1 %d" % (entry, name, dim, readers[-1], dim, dim), [readers[-1]])
        # another file type on the existing node: refused, nothing changes
        s2s = [x for x in ENTRY_W[entry][0] if x != s and supported(m, x)]
        if s2s:
            s2 = rng.choice(s2s)
            add("w %s %s %s %d 1 %d %s %d 1 %d %s" % (entry, name, s2, dim, dim, m, dim, dim, blob(m, pool.pick(m, s2, dim, []))))
            add("i %s %s" % (entry, name))
        # new + partial (the rest reads as zero), then the rest
        if dim >= 3 and (s == m or backend == "hdf5" or True):
            name2 = name + "p"
            cut = rng.randint(1, dim - 1)
            va = pool.pick(m, s, dim, readers)
            add("w %s %s %s %d %d %d %s %d 1 %d %s" % (entry, name2, s, dim, cut + 1, dim, m, dim - cut, dim - cut, blob(m, va[cut:])))
            add("i %s %s" % (entry, name2))
            add("r %s %s 1 %d %s %d 1 %d" % (entry, name2, dim, readers[0], dim, dim), [readers[0]])
            add("w %s %s %s %d 1 %d %s %d 1 %d %s" % (entry, name2, s, dim, cut, m, cut, cut, blob(m, va[:cut])))
            add("r %s %s 1 %d %s %d 1 %d" % (entry, name2, dim, readers[0], dim, dim), [readers[0]])
            later.append((entry, name2, dim, readers[0]))
        later.append((entry, name, dim, readers[0]))
    add("reopen")
    for entry, name, dim, r in later:
        add("i %s %s" % (entry, name))
        add("r %s %s 1 %d %s %d 1 %d" % (entry, name, dim, r, dim, dim), [r])
    return ops, types


def pool_stored(pool, m, s, vals):
    idx = {v: i for i, v in enumerate(pool.v[(m, s)])}
    return [pool.s[(m, s)][idx[v]] for v in vals]


def run_api(api_h, ops, backend, N, path, want_model=True):
    if os.path.exists(path):
        os.unlink(path)
    text = "\n".join(ops) + "\n"
    il, outcome = vlib.run_impl(api_h, text, args=["impl", path, backend, str(N)], timeout=300)
    ol, o2 = vlib.run_impl(api_h, text, args=["oracle", path, backend, str(N)])
    ml = vlib.run_model("c06", text, args=["api", backend]) if want_model else None
    if os.path.exists(path):
        os.unlink(path)
    return il, outcome, ol, ml


def api_types(ops, types=None):
    if types is not None:
        return types
    out = []
    for o in ops:
        t = o.split()
        out.append([t[5]] if t and t[0] == "r" and len(t) > 5 else None)
    return out


def api_property_fails(api_h, ops, backend, N, path, types=None):
    """oracle vs implementation on one script -> (fails, detail)"""
    il, outcome, ol, _ = run_api(api_h, ops, backend, N, path, want_model=False)
    types = api_types(ops, types)
    for i, o in enumerate(ops):
        li = il[i] if i < len(il) else None
        ty = types[i] if i < len(types) else None
        if o.split()[1:2] == ["arrayread"]:
            ty = None if li is None or ol[i] is None else ty
        if not same_line(ty, li, ol[i]):
            return True, {"op_index": i, "op": o[:300], "expected": ol[i][:300], "observed": (li or "<no output>")[:300], "outcome": outcome}
    if outcome != "ok":
        return True, {"outcome": outcome}
    return False, None


def api_level(ck, api_h, pool, state, rounds):
    rng = ck.rng
    dist = state["dist"].setdefault("api", {"scripts": 0, "ops": 0, "entries": {}, "pairs": {}})
    for backend in ("adf", "hdf5"):
        for rnd in range(rounds):
            combos = [(e, s, m) for e in ("coord", "field", "array") for s in ENTRY_W[e][0] for m in ENTRY_W[e][1]]
            rng.shuffle(combos)
            chunk = 12
            for c0 in range(0, len(combos), chunk):
                part = combos[c0:c0 + chunk]
                N = rng.randint(3, 9)
                ops, types = gen_api_script(rng, pool, backend, N, part, "%d%s" % (rnd, "abcdefghijklmnop"[c0 // chunk % 16]))
                path = os.path.join(ck.work, "api_%s_%d_%d.cgns" % (backend, rnd, c0))
                il, outcome, ol, ml = run_api(api_h, ops, backend, N, path)
                dist["scripts"] += 1
                dist["ops"] += len(ops)
                for e, s, m in part:
                    dist["entries"][e] = dist["entries"].get(e, 0) + 1
                    dist["pairs"]["%s->%s" % (m, s)] = dist["pairs"].get("%s->%s" % (m, s), 0) + 1
                    ck.case("api:%s:%s:%s:%s" % (backend, e, s, m) if s != m and supported(m, s) else None,
                            sample={"level": "api", "backend": backend, "N": N, "script": [o[:110] for o in ops[:6]] + ["..."]})
                ck.cov["traces_validated_against_impl"] += 1
                bad = None
                for i, o in enumerate(ops):
                    li = il[i] if i < len(il) else None
                    if not same_line(types[i], li, ol[i]):
                        bad = i
                        break
                if bad is not None or outcome != "ok":
                    def f(sub):
                        return api_property_fails(api_h, sub, backend, N, path)[0]
                    small = vlib.ddmin(ops, f, max_tests=150) if f(ops) else ops
                    _, d = api_property_fails(api_h, small, backend, N, path)
                    ck.violation({"level": "api", "backend": backend, "N": N, "script": small, "detail": d,
                                  "oracle": "ideal array store with plain C casts (c06_api_h oracle)",
                                  "replay_hint": "printf '%s\\n' <script lines> | .build/h/c06_api_h impl /tmp/x.cgns " + backend + " %d" % N})
                    state["failed"] = True
                    return
                for i, o in enumerate(ops):
                    li = il[i] if i < len(il) else None
                    lm = ml[i] if i < len(ml) else None
                    if not same_line(types[i], li, lm):
                        state["corr_broken"].append({"level": "api", "backend": backend, "N": N, "op": o[:300], "impl": (li or "")[:300],
                                                     "model": (lm or "")[:300], "script": ops[: i + 1]})
                        break
                if len(state["corr_broken"]) >= 3:
                    return


# ------------------------------------------------------------------ element level
def iblob(t, vals):
    return blob(t, [v & ((1 << INTB[t]) - 1) for v in vals])


def gen_elem_script(rng, tag):
    ops = []
    big = (1 << 31) - 1
    def node():
        return rng.choice([rng.randint(1, 1000), rng.randint(1, big), big, 1])
    for s in ("I4", "I8"):
        for m0 in ("I4", "I8"):
            nm = "T%s%s%s" % (tag, s[1], m0[1])
            st = rng.choice([1, 5, 11]); n = rng.randint(2, 6); en = st + n - 1
            ops.append("sec %s %s tri %d %d 0" % (nm, s, st, en))
            ops.append("ew %s %d %d %s %s" % (nm, st, en, m0, iblob(m0, [node() for _ in range(3 * n)])))
            ops.append("ei %s" % nm)
            for m in ("I4", "I8"):
                ops.append("er %s %d %d %s" % (nm, st, en, m))
                lo = rng.randint(st, en); hi = rng.randint(lo, en)
                ops.append("er %s %d %d %s" % (nm, lo, hi, m))
            ops.append("ea %s" % nm)
            for m in ("I4", "I8"):
                lo = rng.randint(st, en); hi = rng.randint(lo, en)                 # replace inside the range
                ops.append("ew %s %d %d %s %s" % (nm, lo, hi, m, iblob(m, [node() for _ in range(3 * (hi - lo + 1))])))
                ops.append("er %s %d %d %s" % (nm, st, en, rng.choice(["I4", "I8"])))
            m = rng.choice(["I4", "I8", "I4"])                                       # extend past the end (overlap or gap)
            lo = rng.randint(en - 1, en + 2); hi = lo + rng.randint(0, 2)
            if hi <= en:
                hi = en + 1
            ops.append("ew %s %d %d %s %s" % (nm, lo, hi, m, iblob(m, [node() for _ in range(3 * (hi - lo + 1))])))
            en = max(en, hi)
            ops.append("ei %s" % nm)
            ops.append("er %s %d %d %s" % (nm, st, en, "I8"))
            if st > 2 and rng.random() < 0.7:                                        # extend before the start
                m = rng.choice(["I4", "I8"])
                lo = st - rng.randint(1, 2); hi = lo + rng.randint(0, 2)
                ops.append("ew %s %d %d %s %s" % (nm, lo, hi, m, iblob(m, [node() for _ in range(3 * (hi - lo + 1))])))
                st = min(st, lo); en = max(en, hi)
                ops.append("er %s %d %d %s" % (nm, st, en, "I4"))
            cnt = en - st + 1
            ops.append("pdw %s %s" % (nm, iblob("I8", [rng.randint(0, big) for _ in range(4 * cnt)])))
            for m in ("I4", "I8"):
                lo = rng.randint(st, en); hi = rng.randint(lo, en)
                ops.append("pdr %s %d %d %s" % (nm, lo, hi, m))
            ops.append("pdr %s %d %d %s" % (nm, st, en, "I8"))
            a_ = rng.randint(st, en); b_ = rng.randint(a_, en)
            ops.append("epr %s %d %d" % (nm, a_, b_))                       # cgsize_t read: converts and caches the parent arrays
            lo = rng.randint(st, en); hi = rng.randint(lo, en)             # partial parent write after (cached) partial reads
            ops.append("pdpw %s %d %d %s" % (nm, lo, hi, iblob("I8", [rng.randint(0, big) for _ in range(4 * (hi - lo + 1))])))
            for m in ("I4", "I8"):
                a_ = rng.randint(st, en); b_ = rng.randint(a_, en)
                ops.append("pdr %s %d %d %s" % (nm, a_, b_, m))
            ops.append("epr %s %d %d" % (nm, min(a_, lo), max(b_, hi)))
            ops.append("pdr %s %d %d %s" % (nm, st, en, "I4"))
            # polyhedral faces: offsets travel with the memory type too
            pn = "P%s%s%s" % (tag, s[1], m0[1])
            n = rng.randint(2, 4)
            sizes = [rng.randint(3, 5) for _ in range(n)]
            offs = [0]
            for z in sizes:
                offs.append(offs[-1] + z)
            ops.append("sec %s %s ngon 1 %d %d" % (pn, s, n, offs[-1]))
            ops.append("pw %s 1 %d %s %s %s" % (pn, n, m0, iblob(m0, [node() for _ in range(offs[-1])]), iblob(m0, offs)))
            ops.append("ei %s" % pn)
            for m in ("I4", "I8"):
                ops.append("pr %s 1 %d %s" % (pn, n, m))
                lo = rng.randint(1, n); hi = rng.randint(lo, n)
                ops.append("pr %s %d %d %s" % (pn, lo, hi, m))
            ops.append("ea %s" % pn)
            m = rng.choice(["I4", "I8"])                                             # same-size replacement inside
            lo = rng.randint(1, n)
            ops.append("pw %s %d %d %s %s %s" % (pn, lo, lo, m, iblob(m, [node() for _ in range(sizes[lo - 1])]), iblob(m, [0, sizes[lo - 1]])))
            ops.append("pr %s 1 %d %s" % (pn, n, "I8"))
            for m in ("I4", "I8"):                                                   # append directly after the end
                k = rng.randint(1, 2)
                sz = [rng.randint(3, 5) for _ in range(k)]
                of = [0]
                for z in sz:
                    of.append(of[-1] + z)
                ops.append("pw %s %d %d %s %s %s" % (pn, n + 1, n + k, m, iblob(m, [node() for _ in range(of[-1])]), iblob(m, of)))
                n += k
                ops.append("ei %s" % pn)
                ops.append("pr %s 1 %d %s" % (pn, n, rng.choice(["I4", "I8"])))
    # size-changing replacements on an inner range followed by real elements, connectivity not cached (after a reopen):
    # the tail is relocated in the file; never 'ea' on these sections (whole-section read with reserved space: C10's finding)
    qs = []
    for s in ("I4", "I8"):
        for m0 in ("I4", "I8"):
            qn = "Q%s%s%s" % (tag, s[1], m0[1])
            n = rng.randint(3, 6)
            sizes = [rng.randint(3, 6) for _ in range(n)]
            offs = [0]
            for z in sizes:
                offs.append(offs[-1] + z)
            ops.append("sec %s %s ngon 1 %d %d" % (qn, s, n, offs[-1] + rng.choice([0, 0, 4])))
            ops.append("pw %s 1 %d %s %s %s" % (qn, n, m0, iblob(m0, [node() for _ in range(offs[-1])]), iblob(m0, offs)))
            qs.append((qn, n, sizes))
    ops.append("reopen")
    for qn, n, sizes in qs:
        for rnd in range(3):
            lo = rng.randint(1, n - 1); hi = rng.randint(lo, n - 1)
            m = rng.choice(["I4", "I8"])
            old = sum(sizes[lo - 1:hi])
            for _ in range(10):
                sz = [rng.randint(3, 6) for _ in range(hi - lo + 1)]
                if sum(sz) != old and (rnd != 0 or sum(sz) < old):       # first a shrink: always fits the file
                    break
            of = [0]
            for z in sz:
                of.append(of[-1] + z)
            ops.append("pw %s %d %d %s %s %s" % (qn, lo, hi, m, iblob(m, [node() for _ in range(of[-1])]), iblob(m, of)))
            sizes[lo - 1:hi] = sz
            ops.append("pr %s 1 %d %s" % (qn, n, rng.choice(["I4", "I8"])))
            a_ = rng.randint(1, n); b_ = rng.randint(a_, n)
            ops.append("pr %s %d %d %s" % (qn, a_, b_, rng.choice(["I4", "I8"])))
            if rnd == 1:
                ops.append("reopen")
    ops.append("reopen")
    for o in list(ops):
        if o.startswith("ei ") or o.startswith("ea "):
            if o not in ops[-40:]:
                ops.append(o)
    return ops


def elem_property_fails(elem_h, ops, backend, path):
    if os.path.exists(path):
        os.unlink(path)
    text = "\n".join(ops) + "\n"
    il, outcome = vlib.run_impl(elem_h, text, args=["impl", path, backend], timeout=300)
    ol, _ = vlib.run_impl(elem_h, text, args=["oracle", path, backend])
    if os.path.exists(path):
        os.unlink(path)
    for i, o in enumerate(ops):
        li = il[i] if i < len(il) else None
        if li != ol[i]:
            return True, {"op_index": i, "op": o[:300], "expected": ol[i][:300], "observed": (li or "<no output>")[:300], "outcome": outcome}
    if outcome != "ok":
        return True, {"outcome": outcome}
    return False, None


def elem_level(ck, elem_h, state, rounds, extra_scripts=()):
    dist = state["dist"].setdefault("elem", {"scripts": 0, "ops": 0})
    for backend in ("adf", "hdf5"):
        scripts = [(n, s) for n, s in extra_scripts] + [("gen%d" % r, gen_elem_script(ck.rng, "%d" % r)) for r in range(rounds)]
        for nm, ops in scripts:
            path = os.path.join(ck.work, "elem_%s.cgns" % backend)
            fails, d = elem_property_fails(elem_h, ops, backend, path)
            dist["scripts"] += 1
            dist["ops"] += len(ops)
            ck.cov["traces_validated_against_impl"] += 1
            ck.case("elem:%s:%s" % (backend, hashlib.sha1("\n".join(ops).encode()).hexdigest()),
                    sample={"level": "elem", "backend": backend, "script": [o[:100] for o in ops[:5]] + ["..."]})
            if fails:
                small = vlib.ddmin(ops, lambda sub: elem_property_fails(elem_h, sub, backend, path)[0], max_tests=150)
                _, d2 = elem_property_fails(elem_h, small, backend, path)
                ck.violation({"level": "elem", "backend": backend, "script": small, "detail": d2 or d, "source": nm,
                              "oracle": "ideal element store with plain C casts (c06_elem_h oracle)",
                              "replay_hint": "printf '%s\\n' <script lines> | .build/h/c06_elem_h impl /tmp/x.cgns " + backend})
                state["failed"] = True
                return


def corpus(kind):
    out = []
    cdir = os.path.join(vlib.ROOT, "corpus", "C06")
    if os.path.isdir(cdir):
        for f in sorted(os.listdir(cdir)):
            if f.endswith("." + kind):
                lines = [l for l in open(os.path.join(cdir, f)).read().split("\n") if l.strip() and not l.startswith("#")]
                out.append((f, lines))
    return out


def axioms_of(log):
    """every axiom name Print Assumptions printed (vlib.parse_assumptions misses names whose type is on the next line)"""
    import re
    names, on = set(), False
    for l in log.split("\n"):
        if l.startswith("Axioms:"):
            on = True
        elif l.startswith("Closed under") or l.startswith("File "):
            on = False
        elif on:
            m = re.match(r"^([A-Za-z_][\w']*(?:\.[A-Za-z_][\w']*)+)\b", l)
            if m:
                names.add(m.group(1))
    return sorted(names)


# ------------------------------------------------------------------ the check
def run(ck):
    big = ck.tier == "thorough"
    vlib.build_impl()
    conv_h = vlib.build_harness("c06_conv_h", ["c06_conv_h.c"])
    api_h = vlib.build_harness("c06_api_h", ["c06_api_h.c"])
    elem_h = vlib.build_harness("c06_elem_h", ["c06_elem_h.c"])
    tr = pregen()
    res = vlib.coq_check_properties("C06")
    broken = ck.proof_result(res, CHECKER)
    forb = vlib.coq_forbidden_scan()
    ck.extra["forbidden_tokens"] = forb
    ck.extra["translator"] = {k: v for k, v in tr.items() if k not in ("pairs", "file")}
    ck.extra["axioms"] = axioms_of(res["log"])
    vlib.build_modelrun("c06")
    ck.cov["trusted_base"] = [
        "Coq 8.16.1 kernel + vm_compute; Flocq 4.1.0 (IEEE754.Binary, Bits) as the definition of binary32/binary64 arithmetic",
        "translators/c06_casts.py (clang 14 JSON AST of cgi_convert_data -> Gen_C06.v); every row it emits is also exercised by the conv-level run",
        "extraction: ExtrOcamlBasic only; OCaml 4.13.1; ocaml/zutil.ml, ocaml/eng_c06.ml (parsing/printing, name -> id)",
        "harness/c06_common.c (the oracle = plain C casts by the compiler of the build under test), c06_conv_h.c, c06_api_h.c, c06_elem_h.c, this generator",
        "hand transcription of cgi_array_general_write/_read, cg_array_read_as, integer helpers (validated by the API-level run)",
        "assumption of C06_stored_type & co.: libhdf5 converts representable values like C (hconv); tested on every value class, not proved",
    ]
    ck.assumptions = [
        "x86-64 Linux, gcc: char is signed 8-bit, int 32, long 64, IEEE-754 binary32/64, round-to-nearest-even, SSE NaN quieting",
        "only values representable in the destination type are given to the oracle (float->int out of range is undefined in C; "
        "int narrowing / double->float overflow are compared model-vs-library only)",
        "NaN payloads: model, library and oracle agree bit for bit on this hardware; the oracle comparison accepts any NaN for a NaN",
        "rank-1 arrays in the model and at API level (multi-dimensional hyperslabs are C05's subject)",
        "Coq axioms printed by Print Assumptions (all from Flocq / the real numbers of the standard library): " + ", ".join(axioms_of(res["log"]) or ["none"]),
        "malloc never fails; 64-bit build (cgsize_t = I8); CG_BUILD_COMPLEX_C99_EXT as configured by the build under test",
    ]
    ck.cov["rule"] = ("conv level: all 49 ordered pairs x boundary-rich bit patterns (all 256 chars; powers of two +-1, type limits, "
                      "round-to-even halfway cases, denormals, +-0, +-inf, quiet/signalling NaNs, random) filtered by representability, "
                      "library vs oracle vs extracted model; api level: every accepted (entry point, file type, memory type) on ADF and "
                      "HDF5 through new/existing x full/partial file range x full/partial memory range, refused file type, reopen; elem "
                      "level: TRI_3 / NGON_n sections with I4/I8 file and memory types (replace, extend, append, parent data). "
                      "non-trivial = the two types differ and the pair is supported; distinct by (level, pair, value) resp. "
                      "(backend, entry, file type, memory type) resp. SHA1 of the element script")
    mine = [h for h in forb if h.split(":")[0] in ("Convert.v", "ConvertProofs.v", "Properties_C06.v", "Gen_C06.v", "Extract_c06.v")]
    if mine:       # hits in other people's (possibly half-written) files are recorded in the evidence only
        ck.violation({"broken_obligation": "forbidden tokens in the C06 Coq files", "hits": mine}, nofail=True)
    state = {"failed": False, "corr_broken": [], "dist": {}}
    if tr["unparsed"]:
        broken = broken or [{"obligation": "translator", "message": "; ".join(tr["notes"])}]

    # corpus first (regression witnesses of repaired defects), then generation
    for nm, lines in corpus("api"):
        hdr = lines[0].split()           # "args <backend> <N>"
        fails, d = api_property_fails(api_h, lines[1:], hdr[1], int(hdr[2]), os.path.join(ck.work, "corpus.cgns"))
        ck.case("corpus:" + nm)
        ck.cov["traces_validated_against_impl"] += 1
        if fails:
            ck.violation({"level": "api", "backend": hdr[1], "N": int(hdr[2]), "script": lines[1:], "detail": d, "source": "corpus/C06/" + nm})
            state["failed"] = True
    if not state["failed"]:
        elem_level(ck, elem_h, state, 25 if big else 1, extra_scripts=corpus("elem"))
    if not state["failed"]:
        conv_level(ck, conv_h, 20000 if big else 500, state)
    pool = None
    if not state["failed"]:
        pool = Pool(ck.rng, conv_h, 1500 if big else 260)
        api_level(ck, api_h, pool, state, 14 if big else 1)

    # something broke without a failing input so far: widen the search through the oracle (DESIGN.md 1.3)
    if (state["corr_broken"] or broken) and not state["failed"]:
        for i in range(6):
            conv_level(ck, conv_h, 3000, state)
            if state["failed"]:
                break
        if not state["failed"]:
            pool = pool or Pool(ck.rng, conv_h, 400)
            api_level(ck, api_h, pool, state, 3)
        if not state["failed"]:
            elem_level(ck, elem_h, state, 6)
        if not state["failed"]:
            ck.violation({"broken_obligations": broken, "broken_correspondence": state["corr_broken"][:3],
                          "note": "an obligation of Properties_C06.v no longer checks, or the extracted model and the implementation "
                                  "differ, but every input explored still satisfies the property's oracle (plain C casts)"}, nofail=True)
    ck.extra["input_distribution"] = state["dist"]
    ck.extra["correspondence_divergences"] = len(state["corr_broken"])


def replay(ck, path):
    r = json.load(open(path))
    vlib.build_impl()
    lvl = r.get("level")
    if lvl == "conv":
        h = vlib.build_harness("c06_conv_h", ["c06_conv_h.c"])
        ok, d = conv_one(h, r["from"], r["to"], [int(x, 16) for x in r["values_hex"]])
        fails = not ok
    elif lvl == "api":
        h = vlib.build_harness("c06_api_h", ["c06_api_h.c"])
        fails, d = api_property_fails(h, r["script"], r["backend"], r["N"], os.path.join(ck.work, "replay.cgns"))
    elif lvl == "elem":
        h = vlib.build_harness("c06_elem_h", ["c06_elem_h.c"])
        fails, d = elem_property_fails(h, r["script"], r["backend"], os.path.join(ck.work, "replay.cgns"))
    else:
        print("replay names a broken obligation/correspondence, no input to run:", json.dumps(r)[:600])
        return 1
    print("replay: property C06 on this input: %s %s" % ("FAILS" if fails else "holds", json.dumps(d)[:800]))
    return 1 if fails else 0
