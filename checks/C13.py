"""C13 -- corrupt or truncated files are rejected without memory errors or hangs.

Proof side : coq/Properties_C13.v.  coq/AdfCodec.v + coq/AdfWalk.v transcribe the ADF decoders and the read-only client
             operations as total functions over the byte string of the file, buffers modelled with their sizes.  The
             code exists in two states, selected by the record AdfCodec.fixes (one switch per repair of
             notes/C13-fixes/NN-*.diff): [legacy] = before the repairs, [repaired] = with them.  Theorems: hex decoder,
             decoder soundness, codec round trips, termination of open; for [legacy] the _refuted witnesses of every
             forbidden outcome; for [repaired] C13_no_oob (no out-of-bounds store / load, no uninitialised or stale
             byte, no assert, no signed overflow -- for EVERY byte string and every fuel) and
             C13_link_recursion_bounded.
Switch     : which state the library built from the working tree is in is found out at run time (step 3): every
             witness file of corpus/C13 is run first; a witness the library still mishandles is reported with the
             finding key of its defect and its switch stays on [legacy]; a witness the library rejects the way the
             repaired model says turns its switch to [repaired].  The correspondence is then run against the model in
             exactly that state, so it holds for the unrepaired, the repaired and a partly repaired library; the
             evidence records the state seen (coverage.library_state).
Tie        : correspondence -- the extracted model and the real library (ASan/UBSan build of the working tree) walk
             the same files: a harness-generated corpus of valid ADF files, the witness files, and model-guided
             mutants (truncations; every field of every structure the MODEL'S decoders locate, set to each boundary
             class; structural attacks assembled with the MODEL'S encoders).  Verdicts, decoded values and -- where
             the model predicts a forbidden outcome -- the kind of crash are compared.
Oracle (model-independent, the property itself): for every mutant, cgio_check_file, a full cgio walk and
             cg_open + broad MLL read, each in its own process with a 10 s watchdog (a timeout is confirmed with 60 s):
             the outcome must be a clean return (never asan / ubsan / signal / timeout / exit()) and the file's
             SHA-256 must be unchanged.
HDF5       : truncations and byte corruptions around attribute values located by unique markers; oracle only.
"""
import base64, hashlib, json, os, re, subprocess, time
from concurrent.futures import ThreadPoolExecutor
import vlib

CHECKER = "make -C coq Properties_C13.vo (coqc 8.16.1 kernel) ; coqc Properties_C13.v (Print Assumptions)"
FUEL = 400
WATCHDOG = 10
WATCHDOG_CONFIRM = 60
WORKERS = 4
CORPUS = os.path.join(vlib.ROOT, "corpus", "C13")
FLAGS = ["snt", "dct", "link", "nest", "fmt", "tag", "dtov", "rtype", "dim", "short", "sizes", "rad", "lfile", "lpath", "lnosep", "ver"]      # order of AdfCodec.fixes
FLAG_FIX = {"snt": "01", "dct": "02", "link": "03", "nest": "04", "fmt": "05", "tag": "06", "dtov": "07", "rtype": "08",
            "dim": "11", "short": "13", "sizes": "14", "rad": "15",
            "lfile": "03", "lpath": "03", "lnosep": "03",           # the three output-side guards of repair 03, one switch each
            "ver": "20"}
KNOWN_DEFECT_KEY = "adf-subnode-table-count-vs-chunk-length"
_CFG = {"bits": "0" * len(FLAGS)}


# ------------------------------------------------------------------ small helpers
def cfgbits(state):
    return "".join("1" if state.get(f) else "0" for f in FLAGS)


def model(script, timeout=900, bits=None):
    """the extracted model in the state [bits] (default: the state found for the library in step 3)"""
    if os.environ.get("C13_DUMP"):
        import hashlib as _h
        open(os.path.join(os.environ["C13_DUMP"], _h.sha1(script.encode()).hexdigest()[:10] + ".script"), "w").write(
            "cfg %s\n" % (bits or _CFG["bits"]) + script)
    return vlib.run_model("c13", "cfg %s\n" % (bits or _CFG["bits"]) + script, timeout=timeout)


def blocks(lines):
    out, cur = [], []
    for l in lines:
        cur.append(l)
        if l == "END":
            out.append(cur); cur = []
    return out


def canon(lines):
    """error 13 (lseek refused by the file system) and 15 (short read) are one class"""
    return [re.sub(r"\berr 13$", "err 15", l) for l in lines]


def sha(path):
    try:
        return hashlib.sha256(open(path, "rb").read()).hexdigest()
    except OSError:
        return None


def field_class(desc):
    """structure.field of a mutation description: 'node@1162.dim0=2^63' -> 'node.dim', 'truncate to 17' -> 'truncation'"""
    if desc.startswith("truncate"):
        return "truncation"
    if desc.startswith("byte "):
        return "hdf5-byte"
    if desc.startswith("theorem witness") or desc.startswith("witness"):
        return "witness"
    m = re.match(r"node@\d+: (.*)", desc)
    if m:
        return "node." + re.sub(r"[^a-z]+", "-", re.sub(r"\d+", "", m.group(1).lower())).strip("-")[:30]
    d = re.split(r"=|->|\[", desc)[0]
    d = re.sub(r"@\d+", "", d)
    d = re.sub(r"\[\d+\]", "", d)
    d = re.sub(r"\d+$", "", d)
    d = re.sub(r"entry\d+", "entry", d)
    return d


_REPORTS = {}


def crash_report_cached(sig, exe, args, cwd=None):
    """at most 3 second runs per (mode, outcome, field class, model verdict); later cases reuse the last report"""
    seen = _REPORTS.setdefault(sig, [])
    if len(seen) < 3:
        seen.append(crash_report(exe, args, cwd))
    return seen[-1]


def crash_report(exe, args, cwd=None, timeout=WATCHDOG + 5):
    """second run of a crashing case, stderr kept -> (frames [(fn, where)], ubsan message or None)"""
    e = dict(os.environ); e.update(vlib.ASAN_ENV)
    try:
        p = subprocess.run([exe] + list(args), stdin=subprocess.DEVNULL, stdout=subprocess.PIPE, stderr=subprocess.PIPE,
                           text=True, errors="replace", timeout=timeout, cwd=cwd, env=e)
    except subprocess.TimeoutExpired:
        return [], None
    err = p.stderr
    frames = []
    for m in re.finditer(r"#(\d+) 0x[0-9a-f]+ in (\S+) (\S+)", err):
        if m.group(1) == "0" and frames:
            break                                   # the first stack only (the access), not the allocation stack
        frames.append((m.group(2), m.group(3)))
        if len(frames) >= 40:
            break
    um = re.search(r"runtime error: ([^\n]*)", err)
    return frames, (um.group(1) if um else None)


_SKIP = ("__asan", "__interceptor", "__ubsan", "__sanitizer", "memcpy", "memset", "strcpy", "strlen", "strncpy", "strchr",
         "printf_common", "vsprintf", "sprintf", "read", "__GI_")


def lib_frames(frames):
    """function names of the library's own frames, innermost first"""
    out = []
    for fn, where in frames:
        if any(fn.startswith(x) for x in _SKIP) or "/harness/" in where or fn == "main":
            continue
        if "libc" in where or "libasan" in where:
            continue
        out.append(fn)
    return out


SITE_KEY = {"OOBW1": KNOWN_DEFECT_KEY, "OOBR1": "adf:num-sub-nodes-exceeds-entries-field", "OOBW2": "adf:data-chunk-table-count-vs-chunk-length",
            "OOBW3": "adf:link-payload-longer-than-buffer", "OOBW4": "adf:link-datatype-more-than-one-token",
            "OOBR5": "adf:node-header-tag-scan-past-buffer", "OOBW8": "adf:link-file-part-longer-than-chase-buffer",
            "OOBW9": "adf:database-version-scan-past-what-field",
            "OutOfFuel": "adf:link-path-through-itself-unbounded-recursion"}


SIBLING_KEYS = {"adf:block-read-incomplete-data-zero-fill-counts-file-bytes", "adf:array-datatype-block-read-into-2-char-typed-buffer"}


def root_cause(backend, mode, outcome, lines, frames, umsg, fclass, mverdict=None):
    """stable finding key: the root cause where a rule recognises it, else <backend>:<kind>@<function>:<field class>.
    Listing one key as known must not hide a different defect with the same crash site: the fall-back key therefore
    carries the class of the mutated field, and the rules look at the whole stack, not at the top frame only."""
    fns = lib_frames(frames)
    S = set(fns)
    top = fns[0] if fns else "?"
    if outcome == "timeout":
        return "%s:timeout@%s:%s" % (backend, mode, fclass)
    asserted = [l for l in lines if l.startswith("ASSERT ")]
    if asserted:
        fn = asserted[-1].split()[1]
        if fn == "ADFI_read_file_header":
            return "adf:file-header-format-letter-undefined-assert"
        return "%s:assert@%s:%s" % (backend, fn, fclass)
    if any(l == "libexit-alloc" for l in lines):
        return "mll:exit-on-allocation-failure"          # cgi_malloc / cgi_realloc call exit(1)
    if any(l == "libexit" for l in lines) or outcome.startswith("exit:"):
        return "%s:library-exit@%s:%s" % (backend, mode, fclass)
    if outcome.startswith("asan:"):
        kind = outcome[5:].split("@")[0].rstrip(":")
    elif outcome.startswith("ubsan:"):
        kind = "ubsan-" + re.sub(r"[^a-z]+", "-", re.sub(r"-?\d+", "", (umsg or outcome[6:]).split(" for type")[0].lower())).strip("-")[:40]
    else:
        kind = outcome.replace(":", "")
    if "get_str_att" in S and kind.endswith("buffer-overflow"):
        return "hdf5:string-attribute-longer-than-buffer"      # H5Aread fills in what the file says there is
    if any(re.match(r"H5[A-Z]*_", f) for f in fns[:1]) or (frames and "libhdf5" in frames[0][1]):
        return "hdf5-lib:%s@%s" % (kind, top)
    if backend == "adf":
        if "ADFI_read_sub_node_table" in S and kind == "heap-buffer-overflow":
            return KNOWN_DEFECT_KEY
        if "ADFI_compare_node_names" in S and "ADFI_check_4_child_name" in S and kind == "heap-buffer-overflow":
            return "adf:num-sub-nodes-exceeds-entries-field"
        if "ADFI_read_data_chunk_table" in S and kind == "heap-buffer-overflow":
            return "adf:data-chunk-table-count-vs-chunk-length"
        if "ADF_Database_Version" in S and kind.endswith("buffer-overflow"):
            return "adf:database-version-scan-past-what-field"
        if kind == "heap-buffer-overflow" and top == "ADF_Read_Block_Data" and fclass != "node.data_type" and "array-type" not in fclass:
            return "adf:block-read-incomplete-data-zero-fill-counts-file-bytes"
        if kind == "heap-buffer-overflow" and S & {"ADF_Read_Block_Data", "ADF_Read_Data"} and \
                (fclass in ("node.data_type", "witness") or "array-type" in fclass):
            return "adf:array-datatype-block-read-into-2-char-typed-buffer" if "ADF_Read_Block_Data" in S else \
                "adf:compound-datatype-read-into-2-char-typed-buffer"
        if kind == "heap-buffer-overflow" and "cgi_read_int_data" in S:
            return "mll:int-data-node-larger-than-expected-count"
        if kind == "stack-overflow" and "ADFI_chase_link" in S and "ADF_Get_Node_ID" in S:
            return "adf:link-path-through-itself-unbounded-recursion"
        if S & {"ADF_Get_Link_Path", "ADF_Link_Size"}:
            if "ADFI_evaluate_datatype" in S and kind == "stack-buffer-overflow":
                return "adf:link-datatype-more-than-one-token"
            if kind.startswith("negative-size-param"):
                return "adf:link-payload-negative-length"
            if kind.startswith("ubsan-index") and "out-of-bounds" in kind:
                return "adf:link-payload-length-truncated-to-int"
            if kind == "stack-buffer-overflow" and "ADFI_read_data_chunk" in S:
                return "adf:link-payload-longer-than-buffer"
            if kind in ("stack-buffer-overflow", "heap-buffer-overflow", "global-buffer-overflow") and top in ("ADF_Get_Link_Path", "ADF_Link_Size"):
                # strcpy / strncpy of the file or path part into the caller's buffer; which part: the mutated field says
                return "adf:link-part-longer-than-destination-buffer:%s" % fclass
        if kind.startswith("negative-size-param") and "ADF_Read_All_Data" in S:
            return "adf:data-chunk-negative-length"
        if kind.startswith("ubsan-left-shift") and S & {"ADFI_convert_integers", "ADFI_convert_number_format"}:
            return "adf:file-header-format-letter-negative-shift"
        if top == "ADFI_stridx_c" and "ADFI_read_node_header" in S:
            return "adf:node-header-tag-scan-past-buffer"
        if top == "ADFI_evaluate_datatype" and kind.startswith("ubsan-signed-integer-overflow"):
            return "adf:datatype-array-length-int-overflow"
        if "cgi_read_node" in S or "cgi_read_node_data" in S:
            if kind in ("heap-use-after-free", "stack-buffer-overflow", "SEGV", "heap-buffer-overflow", "global-buffer-overflow",
                        "stack-buffer-underflow", "unknown-crash", "signal11") and "ADF_Read_All_Data" in S and fclass.endswith("data_type"):
                return "mll:node-data-type-without-buffer"
        if kind.startswith("attempting") and top.startswith("cgi_free") and fclass == "node.data_type":
            return "mll:mt-node-leaves-data-pointer-unset"
        if kind == "stack-buffer-overflow" and top == "ADF_Get_Dimension_Values" and "cgi_read_string" in S:
            return "mll:string-node-dimensions-into-2-element-array"
        if kind.startswith("ubsan-signed-integer-overflow") and top in ("cgi_read_node", "cgi_read_node_data", "cgi_read_ptset"):
            return "mll:element-count-overflow"
        if kind == "stack-overflow" and S & {"cgi_read_user_data", "cgi_read_family", "cgi_read_user_data_1", "cgi_read_family_1"}:
            return "mll:nested-reader-unbounded-recursion"
        if top == "cgi_read_ptset" and kind == "heap-buffer-overflow":
            return "mll:point-range-shorter-than-2-index-dim"
        if kind.startswith("ubsan-signed-integer-overflow") and top in ("cgio_compute_data_size", "cgio_get_data_size"):
            neg = bool(re.search(r"overflow: -\d+ \*", umsg or ""))
            return "adf:dimension-value-exceeds-cgsize" if neg else "cgio:data-size-product-overflow"
        if kind == "heap-buffer-overflow" and top == "ADF_Read_All_Data" and fclass != "node.data_type" and "array-type" not in fclass:
            return "adf:incomplete-data-zero-fill-counts-file-bytes"
        if kind == "heap-buffer-overflow" and "ADF_Read_All_Data" in S:
            if fclass == "node.data_type" or "array-type" in fclass:
                return "adf:compound-datatype-read-into-2-char-typed-buffer"
            if fclass in ("fileheader.sizeof", "node.header-sizeof-int-dim-halved"):
                return "adf:header-type-size-vs-untranslated-copy"
        if not fns and mverdict in SITE_KEY and kind in ("stack-buffer-overflow", "stack-overflow", "SEGV"):
            return SITE_KEY[mverdict]                   # the stack was smashed: the model names the buffer
    return "%s:%s@%s:%s" % (backend, kind, top, fclass)


# ------------------------------------------------------------------ model-guided mutants of one ADF file
def le(n, v):
    return (v % (1 << (8 * n))).to_bytes(n, "little")


class AdfFile:
    def __init__(self, name, data):
        self.name, self.data = name, data
        out = model("base %s\nattr\nlayout\nfields\nwalk %d\ncheck\n" % (data.hex(), FUEL))
        self.attr = dict(kv.split("=") for kv in out[0].split()[1:])
        self.old = self.attr["old"] == "1"
        k = out.index("END")
        self.layout = out[1:k]
        k2 = out.index("END", k + 1)
        self.fields = {"fileheader": [], "node": []}
        for l in out[k + 1:k2]:
            t = l.split()
            self.fields[t[1]].append((int(t[2]), int(t[3]), int(t[4])))
        rest = out[k2 + 1:]
        k3 = rest.index("END")
        self.base_walk = rest[:k3 + 1]
        self.base_check = rest[k3 + 1]
        self.nodes, self.snts, self.dcts, self.datas, self.children = [], [], [], [], []
        for l in self.layout:
            t = l.split()
            kv = dict(x.split("=") for x in t[3:] if "=" in x)
            if t[1] == "node":
                self.nodes.append(dict(pos=int(t[2]), **kv))
            elif t[1] == "snt":
                self.snts.append(dict(pos=int(t[2]), end=int(kv["end"]), n=int(kv["n"]), parent=int(kv["parent"])))
            elif t[1] == "dct":
                self.dcts.append(dict(pos=int(t[2]), end=int(kv["end"]), n=int(kv["n"])))
            elif t[1] == "data":
                self.datas.append(dict(pos=int(t[2]), end=int(kv["end"])))
            elif t[1] == "child":
                self.children.append(dict(pos=int(t[2]), target=int(t[4]), parent=int(kv["parent"])))

    # --- encodings (the model's encoders, through the engine) for this file's pointer format
    def enc_many(self, reqs):
        out = model("base %s\n" % self.data.hex() + "".join("enc " + r + "\n" for r in reqs))
        return [bytes.fromhex(l.split()[1]) if l.split()[1] != "-" else b"" for l in out]

    def ptr_classes(self, pos, parent=None):
        """(label, block, offset) targets for a disk pointer stored at file position pos"""
        flen = len(self.data)
        root = self.nodes[0]["pos"] if self.nodes else 266
        cl = [("past-eof", flen // 4096 + 5, 0), ("file-header", 0, 0), ("free-chunk-table", 0, 186), ("root", root // 4096, root % 4096),
              ("last-byte", (flen - 1) // 4096, (flen - 1) % 4096), ("offset-4095", 0, 4095), ("offset-4096", 0, 4096),
              ("self", pos // 4096, pos % 4096)]
        if parent is not None:
            cl.append(("ancestor", parent // 4096, parent % 4096))
        if not self.old:
            cl += [("offset-2^32-1", 0, 0xFFFFFFFF), ("block-2^52", 1 << 52, 0), ("block-2^64-1", (1 << 64) - 1, 4095),
                   ("block-2^51", 1 << 51, 10)]
        else:
            cl += [("block-ffffffff", 0xFFFFFFFF, 0)]
        return cl

    def mutants(self):
        """list of (description, class, [(offset, bytes)])  -- single-field corruptions and structural attacks"""
        d, M = self.data, []
        req, slots = [], []          # encoder requests, resolved in one model call

        def want_ptr(desc, cls, off, b, o):
            req.append("dp %x %x" % (b, o)); slots.append((desc, cls, off))

        def hexfield(desc, off, n, vals):
            for lab, v in vals:
                M.append(("%s=%s" % (desc, lab), "hex", [(off, v)]))
            orig = d[off:off + n]
            M.append((desc + "=nonhex-G-first", "hex", [(off, b"G" + orig[1:])]))
            M.append((desc + "=nonhex-g-last", "hex", [(off, orig[:-1] + b"g")]))
            M.append((desc + "=blank", "hex", [(off, b" " * n)]))
            M.append((desc + "=nul", "hex", [(off, orig[:-1] + b"\0")]))
            M.append((desc + "=slash-colon", "hex", [(off, b"/" + orig[1:-1] + b":") if n > 1 else (off, b":")]))
            M.append((desc + "=at-backquote", "hex", [(off, b"@" + orig[1:-1] + b"`") if n > 1 else (off, b"@")]))
            M.append((desc + "=lowercase", "hex", [(off, orig.lower())]))
            M.append((desc + "=highbit", "hex", [(off, bytes([orig[0] | 0x80]) + orig[1:])]))

        def tagfield(desc, off):
            t = d[off:off + 4]
            M.append((desc + "=first-X", "tag", [(off, b"X" + t[1:])]))
            M.append((desc + "=last-X", "tag", [(off, t[:3] + b"X")]))
            M.append((desc + "=case-flip", "tag", [(off, t.swapcase())]))
            M.append((desc + "=first-nul", "tag", [(off, b"\0" + t[1:])]))
            M.append((desc + "=zzzz", "tag", [(off, b"zzzz")]))

        # file header
        fh = dict((i, (o, n)) for i, o, n in self.fields["fileheader"])
        for i in (1, 3, 5, 8, 21, 26):
            tagfield("fileheader.tag%d" % i, fh[i][0])
        for lab, patch in [("major-A", (25, b"A")), ("major-C", (25, b"C")), ("major-B", (25, b"B")), ("minor-03", (26, b"03")),
                           ("minor-FF", (26, b"FF")), ("minor-0G", (26, b"0G")), ("minor-00", (26, b"00")), ("old-style->", (28, b">")),
                           ("magic-broken", (4, b"XDF")), ("nul-inside", (10, b"\0")), ("first-byte", (0, b"@"))]:
            M.append(("fileheader.what=" + lab, "version", [patch]))
        # the what field is 32 characters without a terminator: its closing '>' is what ADF_Database_Version looks for
        M.append(("fileheader.what=end->X", "version-core", [(31, b"X")]))
        M.append(("fileheader.what=end->nul", "version", [(31, b"\0")]))
        M.append(("fileheader.what=end-moved-to-30", "version", [(30, b">")]))
        M.append(("fileheader.what=end->X,>-in-creation-date", "version", [(31, b"X"), (40, b">")]))
        M.append(("fileheader.what=end->X,nul-in-creation-date", "version", [(31, b"X"), (45, b"\0")]))
        M.append(("fileheader.what=no->-up-to-format", "version", [(31, b"X"), (60, b">")]))
        for pos in (100, 101):
            for v in (b"B", b"L", b"C", b"N", b"X", b"\0", b"\xff", b"b"):
                M.append(("fileheader.format[%d]=%r" % (pos, v), "format", [(pos, v)]))
        for i in range(9, 21):
            hexfield("fileheader.sizeof%d" % (i - 9), fh[i][0], 2, [("00", b"00"), ("FF", b"FF"), ("01", b"01"), ("10", b"10")])
        for i, nm in ((22, "root"), (23, "eof"), (24, "free"), (25, "extra")):
            for lab, b, o in self.ptr_classes(fh[i][0]):
                want_ptr("fileheader.%s->%s" % (nm, lab), "pointer", fh[i][0], b, o)
            M.append(("fileheader.%s=ff*12" % nm, "pointer", [(fh[i][0], b"\xff" * 12)]))
        # free-chunk table (not read on a read-only open: must be inert)
        tagfield("fct.start", 186); tagfield("fct.end", 262)
        M.append(("fct.ptr0=ff*12", "pointer", [(190, b"\xff" * 12)]))

        nf = dict((i, (o, n)) for i, o, n in self.fields["node"])
        parent_of = dict((c["target"], c["parent"]) for c in self.children)
        max_link = 0
        for nd in self.nodes:
            if nd["type"] == "4c4b" and not self.old:
                o0 = nd["pos"] + nf[8][0]
                max_link = max(max_link, int.from_bytes(d[o0:o0 + 8], "little"))
        for nd in self.nodes:
            p = nd["pos"]; tagn = "node@%d" % p
            tagfield(tagn + ".NoDe", p + nf[0][0]); tagfield(tagn + ".TaiL", p + nf[22][0])
            for i, nm in ((1, "name"), (2, "label")):
                o = p + nf[i][0]
                s = d[o:o + 32]
                for lab, v in [("blank", b" " * 32), ("slash", b"a/b" + s[3:]), ("nul-mid", s[:1] + b"\0" + s[2:]), ("full32", b"Q" * 32),
                               ("highbit", b"\xc0\xff" + s[2:]), ("nul-first", b"\0" + s[1:]), ("dup-sibling", b"A" + b" " * 31)]:
                    M.append(("%s.%s=%s" % (tagn, nm, lab), "string", [(o, v)]))
            nsub, ent = int(nd["nsub"]), int(nd["entries"])
            hexfield(tagn + ".num_sub_nodes", p + nf[3][0], 8,
                     [("0", b"00000000"), ("1", b"00000001"), ("+1", b"%08X" % (nsub + 1)), ("entries+1", b"%08X" % (ent + 1)),
                      ("7FFFFFFF", b"7FFFFFFF"), ("80000000", b"80000000"), ("FFFFFFFF", b"FFFFFFFF"), ("00010000", b"00010000")])
            hexfield(tagn + ".entries_for_sub_nodes", p + nf[4][0], 8,
                     [("0", b"00000000"), ("1", b"00000001"), ("nsub", b"%08X" % nsub), ("nsub-1", b"%08X" % max(nsub - 1, 0)),
                      ("2", b"00000002"), ("+8", b"%08X" % (ent + 8)), ("FFFFFFFF", b"FFFFFFFF"), ("01000000", b"01000000")])
            for i, nm in ((5, "sub_node_table"), (21, "data_chunks")):
                for lab, b, o in self.ptr_classes(p + nf[i][0], parent_of.get(p)):
                    want_ptr("%s.%s->%s" % (tagn, nm, lab), "pointer", p + nf[i][0], b, o)
                M.append(("%s.%s=ff*12" % (tagn, nm), "pointer", [(p + nf[i][0], b"\xff" * 12)]))
            o = p + nf[6][0]
            for lab, v in [("MT", b"MT"), ("LK", b"LK"), ("I4", b"I4"), ("R8", b"R8"), ("C1", b"C1"), ("X8", b"X8"), ("I4,I4", b"I4,I4"),
                           ("I4[3]", b"I4[3]"), ("I4[huge]", b"I4[99999999999999]"), ("ZZ", b"ZZ"), ("lower", b"i4"), ("blank", b""),
                           ("LK-arrays", b"LK[1]C1[1]C1[1]C1[1]C1[1]"), ("C1-arrays", b"C1[1]C1[1]C1[1]C1[1]C1[1]C1[1]"),
                           ("MT,I4", b"MT,I4"), ("I4[", b"I4["), ("nul-first", b"\0"), ("B1,R8[0]", b"B1,R8[0]")]:
                M.append(("%s.data_type=%s" % (tagn, lab), "datatype", [(o, v.ljust(32, b" "))]))
            hexfield(tagn + ".number_of_dimensions", p + nf[7][0], 2,
                     [("00", b"00"), ("01", b"01"), ("0C", b"0C"), ("0D", b"0D"), ("FF", b"FF"), ("0c", b"0c")])
            ndims = int(nd["ndims"])
            for k in range(0, max(ndims, 1) + 1):
                if k >= 12:
                    break
                o = p + nf[8 + k][0]
                if self.old:
                    hexfield("%s.dim%d" % (tagn, k), o, 8, [("0", b"00000000"), ("1", b"00000001"), ("FFFFFFFF", b"FFFFFFFF"),
                                                            ("13", b"0000000D"), ("80000000", b"80000000")])
                else:
                    orig = int.from_bytes(d[o:o + 8], "little")
                    for lab, v in [("0", 0), ("1", 1), ("13", 13), ("2^32-1", 0xFFFFFFFF), ("2^32+orig", (1 << 32) + orig), ("2^31", 1 << 31),
                                   ("2^63", 1 << 63), ("2^64-1", (1 << 64) - 1), ("orig+1", orig + 1), ("5122", 5122), ("65537", 65537),
                                   ("2^62", 1 << 62), ("2^61+1", (1 << 61) + 1), ("2^63-1", (1 << 63) - 1)]:
                        req.append("int 8 %x" % v); slots.append(("%s.dim%d=%s" % (tagn, k, lab), "dims", o))
            nch = int(nd["nchunks"])
            hexfield(tagn + ".number_of_data_chunks", p + nf[20][0], 4,
                     [("0", b"0000"), ("1", b"0001"), ("2", b"0002"), ("-1", b"%04X" % max(nch - 1, 0)), ("+1", b"%04X" % (nch + 1)), ("FFFF", b"FFFF")])
            # link payloads
            if nd["type"] == "4c4b" and nch == 1:
                o = p + nf[21][0]
                dp = self.decode_ptr(d[o:o + 12])
                if dp is not None and dp + 16 < len(d):
                    o0 = p + nf[8][0]
                    dlen = int.from_bytes(d[o0:o0 + 8], "little") if not self.old else int(d[o0:o0 + 8], 16)
                    own = bytes.fromhex(nd["name"]).rstrip(b" ")
                    pay = d[dp + 16:dp + 16 + dlen]
                    for lab, v in [("through-itself", b">/" + own + b"/x"), ("no-separator", b"x" * dlen), ("nul-first", b"\0" + pay[1:]),
                                   ("only-separator", b">" * dlen), ("file-only", b"f" * max(dlen - 1, 0) + b">"),
                                   ("to-root", b">/"), ("double-slash", b">//"), ("itself", b">/" + own)]:
                        v = v[:dlen].ljust(dlen, b"\0") if len(v) != dlen else v
                        M.append(("%s.link_payload=%s" % (tagn, lab), "link", [(dp + 16, v)]))
                    # the text against every buffer that receives it: char[1025] / char[4097] of ADFI_chase_link, link_data[5122],
                    # the client's buffers (5200 in c13_adf, cgio_link_size + 1 in c13_io) -- lengths at and around each size,
                    # with the separator as written / missing / first / last / making each part exactly fit and exceed by one
                    if dlen >= 1100:
                        core = dlen == max_link
                        seps = [k for k in range(dlen) if pay[k:k + 1] == b">"]
                        dimenc = (lambda v: v.to_bytes(8, "little" if int(self.attr["fmt"]) == 76 else "big")) if not self.old else (lambda v: b"%08X" % v)
                        for L in sorted(set([1023, 1024, 1025, 1026, 4095, 4096, 4097, 4098, 5119, 5120, 5121, dlen - 1, dlen, dlen + 1])):
                            if L < 3 or L > dlen + 1:
                                continue
                            Lp = min(L, dlen)
                            nosep = [(dp + 16 + k, b"F") for k in seps if k < Lp]
                            arr = [("as-written", []), ("missing", nosep), ("first", nosep + [(dp + 16, b">")]),
                                   ("last", nosep + [(dp + 16 + Lp - 1, b">")])]
                            for lab, k in (("file-part-1024", 1024), ("file-part-1025", 1025), ("path-part-4096", Lp - 4097),
                                           ("path-part-4097", Lp - 4098)):
                                if 0 < k < Lp - 1:
                                    arr.append((lab, [x for x in nosep if x[0] != dp + 16 + k] + [(dp + 16 + k, b">")]))
                            for lab, pp in arr:
                                cls = "linkbuf-core" if core and L in (1025, 4097, 4098, dlen) else "linkbuf"
                                M.append(("%s.link_text[len=%d,sep=%s]" % (tagn, L, lab), cls, ([(o0, dimenc(L))] if L != dlen else []) + pp))
        # sub-node tables
        for t in self.snts:
            p = t["pos"]; tagn = "snt@%d" % p
            tagfield(tagn + ".SNTb", p); tagfield(tagn + ".snTE", t["end"])
            for lab, tgt in [("start", p), ("start+16", p + 16), ("before-start", max(p - 44, 0)), ("+5-entries", t["end"] + 5 * 44),
                             ("-1-entry", t["end"] - 44), ("+1000-entries", t["end"] + 1000 * 44), ("eof", len(d))]:
                want_ptr("%s.end->%s" % (tagn, lab), "structural", p + 4, tgt // 4096, tgt % 4096)
            for lab, b, o in self.ptr_classes(p + 4):
                want_ptr("%s.end->%s" % (tagn, lab), "pointer", p + 4, b, o)
        for c in self.children:
            tagn = "child@%d" % c["pos"]
            # node kinds the mid-level library reads with a reader that calls itself: their cycles are never sampled away
            lbl = d[c["target"] + nf[2][0]:c["target"] + nf[2][0] + 32].rstrip(b" ") if 0 <= c["target"] < len(d) else b""
            ccls = "cycle-core" if lbl in (b"Family_t", b"UserDefinedData_t") else "cycle"
            for lab, b, o in self.ptr_classes(c["pos"] + 32, c["parent"]):
                want_ptr("%s.location->%s" % (tagn, lab), ccls if lab in ("ancestor", "root") else "pointer", c["pos"] + 32, b, o)
            gp = parent_of.get(c["parent"])
            if gp is not None:
                want_ptr("%s.location->grandparent" % tagn, ccls, c["pos"] + 32, gp // 4096, gp % 4096)
            s = d[c["pos"]:c["pos"] + 32]
            for lab, v in [("blank", b" " * 32), ("slash", b"x/y" + s[3:]), ("nul-first", b"\0" + s[1:]), ("full32", b"W" * 32)]:
                M.append(("%s.name=%s" % (tagn, lab), "string", [(c["pos"], v)]))
        # data-chunk tables and data chunks
        for t in self.dcts:
            p = t["pos"]; tagn = "dct@%d" % p
            tagfield(tagn + ".DCtb", p); tagfield(tagn + ".dcTE", t["end"])
            for lab, tgt in [("start", p), ("+3-entries", t["end"] + 72), ("-1-entry", t["end"] - 24), ("eof", len(d)), ("+10000-entries", t["end"] + 240000)]:
                want_ptr("%s.end->%s" % (tagn, lab), "structural", p + 4, tgt // 4096, tgt % 4096)
            for k in range(t["n"]):
                es = p + 16 + 24 * k
                s0 = self.decode_ptr(d[es:es + 12])
                if s0 is None:
                    continue
                for lab, tgt in [("=start", s0), ("start+12", s0 + 12), ("start+15", s0 + 15), ("start+16", s0 + 16), ("before-start", max(s0 - 100, 0)),
                                 ("+1MB", s0 + (1 << 20))]:
                    want_ptr("%s.entry%d.end->%s" % (tagn, k, lab), "structural", es + 12, tgt // 4096, tgt % 4096)
                for lab, b, o in self.ptr_classes(es):
                    want_ptr("%s.entry%d.start->%s" % (tagn, k, lab), "pointer", es, b, o)
                if k > 0:
                    M.append(("%s.entry%d=entry0 (overlapping chunks)" % (tagn, k), "structural", [(es, d[p + 16:p + 40])]))
        for t in self.datas:
            p = t["pos"]; tagn = "data@%d" % p
            tagfield(tagn + ".DaTa", p); tagfield(tagn + ".dEnD", t["end"])
            for lab, tgt in [("start", p), ("start+16", p + 16), ("+1-byte", t["end"] + 1), ("-1-byte", t["end"] - 1), ("+4096", t["end"] + 4096),
                             ("eof", len(d)), ("before-start", max(p - 20, 0))]:
                want_ptr("%s.end->%s" % (tagn, lab), "structural", p + 4, tgt // 4096, tgt % 4096)
            for lab, b, o in self.ptr_classes(p + 4)[:4]:
                want_ptr("%s.end->%s" % (tagn, lab), "pointer", p + 4, b, o)
        if req:
            enc = self.enc_many(req)
            for (desc, cls, off), e in zip(slots, enc):
                M.append((desc, cls, [(off, e)]))
        # structural attacks that need several patches
        for nd in self.nodes:
            p = nd["pos"]
            if int(nd["nchunks"]) == 1 and nd["type"] == "4331" and int(nd["ndims"]) == 1:          # big C1 -> link
                o0 = p + nf[8][0]
                dlen = int.from_bytes(d[o0:o0 + 8], "little") if not self.old else int(d[o0:o0 + 8], 16)
                dp = self.decode_ptr(d[p + nf[21][0]:p + nf[21][0] + 12])
                if dp is not None and dlen >= 1100:
                    ty = (p + nf[6][0], b"LK".ljust(32, b" "))
                    M.append(("node@%d: C1[%d] retyped LK (payload > link_data[5122])" % (p, dlen), "structural", [ty]))
                    M.append(("node@%d: LK with %d-char file part" % (p, min(dlen - 4, 3000)), "structural",
                              [ty, (dp + 16, b"f" * min(dlen - 4, 3000) + b">/S")]))
                    M.append(("node@%d: LK with long path part" % p, "structural", [ty, (dp + 16, b">/" + b"p" * (dlen - 2))]))
            if int(nd["nchunks"]) == 1 and nd["type"] == "4934" and int(nd["ndims"]) == 1 and not self.old:   # I4 read as 8-byte ints
                o0 = p + nf[8][0]
                dlen = int.from_bytes(d[o0:o0 + 8], "little")
                if dlen >= 2:
                    M.append(("node@%d: header sizeof(int)=8, dim halved" % p, "structural",
                              [(fh[11][0], b"08"), (o0, (dlen // 2).to_bytes(8, "little" if int(self.attr["fmt"]) == 76 else "big"))]))
            # the same bytes described another way: a client that sizes its buffer from one description and reads by the other
            enc = (lambda v: v.to_bytes(8, "little" if int(self.attr["fmt"]) == 76 else "big")) if not self.old else (lambda v: b"%08X" % v)
            rd = (lambda o: int.from_bytes(d[o:o + 8], "little" if int(self.attr["fmt"]) == 76 else "big")) if not self.old else (lambda o: int(d[o:o + 8], 16))
            ty = bytes.fromhex(nd["type"])
            if int(nd["nchunks"]) == 1 and int(nd["ndims"]) == 1 and ty in (b"I4", b"I8", b"R4", b"R8", b"U4", b"U8", b"C1", b"B1"):
                o0 = p + nf[8][0]
                try:
                    dlen = rd(o0)
                except ValueError:
                    dlen = 0
                for k in sorted(set([2, 4, dlen])):
                    if 2 <= k <= dlen < (1 << 20) and dlen % k == 0:
                        M.append(("node@%d: array type, dim divided" % p, "arraytype",
                                  [(p + nf[6][0], (ty + b"[%d]" % k).ljust(32, b" ")), (o0, enc(dlen // k))]))
            if int(nd["ndims"]) == 2:
                o0, o1 = p + nf[8][0], p + nf[9][0]
                try:
                    a, b = rd(o0), rd(o1)
                except ValueError:
                    a = b = 0
                if a > 0 and b > 0:
                    if a != b:
                        M.append(("node@%d: dims swapped" % p, "dimshape-core", [(o0, enc(b)), (o1, enc(a))]))
                    M.append(("node@%d: dims flattened" % p, "dimshape", [(p + nf[7][0], b"01"), (o0, enc(a * b))]))
                    M.append(("node@%d: dims all in the first" % p, "dimshape", [(o0, enc(a * b)), (o1, enc(1))]))
                    M.append(("node@%d: dims all in the second" % p, "dimshape", [(o0, enc(1)), (o1, enc(a * b))]))
        return M

    def decode_ptr(self, b12):
        try:
            if self.old:
                return int(b12[:8], 16) * 4096 + int(b12[8:12], 16)
            fmt = int(self.attr["fmt"])
            if fmt == 76:
                return int.from_bytes(b12[:8], "little") * 4096 + int.from_bytes(b12[8:12], "little")
            return int.from_bytes(b12[:8], "big") * 4096 + int.from_bytes(b12[8:12], "big")
        except ValueError:
            return None


def apply_patches(data, patches):
    b = bytearray(data)
    for off, v in patches:
        if off < 0 or off >= len(b):
            continue
        v = v[:len(b) - off]
        b[off:off + len(v)] = v
    return bytes(b)


# ------------------------------------------------------------------ running one file on the implementation
class Impl:
    def __init__(self, ck, adf_exe, io_exe):
        self.ck, self.adf, self.io = ck, adf_exe, io_exe
        self.slow = 0

    def one(self, exe, args, cwd):
        """one watchdogged run; a timeout is confirmed with a long watchdog before it counts"""
        r = vlib.run_impl(exe, "", args=args, timeout=WATCHDOG, cwd=cwd)
        if r[1] == "timeout":
            r2 = vlib.run_impl(exe, "", args=args, timeout=WATCHDOG_CONFIRM, cwd=cwd)
            if r2[1] != "timeout":
                self.slow += 1
                return r2
        return r

    def run(self, idx, data, backend, cwd, walk=True, check=True, modes=None):
        """-> dict(mode -> (lines, outcome)), hash_ok"""
        path = os.path.join(cwd, "mut_%d.%s" % (idx, "adf" if backend == "adf" else "hdf"))
        open(path, "wb").write(data)
        h0 = hashlib.sha256(data).hexdigest()
        res = {}
        if walk:
            res["walk"] = self.one(self.adf, ["walk", path, str(FUEL)], cwd)
        for mode in modes or ((("check",) if check else ()) + ("cgio", "mll")):
            res[mode] = self.one(self.io, [mode, path], cwd)
        same = sha(path) == h0
        try:
            os.unlink(path)
        except OSError:
            pass
        return res, same

    def exe_args(self, mode, path):
        return (self.adf, ["walk", path, str(FUEL)]) if mode == "walk" else (self.io, [mode, path])


ABN = re.compile(r"!(OOBW\d+|OOBR\d+|Uninit|Stale|Abort|UB|Ext|OutOfFuel)")
CRASH_EXPECTED = {"OOBW1": ("asan:heap-buffer-overflow",), "OOBW2": ("asan:heap-buffer-overflow",),
                  "OOBW3": ("asan:stack-buffer-overflow", "ubsan:index", "asan:SEGV", "asan:stack-overflow", "signal:11"),
                  "OOBW4": ("asan:stack-buffer-overflow", "ubsan:index"),
                  "OOBR5": ("asan:stack-buffer-overflow", "asan:dynamic-stack-buffer-overflow"),
                  "OOBW6": ("asan:negative-size-param", "asan:SEGV", "signal:11"),
                  "OOBW7": ("asan:heap-buffer-overflow",), "OOBW8": ("asan:stack-buffer-overflow",),
                  "OOBW9": ("asan:stack-buffer-overflow",),
                  "OOBR1": ("asan:heap-buffer-overflow",), "OOBR2": ("asan:heap-buffer-overflow",),
                  "Abort": ("signal:6",), "UB": ("ubsan:",),
                  "OutOfFuel": ("asan:stack-overflow", "timeout", "signal:11", "asan:SEGV")}


def compare_walk(mlines, ilines, outcome):
    """-> (status, detail): same | predicted-crash | unmodelled | fuel | DIVERGE"""
    m, i = canon(mlines), canon(ilines)
    abn = None
    for k, l in enumerate(m):
        mm = ABN.search(l)
        if mm:
            abn = (k, mm.group(1)); break
    if abn is None:
        if "FUEL" in m:                       # both sides must stop at the same place
            k = m.index("FUEL")
            if i[:k + 1] == m[:k + 1] and outcome == "ok":
                return "fuel", None
            return "DIVERGE", {"at": k, "model": "FUEL", "impl": i[k] if k < len(i) else None, "outcome": outcome}
        if outcome == "ok" and m == i:
            return "same", None
        d = vlib.first_divergence(m, i)
        if d and d[2] and d[2].endswith(" err 25") and outcome == "ok":
            return "unmodelled", "malloc"          # MEMORY_ALLOCATION_FAILED: whether a huge malloc succeeds is not modelled
        return "DIVERGE", {"line": d[0] if d else None, "model": d[1] if d else None, "impl": d[2] if d else None, "outcome": outcome}
    k, what = abn
    if i[:k] != m[:k]:
        d = vlib.first_divergence(m[:k], i[:k])
        return "DIVERGE", {"line": d[0], "model": d[1], "impl": d[2], "outcome": outcome, "before": what}
    if what in ("Stale", "Uninit", "Ext"):
        return "unmodelled", what
    if what.startswith("OOBR") and outcome == "ok":
        # a load just outside a malloc(0) / into the slack ASan leaves is not always reported; what the C then does with the
        # bytes it loaded is not modelled
        return "oob-read-not-reported", what
    exp = CRASH_EXPECTED.get(what, ())
    if any(outcome.startswith(e) for e in exp):
        return "predicted-crash", what
    return "DIVERGE", {"model": what, "impl_outcome": outcome, "impl_line": i[k] if k < len(i) else None}


# ------------------------------------------------------------------ the check
def run(ck):
    big = ck.tier == "thorough"
    vlib.build_impl()
    adf_exe = vlib.build_harness("c13_adf", ["c13_adf.c"])
    io_exe = vlib.build_harness("c13_io", ["c13_io.c"])
    vlib.build_modelrun("c13")
    res = vlib.coq_check_properties("C13")
    broken = ck.proof_result(res, CHECKER)
    forb = vlib.coq_forbidden_scan("C13")
    ck.extra["forbidden_tokens"] = forb
    if forb:
        ck.violation({"broken_obligation": "forbidden tokens in the Coq development", "hits": forb}, nofail=True)
    ck.cov["trusted_base"] = [
        "Coq 8.16.1 kernel + vm_compute", "extraction (ExtrOcamlBasic only), OCaml 4.13.1, ocaml/zutil.ml, ocaml/eng_c13.ml",
        "harness/c13_adf.c (ADF-level walk, same order as AdfWalk.visit), harness/c13_io.c (cgio walk, MLL read, corpus maker)",
        "ASan/UBSan/assert as detectors of memory errors in everything the model does not cover; 10 s watchdog (60 s to confirm)",
        "hand transcription of ADF_internals.c / ADF_interface.c in both states (before / after notes/C13-fixes), validated by "
        "the correspondence below on every run against the state the library is found in",
        "libhdf5 1.10 (not modelled)"]
    ck.assumptions = ["little-endian 64-bit build (machine format 'L', os size 'B'), cgsize_t 64-bit", "files shorter than 2^63 bytes",
                      "a read-only file is not changed by another process during the walk (the model reads an immutable byte string)",
                      "malloc succeeds for the sizes the corpus produces (huge entries_for_sub_nodes: allocator behaviour not modelled)",
                      "data translation between number formats (files not written as IEEE_LITTLE_64), compound data types beyond the "
                      "token/size arithmetic, and other files reached through links are outside the model (outcome Ext)"]
    impl = Impl(ck, adf_exe, io_exe)
    findings = {}            # key -> replay dict (first / smallest witness)
    corr_broken = []
    stats = {"walk": {}, "oracle_runs": 0, "classes": {}, "files": {}}
    work = ck.work
    rng = ck.rng

    def note_finding(key, replay):
        if key not in findings or len(replay.get("file_b64", "")) < len(findings[key].get("file_b64", "")):
            findings[key] = replay

    def oracle(desc, backend, base, data, res, same, cwd, idx, extra=None, force_key=None):
        """the property itself: every run is a clean return and the file is unchanged"""
        bad = False
        for mode, (lines, outcome) in res.items():
            stats["oracle_runs"] += 1
            clean = outcome == "ok" and not any(l == "libexit" for l in lines)
            if clean:
                continue
            bad = True
            path = os.path.join(cwd, "crash_%d_%s.%s" % (idx, mode, "adf" if backend == "adf" else "hdf"))
            open(path, "wb").write(data)
            exe, args = impl.exe_args(mode, path)
            mv = ((extra or {}).get("model_verdict") or [""])[0]
            mv = ABN.search(mv).group(1) if ABN.search(mv) else None
            if outcome == "timeout" or force_key:
                frames, umsg = ([], None) if outcome == "timeout" else crash_report(exe, args, cwd)
            else:
                frames, umsg = crash_report_cached((backend, mode, outcome, field_class(desc), mv), exe, args, cwd)
            key = root_cause(backend, mode, outcome, lines, frames, umsg, field_class(desc), mv)
            if force_key and key not in SIBLING_KEYS:
                key = force_key                  # a stored witness names its defect; a sibling defect it also reaches keeps its own name
            os.unlink(path)
            rp = {"what": desc, "base_file": base, "backend": backend, "mode": mode, "outcome": outcome, "last_lines": lines[-3:],
                  "library_frames": lib_frames(frames)[:8],
                  "oracle": "clean return from every read-only operation (no asan/ubsan/signal/timeout/exit)",
                  "file_b64": base64.b64encode(data).decode(), "file_len": len(data),
                  "replay_hint": "base64 -d > f ; .build/h/%s %s" % (os.path.basename(exe), " ".join(a if a != path else "f" for a in args))}
            if umsg:
                rp["ubsan"] = umsg[:160]
            if extra:
                rp.update(extra)
            note_finding(key, rp)
        if not same:
            bad = True
            note_finding("%s:file-modified-by-read-only-open" % backend,
                         {"what": desc, "base_file": base, "backend": backend, "oracle": "SHA-256 unchanged after read-only operations",
                          "file_b64": base64.b64encode(data).decode()})
        return bad

    # ---- 1. decoder level: hex and ASCII disk pointers, one process each side
    alpha = [0x2f, 0x30, 0x39, 0x3a, 0x40, 0x41, 0x46, 0x47, 0x60, 0x61, 0x66, 0x67, 0x20, 0x00, 0x80, 0xff, 0x35, 0x42, 0x63]
    hexcases = []
    for n in range(0, 10):
        for _ in range(40 if big else 14):
            s = bytes(rng.choice(alpha) if rng.random() < 0.25 else rng.choice(b"0123456789ABCDEFabcdef") for _ in range(n))
            mn, mx = rng.choice([(0, 0xFFFFFFFF), (0, 255), (0, 12), (0, 4096), (0, 65535), (5, 3), (16, 0xFFFF), (0, 0)])
            hexcases.append("hex %x %x %s" % (mn, mx, s.hex() if s else "-"))
    for _ in range(200 if big else 60):
        s = bytes(rng.choice(alpha) if rng.random() < 0.08 else rng.choice(b"0123456789ABCDEFabcdef") for _ in range(12))
        if rng.random() < 0.5:
            s = s[:8] + b"%04X" % rng.choice([0, 1, 4095, 4096, 4097, 0xFFFF])
        hexcases.append("dp " + s.hex())
    script = "\n".join(hexcases) + "\n"
    ml = model(script)
    il, outcome = vlib.run_impl(adf_exe, script, args=["dec"])
    ck.cov["traces_validated_against_impl"] += 1
    for c in hexcases:
        ck.case("dec:" + c if ("err" not in c) else None)
    if outcome != "ok" or ml != il:
        d = vlib.first_divergence(ml, il)
        corr_broken.append({"level": "decoder", "case": hexcases[d[0]] if d and d[0] < len(hexcases) else None, "model": d[1] if d else None,
                            "impl": d[2] if d else None, "outcome": outcome})
    ck.cov["samples"].append({"level": "decoder", "cases": hexcases[:4], "model": ml[:4]})
    stats["t_decoder"] = round(time.time() - ck.t0, 1)

    # ---- 2. corpus of valid files, made by the harness itself
    cdir = os.path.join(work, "corpus")
    os.makedirs(cdir, exist_ok=True)
    lines, outcome = vlib.run_impl(io_exe, "", args=["mkcorpus", cdir], timeout=120)
    if outcome != "ok" or "done" not in lines:
        raise vlib.Infra("corpus generation failed: %s %s" % (outcome, lines[-5:]))
    made = [l.split()[1] for l in lines if l.startswith("made ")]          # only what the harness just wrote
    adf_names = sorted(f for f in made if f.endswith(".adf"))
    hdf_names = sorted(f for f in made if f.endswith(".hdf"))

    # ---- 3. the witness files of corpus/C13: which state is the library in?  (the run-time switch)
    index = json.load(open(os.path.join(CORPUS, "index.json")))
    wdir = os.path.join(work, "wit"); os.makedirs(wdir, exist_ok=True)
    wdata = {}
    for w in index:
        wdata[w["file"]] = open(os.path.join(CORPUS, w["file"]), "rb").read()
        open(os.path.join(wdir, w["file"]), "wb").write(wdata[w["file"]])
    for n in adf_names + hdf_names:   # witnesses derived from m_unstr.adf / h_small.hdf reach other files through links
        open(os.path.join(wdir, n), "wb").write(open(os.path.join(cdir, n), "rb").read())
    # the theorems speak about AdfWalk.wit_*: the corpus files must be those byte strings
    mw = [w for w in index if w["model_witness"]]
    wl = model("".join("witness %s\n" % w["model_witness"] for w in mw))
    for w, l in zip(mw, wl):
        if bytes.fromhex(l.split()[1]) != wdata[w["file"]]:
            corr_broken.append({"level": "witness", "witness": w["file"], "detail": "corpus file differs from AdfWalk.wit_%s" % w["model_witness"]})

    def wfuel(w):
        return 30 if w["model_witness"] == "cycle" else FUEL

    iwalk = {}
    for w in mw:
        iwalk[w["file"]] = vlib.run_impl(adf_exe, "", args=["walk", os.path.join(wdir, w["file"]), str(wfuel(w))], timeout=WATCHDOG, cwd=wdir)

    def predict(bits, ws):
        out = blocks(model("".join("file %d %s\n" % (wfuel(w), wdata[w["file"]].hex()) for w in ws), bits=bits))
        return dict((w["file"], b) for w, b in zip(ws, out))

    state, how = {}, {}
    # a switch whose witness is masked by another repair is looked at after that one
    for fl in ["snt", "dct", "link", "lfile", "lpath", "lnosep", "nest", "fmt", "tag", "rtype", "dtov", "dim", "sizes", "rad", "short", "ver"]:
        ws = [w for w in mw if w["flag"] == fl]
        s0 = dict(state); s0[fl] = False
        s1 = dict(state); s1[fl] = True
        p0, p1 = predict(cfgbits(s0), ws), predict(cfgbits(s1), ws)
        verdict = None
        for w in ws:
            f = w["file"]
            if canon(p0[f]) == canon(p1[f]):
                continue                                     # this witness does not tell the two states apart (masked)
            il, outcome = iwalk[f]
            st1, _ = compare_walk(p1[f], il, outcome)
            st0, _ = compare_walk(p0[f], il, outcome)
            if st1 in ("same", "fuel"):
                v = True
            elif st0 != "DIVERGE":
                v = False
            else:
                corr_broken.append({"level": "switch", "witness": f, "flag": fl, "impl_outcome": outcome, "impl_tail": il[-3:],
                                    "legacy_model_tail": p0[f][-3:], "repaired_model_tail": p1[f][-3:]})
                v = False
            if verdict is None or v is False:
                verdict = v
        if verdict is None:
            state[fl], how[fl] = True, "repaired (not observable with the other switches as found)"
        else:
            state[fl], how[fl] = verdict, "repaired" if verdict else "legacy"
    _CFG["bits"] = cfgbits(state)
    ck.extra["library_state"] = dict((FLAG_FIX[f] + "-" + f, how[f]) for f in FLAGS)
    ck.extra["model_state_compared"] = _CFG["bits"]

    # every witness: correspondence in the state found, and the oracle in all modes
    pm = predict(_CFG["bits"], mw)
    wit_report = {}
    for k, w in enumerate(index):
        f = w["file"]; data = wdata[f]
        rep = {"fix": w["fix"], "key": w["key"]}
        if w["model_witness"]:
            il, outcome = iwalk[f]
            st, detail = compare_walk(pm[f], il, outcome)
            rep.update({"model_tail": pm[f][-2:], "impl_outcome": outcome, "status": st})
            ck.case("witness:" + f, sample={"level": "witness", "name": f, "model_tail": pm[f][-3:], "impl_outcome": outcome})
            ck.cov["traces_validated_against_impl"] += 1
            if st == "DIVERGE":
                corr_broken.append({"level": "witness", "witness": f, "detail": detail})
        wb = w.get("backend", "adf")
        res2, same = impl.run(9000 + k, data, wb, wdir, walk=bool(w["model_witness"]) and w["model_witness"] != "cycle")
        if w["model_witness"] == "cycle":
            res2.pop("walk", None)
        if f == "wit_oobw.adf":
            # the section-6 #12 defect exactly as stated: open read-only, ADF_Get_Node_ID(root, "B")
            res2["probe"] = vlib.run_impl(adf_exe, "", args=["probe", os.path.join(wdir, f), "B"], timeout=WATCHDOG, cwd=wdir)
        bad = oracle("witness " + f + ": " + w["what"], wb, f, data, dict((m, r) for m, r in res2.items() if m != "probe"), same, wdir,
                     9000 + k, {"witness": f, "repair": "notes/C13-fixes/%s-*.diff" % w["fix"] if w["fix"] else None}, force_key=w["key"])
        if "probe" in res2 and res2["probe"][1] != "ok":
            bad = True
            note_finding(w["key"], {"what": w["what"] + "; open read-only; ADF_Get_Node_ID(root, \"B\")", "outcome": res2["probe"][1],
                                    "witness": f, "file_b64": base64.b64encode(data).decode(),
                                    "replay_hint": "base64 -d > f.adf ; .build/h/c13_adf probe f.adf B"})
        if "history" in w["fails_on_unrepaired"]:
            # history independence: the walk of this file after another file was read must be the walk of this file
            l1, o1 = vlib.run_impl(adf_exe, "", args=["walk", os.path.join(wdir, f), str(FUEL)], timeout=WATCHDOG, cwd=wdir)
            l2, o2 = vlib.run_impl(adf_exe, "", args=["walk2", os.path.join(wdir, "wit_valid.adf"), os.path.join(wdir, f), str(FUEL)],
                                   timeout=WATCHDOG, cwd=wdir)
            if (l1, o1) != (l2, o2):
                bad = True
                note_finding(w["key"], {"what": w["what"], "witness": f, "oracle": "what the library reports about a file does not depend on "
                                        "the files read before (walk2 wit_valid.adf FILE = walk FILE)", "alone": l1[:4], "after_valid_file": l2[:4],
                                        "file_b64": base64.b64encode(data).decode(),
                                        "replay_hint": "base64 -d > f.adf ; .build/h/c13_adf walk2 corpus/C13/wit_valid.adf f.adf 400"})
        rep["oracle"] = "FAILS" if bad else "holds"
        wit_report[f] = rep
        if w["key"] is None and bad:
            corr_broken.append({"level": "witness", "witness": f, "detail": "a file that must be handled cleanly is not"})
    ck.extra["witness_replay"] = wit_report
    stats["t_witness"] = round(time.time() - ck.t0, 1)

    # ---- 4. ADF: truncations, model-guided field corruptions, structural attacks
    quota = 780 if big else 170           # field mutants per file (a seeded sample; every class kept represented)
    tasks = []                            # (file, idx, desc, cls, data, model script line)
    files = {}
    for name in adf_names:
        data = open(os.path.join(cdir, name), "rb").read()
        t0 = time.time()
        af = AdfFile(name, data)
        files[name] = af
        # the valid file itself: the two sides must agree line by line
        il, outcome = vlib.run_impl(adf_exe, "", args=["walk", os.path.join(cdir, name), str(FUEL)], timeout=WATCHDOG, cwd=cdir)
        st, detail = compare_walk(af.base_walk, il, outcome)
        ck.case("base:" + name, sample={"level": "walk", "file": name, "model_head": af.base_walk[:6]})
        ck.cov["traces_validated_against_impl"] += 1
        if st != "same":
            corr_broken.append({"level": "walk", "file": name, "mutant": "(none: the valid file)", "status": st, "detail": detail})
        muts = af.mutants()
        n_all = len(muts)
        # truncations: every length (thorough, files <= 8 KB), else a dense seeded sample with all structure boundaries
        eof = max([n["pos"] + 246 for n in af.nodes] + [t["end"] + 4 for t in af.snts + af.dcts + af.datas] + [266])
        marks = set([0, 1, 4, 24, 31, 32, 33, 101, 102, 185, 186, 187, 265, 266, eof - 1, eof, len(data) - 1])
        for s in af.nodes:
            marks.update([s["pos"], s["pos"] + 1, s["pos"] + 245, s["pos"] + 246, s["pos"] + 100])
        for s in af.snts + af.dcts + af.datas:
            marks.update([s["pos"] + 3, s["pos"] + 16, s["end"], s["end"] + 3, s["end"] + 4])
        for b in range(4096, len(data), 4096):
            marks.update([b - 1, b, b + 1])
        lens = sorted(m for m in marks if 0 <= m <= len(data))
        if big:
            # every length of the two headers, every structure boundary +-2, and a seeded sample of the rest
            lens += list(range(0, min(520, len(data)) + 1))
            for m in list(marks):
                lens += [x for x in (m - 2, m - 1, m + 1, m + 2) if 0 <= x <= len(data)]
            lens += [rng.randrange(0, min(eof + 40, len(data))) for _ in range(120)]
        else:
            if len(lens) > 40:
                lens = sorted(set(rng.sample(lens, 40) + [0, 31, 32, 101, 102, 185, 186, 266, eof - 1]))
            lens += [rng.randrange(0, min(eof + 40, len(data))) for _ in range(12)]
        tr = [("truncate to %d" % L, "truncation", L) for L in sorted(set(lens))]
        if quota is not None and len(muts) > quota:
            by = {}
            for m in muts:
                by.setdefault(m[1], []).append(m)
            keep = []
            for cls, lst in sorted(by.items()):
                share = max(40 if big else 8, int(quota * len(lst) / len(muts)))
                if cls.endswith("-core") or (big and cls == "linkbuf"):
                    share = len(lst)                      # the boundary grid of the largest link: never sampled away
                keep += lst if len(lst) <= share else rng.sample(lst, share)
            muts = keep
        stats["files"][name] = {"len": len(data), "nodes": len(af.nodes), "field_mutants": len(muts), "field_mutants_generated": n_all,
                                "truncations": len(tr),
                                "model_layout_s": round(time.time() - t0, 2)}
        for desc, cls, L in tr:
            tasks.append((name, len(tasks), desc, cls, data[:L], "trunc %d %d" % (FUEL, L), "tcheck %d" % L, True))
        for desc, cls, patches in muts:
            patches = [(o, v) for o, v in patches if 0 <= o < len(data) and v]
            if not patches:
                continue
            ps = ",".join("%d:%s" % (o, v[:len(data) - o].hex()) for o, v in patches)
            # cgio_check_file looks at the first 32 bytes (and for an HDF5 signature): in quick it runs when those change
            need_check = big or any(o < 64 for o, v in patches)
            tasks.append((name, len(tasks), desc, cls, apply_patches(data, patches), "mutn %d %s" % (FUEL, ps), "mcheckn " + ps, need_check))

    stats["t_generated"] = round(time.time() - ck.t0, 1)
    # model side: one process per base file, in the pool
    def model_job(name):
        mine = [t for t in tasks if t[0] == name]
        script = "base %s\n" % files[name].data.hex() + "".join(t[5] + "\n" + t[6] + "\n" for t in mine)
        try:
            out = model(script, timeout=300)
        except Exception as e:
            # the engine did not finish (a state of the library in which the modelled reader runs away on some mutant: the legacy
            # variants follow counts of 2^31): one mutant per process, so that only the mutants the model cannot evaluate stay
            # without a model verdict -- they are reported as a broken correspondence below, never skipped silently
            stats["model_job_fallback"] = stats.get("model_job_fallback", 0) + 1
            res = {}
            for t in mine:
                try:
                    o1 = model("base %s\n%s\n%s\n" % (files[name].data.hex(), t[5], t[6]), timeout=30)
                except Exception:
                    stats["model_no_verdict"] = stats.get("model_no_verdict", 0) + 1
                    continue
                cl = [l for l in o1 if l.startswith("c ")]
                if cl and "END" in o1:
                    k = len(o1) - 1 - o1[::-1].index(cl[-1])
                    res[t[1]] = (o1[:k], o1[k])
            return res
        res, cur = {}, []
        it = iter(mine)
        t = next(it, None)
        for l in out:
            if t is None:
                break
            if l.startswith("c ") and cur and cur[-1] == "END":
                res[t[1]] = (cur, l)
                cur = []; t = next(it, None)
            else:
                cur.append(l)
        return res

    def impl_job(t):
        name, idx, desc, cls, data = t[:5]
        return idx, impl.run(idx, data, "adf", cdir, check=t[7])

    t0 = time.time()
    with ThreadPoolExecutor(WORKERS) as ex:
        mfut = [ex.submit(model_job, n) for n in adf_names]
        ifut = [ex.submit(impl_job, t) for t in tasks]
        mres = {}
        for f in mfut:
            mres.update(f.result())
        ires = dict(f.result() for f in ifut)
    stats["adf_phase_s"] = round(time.time() - t0, 1)

    for t in tasks:
        name, idx, desc, cls, data = t[:5]
        (res, same) = ires[idx]
        stats["classes"][cls] = stats["classes"].get(cls, 0) + 1
        if idx not in mres:
            corr_broken.append({"level": "walk", "file": name, "mutant": desc, "detail": "no model output"}); continue
        mwalk, mcheck = mres[idx]
        il, outcome = res["walk"]
        st, detail = compare_walk(mwalk, il, outcome)
        stats["walk"][st] = stats["walk"].get(st, 0) + 1
        # check_file verdict
        if "check" in res:
            cl = res["check"][0]
            impl_adf = bool(cl) and cl[-1].startswith("check rc=0 type=1")
            if res["check"][1] == "ok" and (mcheck == "c 1") != impl_adf and mcheck != "c 2":
                st, detail = "DIVERGE", {"check_file": {"model": mcheck, "impl": cl[-1:]}}
        rejected = any(" err " in l or l.startswith("open err") for l in mwalk)
        ck.case("%s|%s" % (name, desc) if (rejected or ABN.search("\n".join(mwalk))) else None,
                sample={"level": "walk", "file": name, "mutant": desc, "model_verdict": [l for l in mwalk if "err" in l or "!" in l][:2],
                        "impl_outcome": outcome})
        ck.cov["traces_validated_against_impl"] += 1
        bad = oracle(desc, "adf", name, data, res, same, cdir, idx, {"class": cls, "model_verdict": [l for l in mwalk if "!" in l][:1]})
        if st == "DIVERGE" and not bad:
            corr_broken.append({"level": "walk", "file": name, "mutant": desc, "class": cls, "detail": detail,
                                "file_b64": base64.b64encode(data).decode() if len(data) <= 8192 else None})
        elif st == "DIVERGE" and bad and outcome == "ok":
            # the walk itself was clean on the implementation but differs from the model
            corr_broken.append({"level": "walk", "file": name, "mutant": desc, "class": cls, "detail": detail})

    stats["t_adf_compared"] = round(time.time() - ck.t0, 1)
    # ---- 5. HDF5: truncations and corruptions around marker values (oracle only)
    hd = os.path.join(work, "hdf"); os.makedirs(hd, exist_ok=True)
    for n in hdf_names:           # linked files must sit next to the mutants
        open(os.path.join(hd, n), "wb").write(open(os.path.join(cdir, n), "rb").read())
    open(os.path.join(hd, "t_small.adf"), "wb").write(open(os.path.join(cdir, "t_small.adf"), "rb").read())
    htasks = []
    markers = [b"MarkNodeAAAA", b"MarkLabelAAAA", b"MarkNodeBBBB", b"MarkLabelBBBB", b"MarkDataCCCC", b"MarkLinkDDDD", b"MarkLinkEEEE",
               b"MarkBaseFFFF", b"MarkZoneGGGG", b"\x01\x00\x5a\x5a\x02\x00\x5a\x5a", b"h_small2.hdf", b"CGNSBase_t", b"Zone_t", b"DataArray_t",
               b"label", b"type", b"name", b" data", b" link", b" path", b" file", b"I4", b"R8", b"C1", b"LK", b"MT"]
    for name in hdf_names:
        data = open(os.path.join(cdir, name), "rb").read()
        nt = (300 if big else 14)
        lens = sorted(set([0, 1, 7, 8, 9, 95, 96, 511, 512, 1024, 2048, len(data) - 1] + [rng.randrange(0, len(data)) for _ in range(nt)]))
        for L in lens:
            if L <= len(data):
                htasks.append((name, len(htasks), "truncate to %d" % L, "hdf5-truncation", data[:L]))
        sites = []
        for mk in markers:
            start = 0
            while True:
                k = data.find(mk, start)
                if k < 0:
                    break
                sites.append((mk, k)); start = k + 1
        rng.shuffle(sites)
        budget = 1500 if big else 60
        for mk, k in sites:
            if budget <= 0:
                break
            offs = list(range(max(k - 24, 0), min(k + len(mk) + 16, len(data))))
            for off in rng.sample(offs, min(len(offs), 4 if not big else 20)):
                v = rng.choice([0x00, 0xFF, data[off] ^ 0x01, data[off] ^ 0x80, 0x2f, data[off] + 1 & 0xFF])
                if v == data[off]:
                    continue
                b = bytearray(data); b[off] = v
                htasks.append((name, len(htasks), "byte %d (near %r at %d) := 0x%02x" % (off, mk.decode("latin1"), k, v), "hdf5-attribute", bytes(b)))
                budget -= 1

    # string attributes of every length around the buffers that receive them (char[3] type, char[33] name / label, ...): the
    # harness rewrites the attribute with raw HDF5 calls, the library then reads the file
    edge = [1, 2, 3, 4, 31, 32, 33, 34, 63, 64, 65, 255, 256, 257, 300]
    hmade = {}
    for name, grp, lens in (("h_small.hdf", "/MarkNodeAAAA", range(1, 301) if big else edge),
                            ("h_mll.hdf", "/MarkBaseFFFF/MarkZoneGGGG", edge if big else [3, 33, 65, 300])):
        if name not in hdf_names:
            continue
        for attr in ("name", "label", "type", "flags"):
            for L in lens:
                htasks.append((name, len(htasks), "h5attr.%s=%d characters at %s" % (attr, L, grp), "hdf5-string-attribute",
                               (name, grp, attr, L), None if L in edge else ("cgio",)))

    def himpl_job(t):
        data = t[4]
        if isinstance(data, tuple):
            name, grp, attr, L = data
            tmp = os.path.join(hd, "attr_%d.hdf" % t[1])
            open(tmp, "wb").write(open(os.path.join(cdir, name), "rb").read())
            l, o = vlib.run_impl(io_exe, "", args=["h5attr", tmp, grp, attr, str(L)], timeout=WATCHDOG, cwd=hd)
            data = open(tmp, "rb").read()
            os.unlink(tmp)
            if o != "ok" or "h5attr done" not in l:
                raise vlib.Infra("h5attr failed: %s %s" % (o, l[-2:]))
            hmade[t[1]] = data
        return t[1], impl.run(100000 + t[1], data, "hdf5", hd, walk=False, modes=t[5] if len(t) > 5 else None)

    t0 = time.time()
    with ThreadPoolExecutor(WORKERS) as ex:
        hres = dict(f.result() for f in [ex.submit(himpl_job, t) for t in htasks])
    stats["hdf5_phase_s"] = round(time.time() - t0, 1)
    for t in htasks:
        name, idx, desc, cls, data = t[:5]
        data = hmade.get(idx, data)
        res, same = hres[idx]
        stats["classes"][cls] = stats["classes"].get(cls, 0) + 1
        rej = any(any(x.startswith("open err") or x.startswith("e ") or "rc=" in x and "rc=0" not in x for x in lines) for lines, _ in res.values())
        ck.case("%s|%s" % (name, desc) if rej else None, sample=None)
        oracle(desc, "hdf5", name, data, res, same, hd, 100000 + idx, {"class": cls})

    # ---- 6. verdicts
    for key in sorted(findings):
        ck.finding(key, findings[key])
    stats["slow_but_terminating_runs"] = impl.slow
    ck.extra["finding_keys_seen"] = sorted(findings)
    ck.extra["input_distribution"] = stats
    ck.extra["correspondence_divergences"] = len(corr_broken)
    ck.extra["divergence_samples"] = [dict((k, v) for k, v in c.items() if k != "file_b64") for c in corr_broken[:12]]
    if (corr_broken or broken) and not ck.violations:
        ck.violation({"broken_obligations": broken, "broken_correspondence": corr_broken[:4], "count": len(corr_broken),
                      "note": "the model (coq/AdfCodec.v, AdfWalk.v, state %s) and the implementation disagree, or an obligation of "
                              "Properties_C13.v no longer checks, but every file explored still satisfies the property's oracle "
                              "beyond the listed known findings" % _CFG["bits"]}, nofail=True)
    ck.cov["rule"] = ("decoder level: seeded hex / ASCII-disk-pointer strings over the boundary alphabet (/ 0 9 : @ A F G ` a f g, blank, NUL, "
                      "high bit), lengths 0..9; witness level: every file of corpus/C13 (one per defect ever found) in all modes -- they also "
                      "decide which state of the model is compared; file level: for each of the harness-made valid ADF files (cgio trees, "
                      "links, multi-chunk data, legacy pointer format, two MLL files) structure-boundary truncation lengths plus a seeded "
                      "sample (thorough: every length of the first 520 bytes, every boundary +-2), every field of every structure located by "
                      "the model's decoders set to each boundary class (a per-class seeded sample: quick ~170, thorough ~900 per file; "
                      "coverage.input_distribution.files gives the totals), structural attacks assembled with the model's encoders; "
                      "HDF5: seeded truncations and byte corruptions near marker values. Each mutant: model walk vs ADF-level walk "
                      "(correspondence) and cgio_check_file / cgio walk / cg_open+MLL read in separate watchdogged processes (oracle). "
                      "non-trivial = the model rejects something or predicts a forbidden outcome on it (ADF), or some API call returns an "
                      "error (HDF5); distinct by (base file, mutation)")


def replay(ck, path):
    r = json.load(open(path))
    vlib.build_impl()
    adf_exe = vlib.build_harness("c13_adf", ["c13_adf.c"])
    io_exe = vlib.build_harness("c13_io", ["c13_io.c"])
    if "file_b64" not in r or not r.get("file_b64"):
        print("replay names a broken obligation/correspondence, no single input to run:", json.dumps(r)[:800]); return 1
    data = base64.b64decode(r["file_b64"])
    backend = r.get("backend", "adf")
    f = os.path.join(ck.work, "replay." + ("adf" if backend == "adf" else "hdf"))
    open(f, "wb").write(data)
    # files that reach other files through links need them next to them
    cdir = os.path.join(ck.work, "corpus"); os.makedirs(cdir, exist_ok=True)
    vlib.run_impl(io_exe, "", args=["mkcorpus", cdir], timeout=120)
    for n in os.listdir(cdir):
        if not os.path.exists(os.path.join(ck.work, n)):
            open(os.path.join(ck.work, n), "wb").write(open(os.path.join(cdir, n), "rb").read())
    fails = False
    hint = r.get("replay_hint", "")
    if " probe " in hint:
        runs = [("probe", adf_exe, ["probe", f, "B"])]
    elif " walk2 " in hint:
        l1 = vlib.run_impl(adf_exe, "", args=["walk", f, str(FUEL)], timeout=WATCHDOG, cwd=ck.work)
        l2 = vlib.run_impl(adf_exe, "", args=["walk2", os.path.join(CORPUS, "wit_valid.adf"), f, str(FUEL)], timeout=WATCHDOG, cwd=ck.work)
        bad = l1 != l2
        print("replay: walk alone %s / after wit_valid.adf %s%s" % (l1[0][:3], l2[0][:3], "  (property FAILS)" if bad else ""))
        print("replay: property %s on this input" % ("FAILS" if bad else "holds"))
        return 1 if bad else 0
    else:
        runs = [("walk", adf_exe, ["walk", f, str(FUEL)])] if backend == "adf" else []
        runs += [(m, io_exe, [m, f]) for m in ("check", "cgio", "mll")]
    for mode, exe, args in runs:
        lines, outcome = vlib.run_impl(exe, "", args=args, timeout=WATCHDOG_CONFIRM, cwd=ck.work)
        bad = outcome != "ok" or "libexit" in lines
        print("replay: %s -> %s%s" % (mode, outcome, "  (property FAILS)" if bad else ""))
        fails = fails or bad
    if sha(f) != hashlib.sha256(data).hexdigest():
        print("replay: file modified by read-only operations (property FAILS)"); fails = True
    print("replay: property %s on this input" % ("FAILS" if fails else "holds"))
    return 1 if fails else 0
