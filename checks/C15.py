"""C15 -- compacting a file never loses the data, whenever it is interrupted.

Proof side : coq/Properties_C15.v (Compact.v model of a file system with atomic path-level steps under process-kill
             semantics; generic theorem C15_crash_safe for ANY step list accepted by the decidable predicate
             safe_order and EVERY crash prefix; C15_code_is_safe by vm_compute over the table regenerated from
             rewrite_file / cgio_open_file / cgio_compress_file / cg_close / cgnscompress main).
Tie T      : translators/c15_rewrite.py -> coq/Gen_C15.v on every run (unclassifiable statements -> GUnparsed).
Tie C      : the path-level system-call sequence of real compaction runs (harness/interpose.c trace), abstracted,
             must equal the sequence the extracted model predicts for the same source; at every kill point the
             observed state of the two paths must agree with the model's abstract state.
Oracle     : (independent of the model) kill the process at EVERY mutating system call of a compaction run
             (interposer, exit_group before the call), then open the original path and the temporary sibling with
             the library in a fresh process and require at least one to be complete and logically equal (cgio
             walk: names, labels, types, dimensions, data hashes, links) to the content before compaction; after
             an uninterrupted run the original path holds the content, no *.temp remains, a symbolic link is
             still the same link.

This module also hosts the interposer helpers shared with checks/C14.py.
"""
import concurrent.futures, hashlib, json, os, shutil, subprocess, sys
import vlib

sys.path.insert(0, os.path.join(vlib.ROOT, "translators"))

WORKERS = 8
CHECKER = "translators/c15_rewrite.py -> coq/Gen_C15.v ; make -C coq Properties_C15.vo deps (coqc 8.16.1) ; coqc Properties_C15.v (Print Assumptions)"


# ----------------------------------------------------------------------------- interposer (shared with C14)
def build_interposer():
    out = os.path.join(vlib.HDIR, "interpose.so")
    os.makedirs(vlib.HDIR, exist_ok=True)
    src = os.path.join(vlib.ROOT, "harness", "interpose.c")
    with vlib.Lock("h_interpose" + vlib._TAG):
        if not os.path.exists(out) or os.path.getmtime(out) < os.path.getmtime(src):
            rc, o = vlib.sh(["cc", "-O2", "-fPIC", "-shared", "-w", "-o", out + ".tmp", src, "-ldl"])
            if rc != 0:
                raise vlib.Infra("interposer does not compile:\n" + o[-3000:])
            os.replace(out + ".tmp", out)
    return out


_LIBASAN = None


def preload(ipso):
    global _LIBASAN
    if _LIBASAN is None:
        _LIBASAN = subprocess.run(["gcc", "-print-file-name=libasan.so"], stdout=subprocess.PIPE, text=True).stdout.strip()
        _LIBASAN = os.path.realpath(_LIBASAN)
    return _LIBASAN + ":" + ipso


def run_ip(ipso, argv, ipdir, cwd=None, trace=None, kill=None, fault=None, armed=False, timeout=120, stdin=""):
    """run argv under the interposer; returns (stdout lines, outcome, stderr tail).  outcome as vlib.run_impl plus
    'killed' for the interposer's exit code 86."""
    e = dict(os.environ); e.update(vlib.ASAN_ENV)
    e["LD_PRELOAD"] = preload(ipso)
    e["VERIF_IP_DIR"] = ipdir if ipdir.endswith("/") else ipdir + "/"
    for k in ("VERIF_IP_TRACE", "VERIF_IP_KILL", "VERIF_IP_FAULT", "VERIF_IP_ARMED"):
        e.pop(k, None)
    if trace:
        e["VERIF_IP_TRACE"] = trace
    if kill is not None:
        e["VERIF_IP_KILL"] = str(kill)
    if fault:
        e["VERIF_IP_FAULT"] = fault
    if armed:
        e["VERIF_IP_ARMED"] = "1"
    try:
        p = subprocess.run(argv, input=stdin, stdout=subprocess.PIPE, stderr=subprocess.PIPE, text=True, errors="replace",
                           timeout=timeout, cwd=cwd, env=e)
    except subprocess.TimeoutExpired as t:
        so = t.stdout.decode(errors="replace") if isinstance(t.stdout, bytes) else (t.stdout or "")
        return so.split("\n"), "timeout", ""
    lines = p.stdout.split("\n")
    if lines and lines[-1] == "":
        lines.pop()
    return lines, classify(p.returncode, p.stderr), p.stderr[-1500:]


def classify(rc, stderr):
    import re
    if rc == 0:
        return "ok"
    if rc == 86:
        return "killed"
    if "AddressSanitizer" in stderr or rc == 99:
        m = re.search(r"ERROR: AddressSanitizer: (\S+)", stderr)
        fn = re.search(r"#\d+ 0x[0-9a-f]+ in (\w+)", stderr)
        return "asan:%s@%s" % (m.group(1) if m else "?", fn.group(1) if fn else "?")
    if "runtime error" in stderr or rc == 98:
        m = re.search(r"runtime error: ([^\n]*)", stderr)
        return "ubsan:%s" % (m.group(1)[:80] if m else "?")
    if rc < 0:
        return "signal:%d" % (-rc)
    return "exit:%d" % rc


def read_trace(path):
    """-> list of dict(f, m, name, path, a1, a2, ret, err, inj)"""
    out = []
    if not os.path.exists(path):
        return out
    for l in open(path, errors="replace"):
        t = l.split()
        if len(t) < 8 or t[6] != "=":
            continue
        d = {"f": None if t[0] == "-" else int(t[0]), "m": None if t[1] == "-" else int(t[1]), "name": t[2], "path": t[3],
             "a1": int(t[4]), "a2": int(t[5]), "ret": int(t[7]), "err": None, "inj": None}
        for x in t[8:]:
            if x.startswith("E"):
                d["err"] = int(x[1:])
            elif x.startswith("INJ:"):
                d["inj"] = x[4:]
        out.append(d)
    return out


# ----------------------------------------------------------------------------- dumps
def parse_dumps(lines):
    """c15_h dump output -> {tag: (status, filetype, [content lines])}"""
    res, cur, body = {}, None, []
    for l in lines:
        if l.startswith("B "):
            cur, body = l[2:], []
        elif l.startswith("E ") and cur is not None:
            t = l.split()
            res[t[1]] = (t[2], t[3] if len(t) > 3 else "0", body)
            cur = None
        elif cur is not None:
            body.append(l)
    if cur is not None:
        res[cur] = ("crash", "0", body)
    return res


def dump_paths(h, paths, cwd):
    """dump each path in its own fresh process when the joint run does not complete (a crash while reading a
    half-written temporary must not hide the other path)"""
    lines, outcome = vlib.run_impl(h, "", args=["dump"] + paths, cwd=cwd, timeout=60)
    d = parse_dumps(lines)
    if outcome == "ok" and len(d) == len(paths):
        return [d[str(i)] for i in range(len(paths))], [outcome]
    out, ocs = [], []
    for p in paths:
        lines, oc = vlib.run_impl(h, "", args=["dump", p], cwd=cwd, timeout=60)
        d = parse_dumps(lines)
        st = d.get("0", ("crash", "0", []))
        if oc != "ok":
            st = ("crash:" + oc, st[1], st[2])
        out.append(st); ocs.append(oc)
    return out, ocs


# ----------------------------------------------------------------------------- scenarios
class Scen:
    """one source file + one way of compacting it"""
    def __init__(self, fmt, shape, driver, reach, seed, stale=False):
        self.fmt, self.shape, self.driver, self.reach, self.seed, self.stale = fmt, shape, driver, reach, seed, stale
        self.name = "%s-%s-%s-%s-%d%s" % (fmt, shape, driver, reach, seed, "-stale" if stale else "")

    def spec(self):
        return {"fmt": self.fmt, "shape": self.shape, "driver": self.driver, "reach": self.reach, "seed": self.seed,
                "stale": self.stale}

    # names inside the scenario directory (cwd of every run is that directory)
    @property
    def given(self):
        return "real.cgns" if self.reach == "direct" else "lnk.cgns"

    @property
    def tmp(self):
        return "real.cgns.temp"

    def modify(self):
        return self.driver in ("cgio-m", "close")

    def variant(self):
        return "plain" if self.reach == "direct" else "symlink"

    def argv(self, h, tools, d):
        g = self.given
        if self.driver == "tool":
            return [os.path.join(tools, "cgnscompress"), g], True
        if self.driver == "cgio-r":
            return [h, "compress", g, "r"], False
        if self.driver == "cgio-m":
            return [h, "compress", g, "m"], False
        return [h, "closecompress", g, "1"], False


def build_base(h, sc, base):
    """create the scenario's source directory; returns the reference dump (content lines)"""
    shutil.rmtree(base, ignore_errors=True)
    os.makedirs(base)
    real = os.path.join(base, "real.cgns")
    lines, oc = vlib.run_impl(h, "", args=["make", real, sc.fmt, sc.shape, str(sc.seed)], cwd=base)
    if oc != "ok" or lines[-1:] != ["made"]:
        raise vlib.Infra("cannot build the source of scenario %s: %s %s" % (sc.name, oc, lines[-3:]))
    if sc.reach == "symrel":
        os.symlink("real.cgns", os.path.join(base, "lnk.cgns"))
    elif sc.reach == "symabs":
        # absolute target: the copies of this directory get their own link (see copy_base)
        os.symlink(real, os.path.join(base, "lnk.cgns"))
    if sc.stale:
        open(os.path.join(base, sc.tmp), "wb").write(b"stale junk left by an earlier crash " * 50)
    pre = None
    if sc.driver == "close":
        # reference = the file as the modify session leaves it without compaction (control run on a copy);
        # while the session's own changes are still being flushed (before the first call on the temporary) the
        # content before the session is accepted as well: those kill points precede compaction proper
        stp, _ = dump_paths(h, [sc.given], base)
        pre = stp[0][2] if stp[0][0].startswith("ok") else None
        ctl = base + "_ctl"
        copy_base(sc, base, ctl)
        lines, oc = vlib.run_impl(h, "", args=["closecompress", sc.given, "0"], cwd=ctl)
        if oc != "ok" or lines[-1:] != ["close 0"]:
            raise vlib.Infra("control session of %s failed: %s %s" % (sc.name, oc, lines[-3:]))
        st, _ = dump_paths(h, [sc.given], ctl)
        shutil.rmtree(ctl, ignore_errors=True)
    else:
        st, _ = dump_paths(h, [sc.given], base)
    if not st[0][0].startswith("ok"):
        raise vlib.Infra("reference dump of %s failed: %s" % (sc.name, st[0][0]))
    return st[0][2], pre


def copy_base(sc, base, dst):
    shutil.rmtree(dst, ignore_errors=True)
    shutil.copytree(base, dst, symlinks=True)
    if sc.reach == "symabs":
        l = os.path.join(dst, "lnk.cgns")
        os.unlink(l)
        os.symlink(os.path.join(dst, "real.cgns"), l)


TOKMAP = {"unlink": "unlink", "close": "close", "fsync": "sync", "fdatasync": "sync", "rename": "rename"}


def abstract_trace(sc, tr):
    """interposer trace -> the model's token alphabet (reads, seeks dropped; runs of writes to one path collapsed)"""
    def role(p):
        if p == "real.cgns":
            return "F"
        if p == sc.tmp:
            return "T"
        if p == "lnk.cgns":
            return "N"
        return "?" + p
    toks = []
    fdrole = {}
    for c in tr:
        n, p = c["name"], c["path"]
        if n in ("read", "pread", "lseek"):
            continue
        if n in ("lstat", "readlink"):
            toks.append("stat:" + role(p))
        elif n == "open":
            if c["a1"] & 0o100 and c["ret"] >= 0:            # O_CREAT
                toks.append("create:" + role(p))
        elif n in ("write", "pwrite", "ftruncate"):
            # a descriptor opened through the link writes to the target
            r = "F" if role(p) == "N" else role(p)
            t = "writes:" + r
            if not toks or toks[-1] != t:
                toks.append(t)
        elif n == "rename":
            a, b = p.split(">")
            toks.append("rename:%s>%s" % (role(a), role(b)))
        elif n in TOKMAP:
            r = role(p)
            if n in ("close", "fsync", "fdatasync") and r == "N":
                r = "F"
            toks.append(TOKMAP[n] + ":" + r)
    return toks


def normalise_for_compare(toks, model, sc):
    """Differences that are NOT about the order of rewrite_file and are therefore normalised on both sides:
       - the model prints writes:T twice (copy, then flush-at-close) -- adjacent runs are merged;
       - opening the source (cgio_check_file: open/read/close before the real open) happens before compaction
         starts when the harness arms the interposer, but inside the run for the cgnscompress tool: leading
         close:F tokens of the tool are dropped;
       - lstat/readlink calls change nothing and libhdf5 adds its own: stat tokens are dropped (their presence in
         rewrite_file is checked on the table by the translator);
       - writes to the source during flush/close of a modify-mode source (HDF5 metadata flush, ADF pending block)
         are content preserving by assumption (DESIGN C15) and reported separately."""
    def merge(ts):
        out = []
        for t in ts:
            if t.startswith("writes:") and out and out[-1] == t:
                continue
            out.append(t)
        return out
    t2 = [t for t in toks if t not in ("writes:F", "sync:F") and not t.startswith("stat:")]
    src_writes = "writes:F" in toks
    if sc.driver == "tool":
        while t2 and t2[0] == "close:F":
            t2.pop(0)
    m2 = [t for t in model if t != "sync:F" and not t.startswith("stat:")]
    return merge(t2), merge(m2), src_writes


def model_states_per_call(sc, tr, states, model_toks_per_stmt):
    """abstract state (F,T) in force BEFORE each mutating call of the baseline trace, or None when the alignment
    is not possible (then only the oracle speaks).  A call inside statement number si is labelled with the state
    after statement si-1: the F component cannot change inside a multi-call statement, and the T components of
    such states (TE, TC) make no claim."""
    M = [(t, si) for si, ts in enumerate(model_toks_per_stmt) for t in ts if not t.startswith("stat:")]

    def before(si):
        return states[si - 1] if si > 0 else "FO/TJ"
    out, pos, last = {}, 0, None
    for c in tr:
        if c["m"] is None:
            continue
        one = abstract_trace(sc, [c])
        tok = one[0] if one else None
        nxt = before(M[pos][1]) if pos < len(M) else (states[-1] if states else "FO/TJ")
        if tok is None or tok == "writes:F":
            out[c["m"]] = nxt
            continue
        if tok.startswith("writes:") and last == tok:
            out[c["m"]] = before(M[pos - 1][1])
            continue
        while pos < len(M) and M[pos][0] != tok and M[pos][0] in ("writes:T", "sync:F"):
            pos += 1
        if pos < len(M) and M[pos][0] != tok and tok in ("close:F", "sync:F"):
            out[c["m"]] = before(M[pos][1])        # open/close of the source before compaction proper (tool), extra sync
            continue
        if pos >= len(M) or M[pos][0] != tok:
            return None
        out[c["m"]] = before(M[pos][1])
        pos += 1
        while tok == "writes:T" and pos < len(M) and M[pos][0] == "writes:T":
            pos += 1
        last = tok
    return out


def _rot(x, k):
    return ((x << k) | (x >> (32 - k))) & 0xffffffff


def lookup3(data, initval=0):
    """Bob Jenkins' hashlittle (lookup3), as used by HDF5 for metadata checksums"""
    M = 0xffffffff
    n = len(data)
    a = b = c = (0xdeadbeef + n + initval) & M
    i = 0
    while n > 12:
        a = (a + int.from_bytes(data[i:i + 4], "little")) & M
        b = (b + int.from_bytes(data[i + 4:i + 8], "little")) & M
        c = (c + int.from_bytes(data[i + 8:i + 12], "little")) & M
        a = (a - c) & M; a ^= _rot(c, 4); c = (c + b) & M
        b = (b - a) & M; b ^= _rot(a, 6); a = (a + c) & M
        c = (c - b) & M; c ^= _rot(b, 8); b = (b + a) & M
        a = (a - c) & M; a ^= _rot(c, 16); c = (c + b) & M
        b = (b - a) & M; b ^= _rot(a, 19); a = (a + c) & M
        c = (c - b) & M; c ^= _rot(b, 4); b = (b + a) & M
        i += 12; n -= 12
    if n == 0:
        return c
    tail = data[i:] + b"\0" * (12 - n)
    a = (a + int.from_bytes(tail[0:4], "little")) & M
    b = (b + int.from_bytes(tail[4:8], "little")) & M
    c = (c + int.from_bytes(tail[8:12], "little")) & M
    c ^= b; c = (c - _rot(b, 14)) & M
    a ^= c; a = (a - _rot(c, 11)) & M
    b ^= a; b = (b - _rot(a, 25)) & M
    c ^= b; c = (c - _rot(b, 16)) & M
    a ^= c; a = (a - _rot(c, 4)) & M
    b ^= a; b = (b - _rot(a, 14)) & M
    c ^= b; c = (c - _rot(b, 24)) & M
    return c


def h5clear_status(path):
    """what `h5clear -s` does to a version-2/3 superblock: clear the file-consistency flags left by a writer that
    died, recompute the superblock checksum.  Returns True when the flags were set and have been cleared."""
    try:
        with open(path, "r+b") as f:
            sb = bytearray(f.read(48))
            if len(sb) < 48 or sb[:8] != b"\x89HDF\r\n\x1a\n" or sb[8] not in (2, 3) or sb[9] != 8 or sb[11] == 0:
                return False
            sb[11] = 0
            sb[44:48] = lookup3(bytes(sb[:44])).to_bytes(4, "little")
            f.seek(0); f.write(sb)
        return True
    except OSError:
        return False


def between(post, obs, pre):
    """flush phase of a modify session that only deleted nodes: every node of the final content is there, nothing
    that was not in the content before the session is there (each deletion is atomic, their flush is not)"""
    return set(post) <= set(obs) <= set(pre)


def judge(sc, ref, stF, stT):
    """the property at one crash point: at least one of the two paths is complete and logically equal"""
    okF = stF[0].startswith("ok") and stF[2] == ref
    okT = stT[0].startswith("ok") and stT[2] == ref
    return okF, okT


def kill_case(h, ipso, tools, sc, base, work, k, ref, pre=None):
    d = os.path.join(work, "k%d" % k)
    copy_base(sc, base, d)
    argv, armed = sc.argv(h, tools, d)
    lines, oc, err = run_ip(ipso, argv, d, cwd=d, kill=k, armed=armed)
    (stF, stT), ocs = dump_paths(h, [sc.given, sc.tmp], d)
    okF, okT = judge(sc, ref, stF, stT)
    if pre is not None and not okF:
        okF = stF[0].startswith("ok") and between(ref, stF[2], pre)
    link_ok = True
    if sc.reach != "direct":
        l = os.path.join(d, "lnk.cgns")
        link_ok = os.path.islink(l) and os.readlink(l) in ("real.cgns", os.path.join(d, "real.cgns"))
    recovered = None
    if not (okF or okT) and sc.fmt == "hdf5" and sc.modify() and os.path.exists(os.path.join(d, "real.cgns")):
        # is the original merely flagged "open for writing" by the killed modify session (h5clear -s repairs that)?
        if h5clear_status(os.path.join(d, "real.cgns")):
            (st2,), _ = dump_paths(h, [sc.given], d)
            recovered = st2[0].startswith("ok") and (st2[2] == ref or (pre is not None and between(ref, st2[2], pre)))
    obs = {"k": k, "outcome": oc, "orig": stF[0], "tmp": stT[0], "orig_equal": okF, "tmp_equal": okT, "link_ok": link_ok,
           "orig_equal_after_h5clear": recovered,
           "orig_exists": os.path.lexists(os.path.join(d, "real.cgns")), "tmp_exists": os.path.lexists(os.path.join(d, sc.tmp)),
           "stderr": err[-300:] if oc not in ("killed", "ok") else ""}
    shutil.rmtree(d, ignore_errors=True)
    return obs


def run_scenario(ck, h, ipso, tools, sc, model, pool, stats, corr_broken, prior_fails=()):
    """returns list of property failures (dicts)"""
    work = os.path.join(ck.work, sc.name)
    base = os.path.join(work, "base")
    ref, pre = build_base(h, sc, base)
    # ---- uninterrupted, traced
    d0 = os.path.join(work, "full")
    copy_base(sc, base, d0)
    before = sorted(os.listdir(d0))
    argv, armed = sc.argv(h, tools, d0)
    trf = os.path.join(work, "trace.txt")
    if os.path.exists(trf):
        os.unlink(trf)
    lines, oc, err = run_ip(ipso, argv, d0, cwd=d0, trace=trf, armed=armed)
    tr = read_trace(trf)
    nmut = 1 + max([c["m"] for c in tr if c["m"] is not None] or [-1])
    fails = []
    (stF, stT), _ = dump_paths(h, [sc.given, sc.tmp], d0)
    okF, _ = judge(sc, ref, stF, stT)
    after = sorted(os.listdir(d0))
    temps = [f for f in after if f.endswith(".temp")]
    link_ok = True
    if sc.reach != "direct":
        l = os.path.join(d0, "lnk.cgns")
        link_ok = os.path.islink(l)
    status_ok = oc == "ok" and (sc.driver == "tool" or lines[-1:] in (["compress 0"], ["close 0"]))
    if not (status_ok and okF and not temps and link_ok and after == [f for f in before if not f.endswith(".temp")]):
        fails.append({"scenario": sc.spec(), "kill": None, "what": "uninterrupted run: original path must hold the content, "
                      "no temporary may remain, a symbolic link must stay a link",
                      "observed": {"outcome": oc, "stdout": lines[-2:], "orig": stF[0], "orig_equal": okF, "temps": temps,
                                   "link_ok": link_ok, "dir_before": before, "dir_after": after, "stderr": err[-300:]}})
    size_before = os.path.getsize(os.path.join(base, "real.cgns"))
    size_after = os.path.getsize(os.path.join(d0, "real.cgns")) if os.path.exists(os.path.join(d0, "real.cgns")) else -1
    # ---- tie C: abstracted trace == model tokens
    toks = abstract_trace(sc, tr)
    mt = model["toks"][(sc.variant(), "m" if sc.modify() else "r")]
    a, b, src_writes = normalise_for_compare(toks, mt, sc)
    stats["traces"] += 1
    ck.cov["traces_validated_against_impl"] += 1
    if src_writes:
        stats["source_written_during_flush_or_close"].append(sc.name)
    if a != b:
        corr_broken.append({"scenario": sc.spec(), "what": "path-level system-call sequence differs from the model's step list",
                            "impl": a, "model": b})
    per_call = model_states_per_call(sc, tr, model["states"][sc.variant()], model["toks_per_stmt"][(sc.variant(), "m" if sc.modify() else "r")])
    # ---- the kill campaign
    first_tmp = min([c["m"] for c in tr if c["m"] is not None and sc.tmp in c["path"]] or [0])
    futs = [pool.submit(kill_case, h, ipso, tools, sc, base, work, k, ref, pre if k < first_tmp else None) for k in range(nmut)]
    windows = {"orig_absent_tmp_complete": 0, "both_complete": 0, "only_orig": 0}
    for fu in futs:
        o = fu.result()
        stats["kills"] += 1
        ck.case(hashlib.sha1(("%s/%d" % (sc.name, o["k"])).encode()).hexdigest() if o["outcome"] == "killed" else None,
                sample={"scenario": sc.name, "kill_before_mutating_call": o["k"], "orig": o["orig"], "tmp": o["tmp"]})
        if o["outcome"] != "killed":
            # the run ended before reaching call k (cannot happen: k < nmut of the same deterministic run)
            corr_broken.append({"scenario": sc.spec(), "what": "kill point not reached", "k": o["k"], "outcome": o["outcome"],
                                "stderr": o["stderr"]})
        good = (o["orig_equal"] or o["tmp_equal"]) and o["link_ok"]
        if o["orig_equal"] and o["tmp_equal"]:
            windows["both_complete"] += 1
        elif o["tmp_equal"] and not o["orig_exists"]:
            windows["orig_absent_tmp_complete"] += 1
        elif o["orig_equal"]:
            windows["only_orig"] += 1
        key = None
        if not good and o["link_ok"] and o.get("orig_equal_after_h5clear"):
            # genuine, documented in notes/C15.md: HDF5 marks a file opened read-write in its superblock; a process
            # killed anywhere in a modify session (so also while compress-on-close copies) leaves the mark behind and
            # the library refuses to reopen the file although every byte of the data is intact
            key = "hdf5-modify-session-kill-leaves-file-locked"
            what = ("after the kill the original HDF5 file cannot be opened (superblock still flagged open-for-write by the "
                    "killed modify session) and the temporary is not complete; the data is intact once the flag is cleared (h5clear -s)")
        elif (not good and o["link_ok"] and sc.fmt == "hdf5" and sc.modify() and o["k"] < first_tmp and
              o.get("orig_equal_after_h5clear") is False):
            # genuine, documented: the kill fell inside H5Fflush of the modify session's own pending changes, BEFORE
            # rewrite_file touches the temporary: libhdf5 writes its metadata in place, not atomically
            key = "hdf5-modify-session-kill-during-flush"
            what = ("the kill fell inside the initial cgio_flush_to_disk (H5Fflush) of a modify-mode HDF5 source, before the "
                    "temporary exists: the half-flushed original cannot be opened even with its write flag cleared")
        if key:
            stats["hdf5_modify_kills"][key] = stats["hdf5_modify_kills"].get(key, 0) + 1
            call = next((c for c in tr if c["m"] == o["k"]), None)
            if ck.known_match(key):
                ck.finding(key, {})
            elif not any(f.get("finding_key") == key for f in fails + prior_fails):
                fails.append({"finding_key": key, "scenario": sc.spec(), "kill": o["k"], "flush_phase": o["k"] < first_tmp,
                              "killed_before_call": call and "%s %s" % (call["name"], call["path"]), "what": what, "observed": o})
            continue
        if not good:
            call = next((c for c in tr if c["m"] == o["k"]), None)
            fails.append({"scenario": sc.spec(), "kill": o["k"], "killed_before_call": call and "%s %s" % (call["name"], call["path"]),
                          "flush_phase": o["k"] < first_tmp,
                          "what": "after the kill neither the original path nor the temporary sibling is a complete file equal "
                                  "to the content before compaction" if o["link_ok"] else "the symbolic link was replaced",
                          "observed": o})
        # correspondence with the model's abstract state at this point
        if per_call is not None and o["k"] in per_call and o["outcome"] == "killed":
            stt = per_call[o["k"]].replace("+partial", "")
            f, t = stt.split("/")
            pred_ok = True
            locked = sc.fmt == "hdf5" and sc.modify()       # known finding: the open-for-write mark hides an intact original
            if f in ("FO", "FN") and not o["orig_equal"] and not locked:
                pred_ok = False
            if f == "FG" and o["orig_exists"]:
                pred_ok = False
            if t == "TF" and not o["tmp_equal"] and "+partial" not in per_call[o["k"]]:
                pred_ok = False
            if t == "TA" and o["tmp_exists"]:
                pred_ok = False
            stats["states_compared"] += 1
            if not pred_ok:
                corr_broken.append({"scenario": sc.spec(), "what": "state after the kill differs from the model's abstract state",
                                    "k": o["k"], "model_state": per_call[o["k"]], "observed": o})
    if per_call is None:
        corr_broken.append({"scenario": sc.spec(), "what": "cannot align the trace with the model's statements", "impl": toks, "model": mt})
    stats["per_scenario"][sc.name] = {"mutating_calls": nmut, "calls": len(tr), "size_before": size_before, "size_after": size_after,
                                      "windows": windows}
    shutil.rmtree(work, ignore_errors=True)
    return fails


def scenario_list(rng, tier):
    seeds = [rng.randint(1, 10 ** 6) for _ in range(40)]
    it = iter(seeds)
    L = []
    if tier == "quick":
        L += [Scen("adf", "cgio", "cgio-r", "direct", next(it)),
              Scen("adf", "cgiolinks", "tool", "symrel", next(it)),
              Scen("adf", "mll", "close", "direct", next(it)),
              Scen("hdf5", "cgiolinks", "cgio-r", "direct", next(it), stale=True),
              Scen("hdf5", "cgio", "tool", "symabs", next(it)),
              Scen("hdf5", "mll", "close", "symrel", next(it)),
              Scen("adf", "cgio", "cgio-m", "symabs", next(it), stale=True),
              Scen("hdf5", "cgio", "cgio-m", "direct", next(it))]
    else:
        for fmt in ("adf", "hdf5"):
            for reach in ("direct", "symrel", "symabs"):
                for shape, driver in (("cgio", "cgio-r"), ("cgiolinks", "cgio-r"), ("cgio", "cgio-m"), ("cgiolinks", "tool"),
                                      ("mll", "tool"), ("mll", "close"), ("cgiolinks", "cgio-m")):
                    L.append(Scen(fmt, shape, driver, reach, next(it) if False else rng.randint(1, 10 ** 6),
                                  stale=rng.random() < 0.3))
    return L


def pregen():
    import c15_rewrite
    return c15_rewrite.main()


def get_model():
    v = {}
    script = "toks plain r\ntoks plain m\ntoks symlink r\ntoks symlink m\nstates plain\nstates symlink\nok\n"
    out = vlib.run_model("c15", script)
    v["toks"] = {("plain", "r"): out[0].split()[1:], ("plain", "m"): out[1].split()[1:],
                 ("symlink", "r"): out[2].split()[1:], ("symlink", "m"): out[3].split()[1:]}
    v["states"] = {"plain": out[4].split()[1:], "symlink": out[5].split()[1:]}
    v["ok"] = out[6]
    # tokens grouped per statement: re-derive from the generated rows (same function as the model's toks_of)
    return v


def toks_per_stmt(res, variant, modify):
    """group the model's tokens per statement of the generated table (mirrors Compact.toks_of; only used to align
    kill indices with statements -- a mismatch with the extracted model's own token list is reported)"""
    role = ({"PName": "F", "PTmp": "T"} if variant == "plain" else {"PLink": "F", "PTmp": "T", "PName": "N"})
    out = []
    for a, _ in res[variant][0]:
        t = a.split()
        if t[0] == "GUnlink":
            out.append(["unlink:" + role.get(t[1], "?")])
        elif t[0] == "GCreate":
            out.append(["create:" + role.get(t[1], "?")])
        elif t[0] == "GCopy":
            out.append(["writes:T"])
        elif t[0] == "GCloseOut":
            out.append(["writes:T", "close:T"])
        elif t[0] == "GCloseIn":
            out.append(["close:F"])
        elif t[0] == "GFlushIfModify":
            out.append(["sync:F"] if modify else [])
        elif t[0] == "GStat":
            out.append(["stat:" + role.get(t[1], "?")])
        elif t[0] == "GRename":
            out.append(["rename:%s>%s" % (role.get(t[1], "?"), role.get(t[2], "?"))])
        else:
            out.append(["UNPARSED"])
    return out


def relative_link_probe(h, ipso, ck):
    """informational: a symbolic link with a RELATIVE target, used from another working directory (rewrite_file
    interprets the link text relative to the cwd, the kernel relative to the link's directory)"""
    base = os.path.join(ck.work, "relprobe")
    shutil.rmtree(base, ignore_errors=True)
    os.makedirs(os.path.join(base, "sub"))
    lines, oc = vlib.run_impl(h, "", args=["make", os.path.join(base, "sub", "real.cgns"), "adf", "cgio", "5"], cwd=base)
    os.symlink("real.cgns", os.path.join(base, "sub", "lnk.cgns"))
    open(os.path.join(base, "real.cgns"), "w").write("an unrelated file that happens to have the target's name\n")
    before = sorted(os.listdir(base)), os.path.getsize(os.path.join(base, "sub", "real.cgns"))
    lines, oc = vlib.run_impl(h, "", args=["compress", "sub/lnk.cgns", "r"], cwd=base)
    unrelated = open(os.path.join(base, "real.cgns"), "rb").read(64)
    res = {"status": lines[-1:], "outcome": oc, "unrelated_file_in_cwd_replaced": not unrelated.startswith(b"an unrelated"),
           "target_compacted": os.path.getsize(os.path.join(base, "sub", "real.cgns")) != before[1] or None,
           "cwd_listing_after": sorted(os.listdir(base))}
    shutil.rmtree(base, ignore_errors=True)
    return res


def run(ck):
    vlib.build_impl()
    h = vlib.build_harness("c15_h", ["c15_h.c"])
    ipso = build_interposer()
    tools = os.path.join(vlib.IMPL, "src", "tools")
    res, callers, tnotes = pregen()
    cres = vlib.coq_check_properties("C15")
    broken = ck.proof_result(cres, CHECKER)
    forb = [x for x in vlib.coq_forbidden_scan() if x.split(":")[0] in ("Compact.v", "CompactProofs.v", "Properties_C15.v", "Gen_C15.v", "Extract_c15.v")]
    ck.extra["forbidden_tokens"] = forb
    if forb:
        ck.violation({"broken_obligation": "forbidden tokens in the Coq development", "hits": forb}, nofail=True)
    ck.extra["translator"] = {"rows_plain": [r[0] for r in res["plain"][0]], "rows_symlink": [r[0] for r in res["symlink"][0]],
                              "onfail_plain": [r[1] for r in res["plain"][0]],
                              "tmp_base": [res["plain"][1], res["symlink"][1]], "callers": callers, "notes": tnotes,
                              "unparsed_rows": sum(1 for v in res for r in res[v][0] if r[0] == "GUnparsed") +
                                               sum(1 for k in callers for c in callers[k] if c == "CUnparsed")}
    ck.cov["trusted_base"] = [
        "Coq 8.16.1 kernel + vm_compute", "extraction (ExtrOcamlBasic), ocaml/eng_c15.ml",
        "translators/c15_rewrite.py (statement splitter + call classifier; pure-call whitelist)",
        "harness/interpose.c (LD_PRELOAD), harness/c15_h.c + c15_dump.c, this driver",
        "model assumption: writes reach the file named at open time (no rename/unlink of an open path in a safe order); "
        "flush/close of a modify-mode source is content preserving (tested by the kill campaign, not proved)"]
    ck.assumptions = ["process-kill semantics only (kernel state kept, no power-loss reordering)", "no I/O failure during compaction (that is C14)",
                      "the copy itself is correct (C09)", "symbolic-link target text denotes the same file relative to the cwd and to the link's directory",
                      "malloc never fails", "kill points = every mutating system call on the scenario's files (read/lseek boundaries are state-equivalent)"]
    ck.cov["rule"] = ("for each scenario (format x tree shape x driver{cgnscompress tool, cgio_compress_file on a read-only / modify handle, "
                      "compress-on-close} x reach{direct, relative symlink, absolute symlink} [x stale temp]) the process is killed before "
                      "EVERY mutating system call of the compaction; non-trivial = the kill actually fired (exit 86); distinct by scenario/kill index")
    model = None
    corr_broken, fails = [], []
    stats = {"traces": 0, "kills": 0, "states_compared": 0, "hdf5_modify_kills": {}, "per_scenario": {}, "source_written_during_flush_or_close": []}
    if cres["ok"]:
        vlib.build_modelrun("c15")
        model = get_model()
        model["toks_per_stmt"] = {}
        for v in ("plain", "symlink"):
            for m in ("r", "m"):
                tps = toks_per_stmt(res, v, m == "m")
                model["toks_per_stmt"][(v, m)] = tps
                if [t for ts in tps for t in ts] != model["toks"][(v, m)]:
                    corr_broken.append({"what": "driver's per-statement token table differs from the extracted model", "variant": v})
        ck.extra["model"] = {"ok_line": model["ok"], "toks_plain_r": model["toks"][("plain", "r")], "states_plain": model["states"]["plain"]}
    else:
        # the table no longer satisfies safe_order (or a proof broke): use the last good shapes for alignment only
        model = {"toks": {}, "states": {}, "toks_per_stmt": {}}
        for v in ("plain", "symlink"):
            for m in ("r", "m"):
                tps = toks_per_stmt(res, v, m == "m")
                model["toks_per_stmt"][(v, m)] = tps
                model["toks"][(v, m)] = [t for ts in tps for t in ts]
            model["states"][v] = ["FO/TJ"] * len(res[v][0])
    scens = scenario_list(ck.rng, ck.tier)
    with concurrent.futures.ThreadPoolExecutor(max_workers=WORKERS) as pool:
        for sc in scens:
            f = run_scenario(ck, h, ipso, tools, sc, model, pool, stats, corr_broken if cres["ok"] else [], list(fails))
            fails += f
            if len([x for x in fails if not x.get("finding_key")]) >= 3:
                break
        if (broken or corr_broken) and not [x for x in fails if not x.get("finding_key")] and ck.tier == "quick":
            # widened search (DESIGN 1.3): the thorough scenario list
            for sc in scenario_list(ck.rng, "thorough"):
                fails += run_scenario(ck, h, ipso, tools, sc, model, pool, stats, [], list(fails))
                if [x for x in fails if not x.get("finding_key")]:
                    break
    for f in [x for x in fails if x.get("finding_key")] + [x for x in fails if not x.get("finding_key")][:3]:
        if f.get("finding_key"):
            ck.finding(f["finding_key"], dict(f, oracle="library walk of both paths in a fresh process after exit_group at the kill point"))
            continue
        ck.violation(dict(f, oracle="library walk of both paths in a fresh process after exit_group at the kill point",
                          replay_hint="./check C15 --replay <this file>"))
    if (broken or corr_broken) and not [x for x in fails if not x.get("finding_key")]:
        ck.violation({"broken_obligations": broken, "broken_correspondence": corr_broken[:3],
                      "note": "the order of effectful calls in rewrite_file (or its callers) is no longer the one proved safe / "
                              "the traced runs differ from the model, but every kill point explored still left a complete file"},
                     nofail=True)
    ck.extra["relative_symlink_other_cwd_probe"] = relative_link_probe(h, ipso, ck)
    ck.extra["input_distribution"] = {"scenarios": [s.name for s in scens], "kills": stats["kills"], "traces": stats["traces"],
                                      "states_compared_with_model": stats["states_compared"], "hdf5_modify_kills": stats["hdf5_modify_kills"], "per_scenario": stats["per_scenario"],
                                      "source_written_during_flush_or_close": stats["source_written_during_flush_or_close"]}


def replay(ck, path):
    r = json.load(open(path))
    if "scenario" not in r:
        print("replay names a broken obligation/correspondence, no input to run:", json.dumps(r)[:800]); return 1
    vlib.build_impl()
    h = vlib.build_harness("c15_h", ["c15_h.c"])
    ipso = build_interposer()
    tools = os.path.join(vlib.IMPL, "src", "tools")
    sc = Scen(**r["scenario"])
    work = os.path.join(ck.work, "replay")
    base = os.path.join(work, "base")
    ref, pre = build_base(h, sc, base)
    if r.get("kill") is None:
        d0 = os.path.join(work, "full")
        copy_base(sc, base, d0)
        argv, armed = sc.argv(h, tools, d0)
        lines, oc, err = run_ip(ipso, argv, d0, cwd=d0, armed=armed)
        (stF, stT), _ = dump_paths(h, [sc.given, sc.tmp], d0)
        okF, _ = judge(sc, ref, stF, stT)
        temps = [f for f in os.listdir(d0) if f.endswith(".temp")]
        bad = not (oc == "ok" and okF and not temps)
        print("replay: uninterrupted run: outcome=%s orig=%s equal=%s temps=%s -> property %s" % (oc, stF[0], okF, temps, "FAILS" if bad else "holds"))
        return 1 if bad else 0
    o = kill_case(h, ipso, tools, sc, base, work, r["kill"], ref, pre if r.get("flush_phase") else None)
    bad = not ((o["orig_equal"] or o["tmp_equal"]) and o["link_ok"])
    print("replay: kill before mutating call %d: %s -> property %s" % (r["kill"], json.dumps(o), "FAILS" if bad else "holds"))
    return 1 if bad else 0
