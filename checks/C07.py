"""C07 -- a file opened read-only is never changed, and reads never mutate.

Proof side : coq/Properties_C07.v.  translators/c07_gates.py re-extracts from the CURRENT sources the event skeleton of every
             function of cgnslib.c / cgns_internals.c / cgns_io.c / cgns_error.c (coq/Gen_C07.v); coq/Gates.v holds the
             skeleton machine and the decidable predicates; the kernel evaluates on the regenerated table the call-graph
             closures, C07_mutators_gated, C07_readers_pure, C07_cgio_gated, and GatesProofs.v proves for ANY table with
             those facts that no call sequence on a read-mode handle changes the file and that every gated call fails
             (C07_ro_unchanged).
Tie T      : the translator runs on every check (cached by source hash under .build/c07_cache) and in pregen().
Tie C      : (1) the extracted machine is run on every entry point in the three open modes with an empty oracle ("valid
             arguments") and its verdict "rejected by a mode gate / passes" is compared with the real call's outcome
             (status + message class) -- a skeleton that mis-describes the gate shows up here;
             (2) EVERY entry point classified as mutator is called on a READ-mode handle with arguments synthesised from the
             prototype table (stubs generated from the same translator output): error status, SHA-256 of the file bytes,
             the view through the read API on the same handle, in three file states, ADF and HDF5;
             (3) every entry point not documented as a writer is called in MODIFY mode on a fresh copy; the cgio tree walk
             of the file after close must equal the walk after a bare open+close;  (4) seeded random read sequences in READ
             and MODIFY mode with the same two oracles.
Oracles (independent of the model): status, SHA-256 of the bytes, read-API view digest, cgio tree digest, ASan/UBSan.
"""
import hashlib, json, os, re, sys
import vlib

sys.path.insert(0, os.path.join(vlib.ROOT, "translators"))
import c07_gates

CHECKER = ("make -C coq Gates.vo GatesProofs.vo Gen_C07.vo (coqc 8.16.1 kernel, vm_compute of the call-graph closures and "
           "predicates on the regenerated table) ; coqc Properties_C07.v (Print Assumptions)")
STATES = ["rich", "unstr", "bare"]
BACKENDS = ["adf", "hdf5"]


def pregen():
    c07_gates.write_gen(repo=vlib.REPO, impl=vlib.IMPL)


# ------------------------------------------------------------------------------------------------ stub generator
ENUM_VALID = {"DataType_t": "CGNS_ENUMV(RealDouble)", "ZoneType_t": "CGNS_ENUMV(Structured)", "GridLocation_t": "CGNS_ENUMV(Vertex)",
              "BCType_t": "CGNS_ENUMV(BCWall)", "PointSetType_t": "CGNS_ENUMV(PointRange)", "ElementType_t": "CGNS_ENUMV(HEXA_8)",
              "GridConnectivityType_t": "CGNS_ENUMV(Abutting1to1)", "BCDataType_t": "CGNS_ENUMV(Dirichlet)",
              "AverageInterfaceType_t": "CGNS_ENUMV(AverageAll)", "DataClass_t": "CGNS_ENUMV(Dimensional)",
              "SimulationType_t": "CGNS_ENUMV(TimeAccurate)", "RigidGridMotionType_t": "CGNS_ENUMV(ConstantRate)",
              "ArbitraryGridMotionType_t": "CGNS_ENUMV(DeformingGrid)", "WallFunctionType_t": "CGNS_ENUMV(Generic)",
              "AreaType_t": "CGNS_ENUMV(BleedArea)", "GoverningEquationsType_t": "CGNS_ENUMV(Euler)", "ModelType_t": "CGNS_ENUMV(Ideal)"}
HANDLE = {"fn", "file_number"}
CGIO_HANDLE = {"cgio_num", "cgio_num_inp", "cgio_num_out"}
INDEX = {"B", "Z", "S", "P", "Ii", "BC", "F", "C", "G", "A", "D", "N", "Dset", "DS", "R", "J", "I", "index", "Index", "descr_no",
         "IntegralDataIndex", "ArrayNumber", "Fam"}
INT_VALUES = {"cell_dim": "3", "phys_dim": "3", "EquationDimension": "3", "dimension": "3", "nsteps": "2", "nbndry": "0", "ndims": "1",
              "num_dims": "1", "m_numdim": "1", "s_numdim": "1", "m_num_dims": "1", "DataDimension": "1", "file_type": "CG_FILE_NONE",
              "follow_links": "0", "start": "1", "max_ret": "1", "NormalListFlag": "0", "iterations": "5", "nptsets": "1",
              "mode": "CG_MODE_READ", "Ordinal": "1", "compress": "0", "name_len": "32", "max_path_len": "900", "abort_flag": "0",
              "depth": "0", "what": "0", "type": "0", "nnames": "1", "file_mode": "CG_MODE_READ"}
DIMCOUNT = {"ndims", "num_dims", "m_numdim", "s_numdim", "m_num_dims", "DataDimension"}
SKIP = re.compile(r"^(cg_error_exit|cgio_error_exit|cg_exit_on_errors|cg_open|cg_close|cgio_open_file|cgio_close_file|cgio_cleanup|"
                  r"cg_configure|cgio_configure|cg_set_\w+|cg_add_path|cg_error_handler|cg_error_print|cgio_error_abort|cgio_path_add|"
                  r"cgio_path_delete|cg_goto_f08|cg_gorel_f08|cg_get_error|cgio_error_code|cgio_error_message)$")
HAND = {"cg_goto": 'cg_goto(%s, 1, "Zone_t", 1, "end")', "cg_gorel": '(cg_goto(g_fn, 1, "Zone_t", 1, "end"), cg_gorel(%s, "UserDefinedData_t", 1, "end"))'}
NAME_SPECIAL = {("cg_coord_read", "coordname"): '"CoordinateX"', ("cg_coord_general_read", "coordname"): '"CoordinateX"',
                ("cg_field_read", "fieldname"): '"Density"', ("cg_field_general_read", "fieldname"): '"Density"',
                ("cg_model_read", "ModelLabel"): '"GasModel_t"', ("cg_model_write", "ModelLabel"): '"GasModel_t"',
                ("cg_delete_node", "node_name"): '"Note"', ("cg_gopath", "path"): '"/Base/Zone1"',
                ("cg_link_write", "filename"): '""', ("cg_link_write", "name_in_file"): '"/Base/Zone1"',
                ("cg_famname_write", "family_name"): '"Fam1"', ("cg_family_name_write", "family"): '"Fam1"',
                ("cg_multifam_write", "family"): '"Fam1"', ("cg_save_as", "filename"): "g_aux", ("cg_is_cgns", "filename"): "g_work",
                ("cgio_check_file", "filename"): "g_work", ("cgio_find_file", "filename"): "g_work", ("cgio_find_file", "parentfile"): "g_work",
                ("cgio_compress_file", "filename"): "g_work", ("cg_subreg_bcname_write", "bcname"): '"BC1"',
                ("cg_subreg_gcname_write", "gcname"): '"Conn1"', ("cg_node_family_name_write", "family_name"): '"Fam1"',
                ("cg_zone_id", "x"): "x", ("cg_particle_model_read", "ModelLabel"): '"ParticleCollisionModel_t"',
                ("cg_particle_model_write", "ModelLabel"): '"ParticleCollisionModel_t"'}
CTX_RULES = [(r"^cg_rind_", 3), (r"^cg_(exponents|expfull|conversion|nexponents)", 4),
             (r"^cg_(convergence|state|equationset|integral|nintegrals|gravity|axisym)", 2), (r"^cg_(governing|model)_", 5),
             (r"^cg_diffusion_", 15), (r"^cg_(bcdataset|nbcdataset)", 7), (r"^cg_node_", 6), (r"^cg_(rotating|multifam|nmultifam)", 8),
             (r"^cg_particle_(governing|model)", 14), (r"^cg_particle_equationset", 13)]


def ctx_of(name, params):
    pn = {p[0] for p in params}
    if pn & (HANDLE | CGIO_HANDLE) or name.startswith("cgio_"):
        return 0
    for rx, c in CTX_RULES:
        if re.search(rx, name):
            return c
    return 1


def is_node_name(pn):
    l = pn.lower()
    return l.endswith("name") and l not in ("filename", "file_name", "cadname", "regionname") and "file" not in l


def arg_for(fname, i, pn, pt, writer):
    """-> (valid expression, kind, [(class, expression, mustfail)])"""
    t = pt.replace("const ", "").strip()
    const = "const" in pt
    if (fname, pn) in NAME_SPECIAL:
        return NAME_SPECIAL[(fname, pn)], "special", []
    if t == "int":
        if pn in HANDLE:
            return "g_fn", "handle", [("closed-handle", "g_closed", 1), ("never-issued-handle", "9999", 1), ("handle-0", "0", 1), ("handle--1", "-1", 1)]
        if pn in CGIO_HANDLE:
            return "g_cgio", "handle", [("closed-handle", "g_cgio_closed", 1), ("never-issued-handle", "9999", 1), ("handle-0", "0", 1), ("handle--1", "-1", 1)]
        if pn in INDEX:
            return "1", "index", [("index-0", "0", 1), ("index--1", "-1", 1), ("index-count+1", "1000", 1), ("index-INT_MAX", "INT_MAX", 1)]
        if pn in DIMCOUNT:
            return "1", "dimcount", [("ndim-0", "0", 1), ("ndim--1", "-1", 1), ("ndim-13", "13", 1)]
        if pn in ("cell_dim", "phys_dim"):
            return "3", "range", [("dim-0", "0", 1), ("dim-4", "4", 1)]
        return INT_VALUES.get(pn, "1"), "int", []
    if t == "cgsize_t":
        v = {"start": "1", "end": "2", "npnts": "2", "b_start": "1", "b_end": "1"}.get(pn, "1")
        inv = []
        if pn == "start":
            inv = [("range-start>end", "5", 0)]
        if pn == "npnts":
            inv = [("npnts-0", "0", 0), ("npnts--1", "-1", 0)]
        return v, "size", inv
    if t == "double":
        if fname.startswith("cgio_"):
            v = {"pid": "g_node", "id": "g_node2", "new_pid": "g_root", "id_inp": "g_node2", "id_out": "g_node", "InputID": "g_node2"}.get(pn, "g_node2")
            return v, "cgioid", []
        return "1.0", "double", []
    if t == "float":
        return "1.0f", "float", []
    if t == "char *" and const:
        l = pn.lower()
        if is_node_name(pn):
            v = "fresh()" if writer else '"Zone1"'
            if pn == "donorname":
                v = '"Zone2"'
            return v, "name", [("name-empty", '""', 1), ("name-33", "NAME33", 1), ("name-1000", "NAME1000", 1)]
        if "file" in l:
            return '"c07_none.cgns"', "filename", []
        if pn in ("data_type", "m_data_type"):
            return '"R8"', "dtype", [("datatype-bad", '"Q9"', 1), ("datatype-empty", '""', 1)]
        if pn == "label":
            return '"UserDefinedData_t"', "label", [("label-33", "NAME33", 0)]
        if pn == "path":
            return '"/Base/Zone1"', "path", []
        return '"text"', "text", []
    if t == "char *":
        return "(char *)OUT(%d)" % i, "out", []
    if t in ENUM_VALID or (t.endswith("_t") and t not in ("cgsize_t", "cglong_t", "size_t")):
        v = ENUM_VALID.get(t, "(%s)2" % t)
        return v, "enum", [("enum--1", "(%s)-1" % t, 1), ("enum-beyond-max", "(%s)1000" % t, 1)]
    if t.endswith("*"):
        base = t[:-1].strip()
        if const and base == "cgsize_t":
            l = pn.lower()
            if pn == "size":
                return "SZ_SIZE", "insz", [("size-zero", "SZ_ZERO", 1)]
            if re.search(r"min|start", l):
                return "SZ_ONES", "rmin", [("range-min>max", "SZ_BAD_HI", 1), ("range-min-0", "SZ_ZERO", 1)]
            if re.search(r"max|end", l):
                return "SZ_TWOS", "rmax", [("range-max<min", "SZ_ZERO", 1), ("range-max-beyond", "SZ_BAD_HI", 1)]
            if re.search(r"dim", l):
                return "SZ_TWOS", "dims", [("dims-zero", "SZ_ZERO", 0)]
            if pn in ("pnts", "range", "donor_range"):
                return "SZ_PR", "pnts", []
            if pn in ("parent_data", "connect_offset"):
                return "SZ_ZERO", "insz", []
            return "SZ_ONES", "insz", []
        if const and base == "int":
            return ("IN_TRANSFORM" if pn == "transform" else "IN_INT"), "inint", []
        if const and base == "float":
            return "INF", "infloat", []
        if const and base == "void":
            return "(const void *)IND", "indata", []
        if const and base == "cglong_t":
            return "LD_ONES", "inlong", []
        if base.endswith("*"):
            return "(%s)PP(%d)" % (pt, i), "out", []
        if base == "void" and not const and re.search(r"write", fname):
            return "(void *)IND", "indata", []
        return "(%s)OUT(%d)" % (t, i), "out", []
    if "(*)" in t:
        return "0", "fnptr", []
    return "0", "other", []


def gen_stubs(d, path):
    """C source with one stub per public entry point (variant 0 = valid arguments, variant k = k-th (position, invalid class)).
    Returns the list of entries (name, variants, ctx, static-only reason)."""
    api = [a for a in d["api"] if a["defined"]]
    protos = d["protos"]
    out, entries, static_only = [], [], {}
    for a in api:
        name = a["name"]
        pr = protos[name]
        if SKIP.match(name):
            static_only[name] = "not callable in a shared process (terminates, closes or reconfigures the library)"
            continue
        writer = a["doc"] == "Write"
        params = pr["params"]
        ret = pr["ret"]
        if name == "cg_where":
            vals = [("(int *)OUT(0)", "out", []), ("(int *)OUT(1)", "out", []), ("(int *)OUT(2)", "out", []), ("(char **)PP(3)", "out", []), ("(int *)OUT(4)", "out", [])]
        elif name == "cg_free":
            vals = [("malloc(8)", "special", [])]
        elif name == "cg_golist":
            vals = [arg_for(name, 0, "fn", "int", False), arg_for(name, 1, "B", "int", False), ("0", "int", []), ("(char **)PP(3)", "out", []), ("(int *)OUT(4)", "out", [])]
        elif name in HAND:
            vals = [arg_for(name, 0, "fn", "int", False)]
        elif pr["variadic"]:
            static_only[name] = "variadic"
            continue
        else:
            vals = [arg_for(name, i, pn, pt, writer) for i, (pn, pt) in enumerate(params)]
        variants = [("valid", [v[0] for v in vals], 0)]
        for i, (v, kind, invs) in enumerate(vals):
            for cls, ex, must in invs:
                argv = [x[0] for x in vals]
                argv[i] = ex
                pname = params[i][0] if i < len(params) else "arg%d" % i
                variants.append(("%s:%s=%s" % (cls, pname, kind), argv, must))
        body = ["static int call_%s(int v) {" % name, "  switch (v) {"]
        for k, (desc, argv, must) in enumerate(variants):
            if name in HAND:
                call = HAND[name] % argv[0]
            else:
                call = "%s(%s)" % (name, ", ".join(argv))
            if ret == "int":
                body.append("  case %d: return %s;" % (k, call))
            elif ret == "void":
                body.append("  case %d: %s; return 0;" % (k, call))
            else:
                body.append("  case %d: return (%s) == 0 ? -77 : 0;" % (k, call))
        body += ["  }", "  return -99;", "}"]
        body.append("static const char *const vd_%s[] = {%s};" % (name, ", ".join('"%s"' % v[0] for v in variants)))
        out += body
        flags = 0
        if name.startswith("cgio_"):
            flags |= 1
        if not ({p[0] for p in params} & (HANDLE | CGIO_HANDLE)) and ctx_of(name, params) == 0:
            flags |= 2
        if name in ("cgio_compress_file",):
            flags |= 4
        entries.append(dict(name=name, doc=a["doc"], nvar=len(variants), ctx=ctx_of(name, params), flags=flags,
                            variants=[(v[0], v[2]) for v in variants]))
    out.append("static const entry_t entries[] = {")
    for e in entries:
        out.append('  {"%s", call_%s, %d, %d, %d, vd_%s},' % (e["name"], e["name"], e["nvar"], e["ctx"], e["flags"], e["name"]))
    out.append("};")
    out.append("#define NENTRIES %d" % len(entries))
    txt = "\n".join(out) + "\n"
    os.makedirs(os.path.dirname(path), exist_ok=True)
    if not os.path.exists(path) or open(path).read() != txt:
        open(path, "w").write(txt)
    return entries, static_only


def build_driver(d):
    gen = os.path.join(vlib.HDIR, "gen_c07")
    entries, static_only = gen_stubs(d, os.path.join(gen, "c07_stubs.inc"))
    exe = vlib.build_harness("c07_drv", ["c07_drv.c"], includes=[gen])
    return exe, entries, static_only
