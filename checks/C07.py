"""C07 -- a file opened read-only is never changed, and reads never mutate.

Proof side : coq/Properties_C07.v.  translators/c07_gates.py re-extracts from the CURRENT sources the event skeleton of every
             function of cgnslib.c / cgns_internals.c / cgns_io.c / cgns_error.c (coq/Gen_C07.v); coq/Gates.v holds the
             skeleton machine and the decidable predicates; the kernel evaluates on the regenerated table the call-graph
             closures, C07_mutators_gated, C07_readers_pure, C07_cgio_gated, and GatesProofs.v proves for ANY table with
             those facts that no call sequence on a read-mode handle changes the file and that every gated call fails
             (C07_ro_unchanged).
Tie T      : the translator runs on every check (cached by source hash under .build/c07_cache) and in pregen().
Tie C      : (1) the extracted machine is run on every entry point in the three open modes with an empty oracle ("valid
             arguments") and its verdict "rejected by a mode gate / passes" is compared with the real call's outcome
             (status + message class) -- a skeleton that mis-describes the gate shows up here;
             (2) EVERY entry point classified as mutator is called on a READ-mode handle with arguments synthesised from the
             prototype table (stubs generated from the same translator output): error status, SHA-256 of the file bytes,
             the view through the read API on the same handle, in three file states, ADF and HDF5;
             (3) every entry point not documented as a writer is called in MODIFY mode on a fresh copy; the cgio tree walk
             of the file after close must equal the walk after a bare open+close;  (4) seeded random read sequences in READ
             and MODIFY mode with the same two oracles.
Oracles (independent of the model): status, SHA-256 of the bytes, read-API view digest, cgio tree digest, ASan/UBSan.
"""
import hashlib, json, os, re, sys
import vlib

sys.path.insert(0, os.path.join(vlib.ROOT, "translators"))
import c07_gates

CHECKER = ("make -C coq Gates.vo GatesProofs.vo Gen_C07.vo (coqc 8.16.1 kernel, vm_compute of the call-graph closures and "
           "predicates on the regenerated table) ; coqc Properties_C07.v (Print Assumptions)")
STATES = ["rich", "unstr", "bare"]
BACKENDS = ["adf", "hdf5"]


def pregen():
    c07_gates.write_gen(repo=vlib.REPO, impl=vlib.IMPL)


# ------------------------------------------------------------------------------------------------ stub generator
ENUM_VALID = {"DataType_t": "CGNS_ENUMV(RealDouble)", "ZoneType_t": "CGNS_ENUMV(Structured)", "GridLocation_t": "CGNS_ENUMV(Vertex)",
              "BCType_t": "CGNS_ENUMV(BCWall)", "PointSetType_t": "CGNS_ENUMV(PointRange)", "ElementType_t": "CGNS_ENUMV(HEXA_8)",
              "GridConnectivityType_t": "CGNS_ENUMV(Abutting1to1)", "BCDataType_t": "CGNS_ENUMV(Dirichlet)",
              "AverageInterfaceType_t": "CGNS_ENUMV(AverageAll)", "DataClass_t": "CGNS_ENUMV(Dimensional)",
              "SimulationType_t": "CGNS_ENUMV(TimeAccurate)", "RigidGridMotionType_t": "CGNS_ENUMV(ConstantRate)",
              "ArbitraryGridMotionType_t": "CGNS_ENUMV(DeformingGrid)", "WallFunctionType_t": "CGNS_ENUMV(Generic)",
              "AreaType_t": "CGNS_ENUMV(BleedArea)", "GoverningEquationsType_t": "CGNS_ENUMV(Euler)", "ModelType_t": "CGNS_ENUMV(Ideal)"}
HANDLE = {"fn", "file_number"}
CGIO_HANDLE = {"cgio_num", "cgio_num_inp", "cgio_num_out"}
INDEX = {"B", "Z", "S", "P", "Ii", "BC", "F", "C", "G", "A", "D", "N", "Dset", "DS", "R", "J", "I", "index", "Index", "descr_no",
         "IntegralDataIndex", "ArrayNumber", "Fam"}
INT_VALUES = {"cell_dim": "3", "phys_dim": "3", "EquationDimension": "3", "dimension": "3", "nsteps": "2", "nbndry": "0", "ndims": "1",
              "num_dims": "1", "m_numdim": "1", "s_numdim": "1", "m_num_dims": "1", "DataDimension": "1", "file_type": "CG_FILE_NONE",
              "follow_links": "0", "start": "1", "max_ret": "1", "NormalListFlag": "0", "iterations": "5", "nptsets": "1",
              "mode": "CG_MODE_READ", "Ordinal": "1", "compress": "0", "name_len": "32", "max_path_len": "900", "abort_flag": "0",
              "depth": "0", "what": "0", "type": "0", "nnames": "1", "file_mode": "CG_MODE_READ"}
DIMCOUNT = {"ndims", "num_dims", "m_numdim", "s_numdim", "m_num_dims", "DataDimension"}
SKIP = re.compile(r"^(cg_error_exit|cgio_error_exit|cg_exit_on_errors|cg_open|cg_close|cgio_open_file|cgio_close_file|cgio_cleanup|"
                  r"cg_configure|cgio_configure|cg_set_\w+|cg_add_path|cg_error_handler|cg_error_print|cgio_error_abort|cgio_path_add|"
                  r"cgio_path_delete|cg_goto_f08|cg_gorel_f08|cg_get_error|cgio_error_code|cgio_error_message)$")
HAND = {"cg_goto": 'cg_goto(%s, 1, "Zone_t", 1, "end")', "cg_gorel": '(cg_goto(g_fn, 1, "Zone_t", 1, "end"), cg_gorel(%s, "UserDefinedData_t", 1, "end"))'}
NAME_SPECIAL = {("cg_coord_read", "coordname"): '"CoordinateX"', ("cg_coord_general_read", "coordname"): '"CoordinateX"',
                ("cg_field_read", "fieldname"): '"Density"', ("cg_field_general_read", "fieldname"): '"Density"',
                ("cg_model_read", "ModelLabel"): '"GasModel_t"', ("cg_model_write", "ModelLabel"): '"GasModel_t"',
                ("cg_delete_node", "node_name"): '"Note"', ("cg_gopath", "path"): '"/Base/Zone1"',
                ("cg_link_write", "filename"): '""', ("cg_link_write", "name_in_file"): '"/Base/Zone1"',
                ("cg_famname_write", "family_name"): '"Fam1"', ("cg_family_name_write", "family"): '"Fam1"',
                ("cg_multifam_write", "family"): '"Fam1"', ("cg_save_as", "filename"): "g_aux", ("cg_is_cgns", "filename"): "g_work",
                ("cgio_check_file", "filename"): "g_work", ("cgio_find_file", "filename"): "g_work", ("cgio_find_file", "parentfile"): "g_work",
                ("cgio_compress_file", "filename"): "g_work", ("cg_subreg_bcname_write", "bcname"): '"BC1"',
                ("cg_subreg_gcname_write", "gcname"): '"Conn1"', ("cg_node_family_name_write", "family_name"): '"Fam1"',
                ("cg_zone_id", "x"): "x", ("cg_particle_model_read", "ModelLabel"): '"ParticleCollisionModel_t"',
                ("cg_particle_model_write", "ModelLabel"): '"ParticleCollisionModel_t"'}
EXTRA_CTX = {"cg_ptset_read": [10, 12, 9], "cg_ptset_info": [10, 12, 9], "cg_descriptor_read": [8, 2], "cg_ndescriptors": [8, 2],
             "cg_dataclass_read": [2, 8], "cg_units_read": [2], "cg_narrays": [3], "cg_array_info": [3], "cg_gridlocation_read": [3, 9]}
CTX_RULES = [(r"^cg_rind_", 3), (r"^cg_(exponents|expfull|conversion|nexponents)", 4),
             (r"^cg_(convergence|state|equationset|integral|nintegrals|gravity|axisym)", 2), (r"^cg_(governing|model)_", 5),
             (r"^cg_diffusion_", 15), (r"^cg_(bcdataset|nbcdataset)", 7), (r"^cg_node_", 6), (r"^cg_(rotating|multifam|nmultifam)", 8),
             (r"^cg_particle_(governing|model)", 14), (r"^cg_particle_equationset", 13)]


def ctx_of(name, params):
    pn = {p[0] for p in params}
    if pn & (HANDLE | CGIO_HANDLE) or name.startswith("cgio_"):
        return 0
    for rx, c in CTX_RULES:
        if re.search(rx, name):
            return c
    return 1


def is_node_name(pn):
    l = pn.lower()
    return l.endswith("name") and l not in ("filename", "file_name", "cadname", "regionname") and "file" not in l


def arg_for(fname, i, pn, pt, writer):
    """-> (valid expression, kind, [(class, expression, mustfail)])"""
    t = pt.replace("const ", "").strip()
    const = "const" in pt
    if (fname, pn) in NAME_SPECIAL:
        return NAME_SPECIAL[(fname, pn)], "special", []
    if t == "int":
        if pn in HANDLE:
            return "g_fn", "handle", [("closed-handle", "g_closed", 1), ("never-issued-handle", "9999", 1), ("handle-0", "0", 1), ("handle--1", "-1", 1)]
        if pn in CGIO_HANDLE:
            return "g_cgio", "handle", [("closed-handle", "g_cgio_closed", 1), ("never-issued-handle", "9999", 1), ("handle-0", "0", 1), ("handle--1", "-1", 1)]
        if pn in INDEX:
            return "1", "index", [("index-0", "0", 1), ("index--1", "-1", 1), ("index-count+1", "1000", 1), ("index-INT_MAX", "INT_MAX", 1)]
        if pn in DIMCOUNT:
            return "1", "dimcount", [("ndim-0", "0", 1), ("ndim--1", "-1", 1), ("ndim-13", "13", 1)]
        if pn in ("cell_dim", "phys_dim"):
            return "3", "range", [("dim-0", "0", 1), ("dim-4", "4", 1)]
        return INT_VALUES.get(pn, "1"), "int", []
    if t == "cgsize_t":
        v = {"start": "1", "end": "2", "npnts": "2", "b_start": "1", "b_end": "1"}.get(pn, "1")
        inv = []
        if pn == "start":
            inv = [("range-start>end", "5", 0)]
        if pn == "npnts":
            inv = [("npnts-0", "0", 0), ("npnts--1", "-1", 0)]
        return v, "size", inv
    if t == "double":
        if fname.startswith("cgio_"):
            v = {"pid": "g_node", "id": "g_node2", "new_pid": "g_root", "id_inp": "g_node2", "id_out": "g_node", "InputID": "g_node2"}.get(pn, "g_node2")
            if pn == "pid" and fname in ("cgio_delete_node", "cgio_move_node", "cgio_set_name"):
                # the node named by id (the first child of the base) is not a child of the root
                return v, "cgioid", [("pid-not-the-parent", "g_root", 1)]
            return v, "cgioid", []
        return "1.0", "double", []
    if t == "float":
        return "1.0f", "float", []
    if t == "char *" and const:
        l = pn.lower()
        if is_node_name(pn):
            v = "fresh()" if writer else '"Zone1"'
            if pn == "donorname":
                v = '"Zone2"'
            return v, "name", [("name-empty", '""', 1), ("name-33", "NAME33", 1), ("name-1000", "NAME1000", 1)]
        if "file" in l:
            return '"c07_none.cgns"', "filename", []
        if pn in ("data_type", "m_data_type"):
            return '"R8"', "dtype", [("datatype-bad", '"Q9"', 1), ("datatype-empty", '""', 1)]
        if pn == "label":
            return '"UserDefinedData_t"', "label", [("label-33", "NAME33", 0)]
        if pn == "path":
            return '"/Base/Zone1"', "path", []
        return '"text"', "text", []
    if t == "char *":
        return "(char *)OUT(%d)" % i, "out", []
    if t in ENUM_VALID or (t.endswith("_t") and t not in ("cgsize_t", "cglong_t", "size_t")):
        v = ENUM_VALID.get(t, "(%s)2" % t)
        return v, "enum", [("enum--1", "(%s)-1" % t, 1), ("enum-beyond-max", "(%s)1000" % t, 1)]
    if t.endswith("*"):
        base = t[:-1].strip()
        if const and base == "cgsize_t":
            l = pn.lower()
            if pn == "size":
                return "SZ_SIZE", "insz", [("size-zero", "SZ_ZERO", 1)]
            if re.search(r"min|start", l):
                return "SZ_ONES", "rmin", [("range-min>max", "SZ_BAD_HI", 1), ("range-min-0", "SZ_ZERO", 1)]
            if re.search(r"max|end", l):
                return "SZ_TWOS", "rmax", [("range-max<min", "SZ_ZERO", 1), ("range-max-beyond", "SZ_BAD_HI", 1)]
            if re.search(r"dim", l):
                return "SZ_TWOS", "dims", [("dims-zero", "SZ_ZERO", 0)]
            if pn in ("pnts", "range", "donor_range"):
                return "SZ_PR", "pnts", []
            if pn in ("parent_data", "connect_offset"):
                return "SZ_ZERO", "insz", []
            return "SZ_ONES", "insz", []
        if const and base == "int":
            return ("IN_TRANSFORM" if pn == "transform" else "IN_INT"), "inint", []
        if const and base == "float":
            return "INF", "infloat", []
        if const and base == "void":
            return "(const void *)IND", "indata", []
        if const and base == "cglong_t":
            return "LD_ONES", "inlong", []
        if base.endswith("*"):
            return "(%s)PP(%d)" % (pt, i), "out", []
        if base == "void" and not const and re.search(r"write", fname):
            return "(void *)IND", "indata", []
        return "(%s)OUT(%d)" % (t, i), "out", []
    if "(*)" in t:
        return "0", "fnptr", []
    return "0", "other", []


def gen_stubs(d, path):
    """C source with one stub per public entry point (variant 0 = valid arguments, variant k = k-th (position, invalid class)).
    Returns the list of entries (name, variants, ctx, static-only reason)."""
    api = [a for a in d["api"] if a["defined"]]
    protos = d["protos"]
    out, entries, static_only = [], [], {}
    for a in api:
        name = a["name"]
        pr = protos[name]
        if SKIP.match(name):
            static_only[name] = "not callable in a shared process (terminates, closes or reconfigures the library)"
            continue
        writer = a["doc"] == "Write"
        params = pr["params"]
        ret = pr["ret"]
        if name == "cg_where":
            vals = [("(int *)OUT(0)", "out", []), ("(int *)OUT(1)", "out", []), ("(int *)OUT(2)", "out", []), ("(char **)PP(3)", "out", []), ("(int *)OUT(4)", "out", [])]
        elif name == "cg_free":
            vals = [("malloc(8)", "special", [])]
        elif name == "cg_golist":
            vals = [arg_for(name, 0, "fn", "int", False), arg_for(name, 1, "B", "int", False), ("0", "int", []), ("(char **)PP(3)", "out", []), ("(int *)OUT(4)", "out", [])]
        elif name in HAND:
            vals = [arg_for(name, 0, "fn", "int", False)]
        elif pr["variadic"]:
            static_only[name] = "variadic"
            continue
        else:
            vals = [arg_for(name, i, pn, pt, writer) for i, (pn, pt) in enumerate(params)]
        variants = [("valid", [v[0] for v in vals], 0)]
        for i, (v, kind, invs) in enumerate(vals):
            for cls, ex, must in invs:
                argv = [x[0] for x in vals]
                argv[i] = ex
                pname = params[i][0] if i < len(params) else "arg%d" % i
                variants.append(("%s:%s=%s" % (cls, pname, kind), argv, must))
        body = ["static int call_%s(int v) {" % name, "  switch (v) {"]
        for k, (desc, argv, must) in enumerate(variants):
            if name in HAND:
                call = HAND[name] % argv[0]
            else:
                call = "%s(%s)" % (name, ", ".join(argv))
            if ret == "int":
                body.append("  case %d: return %s;" % (k, call))
            elif ret == "void":
                body.append("  case %d: %s; return 0;" % (k, call))
            else:
                body.append("  case %d: return (%s) == 0 ? -77 : 0;" % (k, call))
        body += ["  }", "  return -99;", "}"]
        body.append("static const char *const vd_%s[] = {%s};" % (name, ", ".join('"%s"' % v[0] for v in variants)))
        out += body
        flags = 0
        if name.startswith("cgio_"):
            flags |= 1
        if not ({p[0] for p in params} & (HANDLE | CGIO_HANDLE)) and ctx_of(name, params) == 0:
            flags |= 2
        if name in ("cgio_compress_file",):
            flags |= 4
        entries.append(dict(name=name, fn=name, doc=a["doc"], nvar=len(variants), ctx=ctx_of(name, params), flags=flags,
                            variants=[(v[0], v[2]) for v in variants]))
        for c in EXTRA_CTX.get(name, []):          # the same entry point at another position of the tree
            entries.append(dict(entries[-1], name="%s@%d" % (name, c), ctx=c))
    out.append("static const entry_t entries[] = {")
    for e in entries:
        out.append('  {"%s", call_%s, %d, %d, %d, vd_%s},' % (e["name"], e["fn"], e["nvar"], e["ctx"], e["flags"], e["fn"]))
    out.append("};")
    out.append("#define NENTRIES %d" % len(entries))
    txt = "\n".join(out) + "\n"
    os.makedirs(os.path.dirname(path), exist_ok=True)
    if not os.path.exists(path) or open(path).read() != txt:
        open(path, "w").write(txt)
    return entries, static_only


def build_driver(d):
    gen = os.path.join(vlib.HDIR, "gen_c07")
    entries, static_only = gen_stubs(d, os.path.join(gen, "c07_stubs.inc"))
    exe = vlib.build_harness("c07_drv", ["c07_drv.c"], includes=[gen])
    return exe, entries, static_only


# ------------------------------------------------------------------------------------------------ running the driver
def parse_lines(lines):
    """-> (results [dict per R line], name of the call that was running when the process died or None)"""
    res, pending = [], None
    for l in lines:
        if l.startswith("C "):
            t = l.split()
            pending = (t[1], int(t[2][2:])) if len(t) >= 3 else None
        elif l.startswith("R "):
            t = l.split()
            r = {"name": t[1], "v": int(t[2][2:]) if len(t) > 2 and t[2].startswith("v=") else 0}
            for kv in t[3:]:
                if "=" in kv:
                    k, v = kv.split("=", 1)
                    r[k] = v
                elif kv == "OPENFAIL":
                    r["openfail"] = True
            if "desc" in r:
                r["desc"] = l.split("desc=", 1)[1]
            res.append(r)
            pending = None
        elif l.startswith("O ") and res and "other=CHANGED" in l:
            res[-1]["other"] = "CHANGED"
    return res, pending


def run_pass(exe, op, args_before, n, work, args_after=(), per=None, timeout=300):
    """run `op` over entries [0, n) restarting after a crash; -> (results, crashes [(name, variant, outcome)])"""
    out, crashes, start, guard = [], [], 0, 0
    vstart = None
    while start < n and guard < 60:
        guard += 1
        a = [op] + list(args_before) + [str(start), str(n)] + list(args_after) + ([str(vstart)] if vstart is not None else [])
        lines, outcome = vlib.run_impl(exe, "", args=a, cwd=work, timeout=timeout)
        res, pending = parse_lines(lines)
        out += res
        if outcome == "ok" and pending is None:
            break
        if pending is None:
            crashes.append(("<between calls>", 0, outcome))
            break
        crashes.append((pending[0], pending[1], outcome))
        idx = per[pending[0]]
        if op == "inv":
            # resume with the next variant of the same entry
            nv = per["#nvar"][pending[0]]
            if pending[1] + 1 < nv:
                start, vstart = idx, pending[1] + 1
                # results of this entry before the crash are kept; run only this entry's remaining variants, then go on
                lines2, outcome2 = vlib.run_impl(exe, "", args=[op] + list(args_before) + [str(idx), str(idx + 1), str(vstart)], cwd=work, timeout=timeout)
                r2, p2 = parse_lines(lines2)
                out += r2
                k = 0
                while (outcome2 != "ok" or p2 is not None) and p2 is not None and k < 40:
                    k += 1
                    crashes.append((p2[0], p2[1], outcome2))
                    if p2[1] + 1 >= nv:
                        break
                    lines2, outcome2 = vlib.run_impl(exe, "", args=[op] + list(args_before) + [str(idx), str(idx + 1), str(p2[1] + 1)], cwd=work, timeout=timeout)
                    r2, p2 = parse_lines(lines2)
                    out += r2
            start, vstart = idx + 1, None
        else:
            start = idx + 1
    return out, crashes


def make_templates(exe, work):
    t = {}
    for b in BACKENDS:
        for s in STATES:
            p = os.path.join(work, "t_%s_%s.cgns" % (b, s))
            lines, outcome = vlib.run_impl(exe, "", args=["build", b, s, p], cwd=work)
            if outcome != "ok" or not os.path.exists(p):
                raise vlib.Infra("template %s/%s could not be built: %s %s" % (b, s, outcome, lines[-3:]))
            t[(b, s)] = p
    return t


def model_lists():
    out = {}
    for l in vlib.run_model("c07", "", args=["lists"]):
        t = l.split()
        if t and t[0] == "l":
            out[t[1]] = t[2:]
    return out


def seq_fails(exe, tmpl, work_dir, mode, idxs):
    lines, outcome = vlib.run_impl(exe, "", args=["seq", tmpl, os.path.join(work_dir, "seq.cgns"), str(mode), str(len(idxs))] + [str(i) for i in idxs],
                                   cwd=work_dir, timeout=120)
    end = [l for l in lines if l.startswith("END")]
    if outcome != "ok":
        return True, {"outcome": outcome, "last": lines[-2:]}
    if not end:
        return True, {"outcome": "no END line", "last": lines[-2:]}
    if "CHANGED" in end[0]:
        return True, {"end": end[0]}
    return False, None


def run(ck):
    big = ck.tier == "thorough"
    vlib.build_impl()
    info, d = c07_gates.write_gen(repo=vlib.REPO, impl=vlib.IMPL)
    exe, entries, static_only = build_driver(d)
    idx = {e["name"]: i for i, e in enumerate(entries)}
    res = vlib.coq_check_properties("C07")
    broken = ck.proof_result(res, CHECKER)
    forb = vlib.coq_forbidden_scan("C07")
    ck.extra["forbidden_tokens"] = forb
    if forb:
        ck.violation({"broken_obligation": "forbidden tokens in the Coq files C07 depends on", "hits": forb}, nofail=True)
    vlib.build_modelrun("c07")
    L = model_lists()
    mutators, gated = set(L.get("mutators", [])), set(L.get("gated", []))
    known_u, known_r = set(L.get("known_ungated", [])), set(L.get("known_impure_readers", []))
    docs = {a["name"]: a["doc"] for a in d["api"]}
    ck.extra["translator"] = dict(info, rows_api=len(d["api"]), mutators=len(mutators), gated=len(gated & set(docs)),
                                  documented_writers=sum(1 for a in d["api"] if a["doc"] == "Write"),
                                  documented_reads=sum(1 for a in d["api"] if a["doc"] == "Read"),
                                  readers_storing_through_tree=len(L.get("mirror_readers", [])),
                                  static_exceptions=sorted(known_u | known_r),
                                  rows_failing_mutators_gated=L.get("bad_mutators", []), rows_failing_readers_pure=L.get("bad_readers", []),
                                  unknown_externs=L.get("unknown_externs", []))
    ck.cov["trusted_base"] = [
        "Coq 8.16.1 kernel + vm_compute (no native_compute)",
        "translators/c07_gates.py (clang 14 -ast-dump=json of the four files with the build's include paths; the walk that turns a body "
        "into events and the cond/rf/mg/lm flags) -- cross-checked: every entry point is called on a read-mode handle and in modify mode",
        "the specification-side lists of coq/Gates.v: prim_effects, benign_externs, file_ops, cgio_mutators, known_ungated, "
        "known_impure_readers; the naming rule doc_class of the translator (what is documented as a writer)",
        "the flat event order stands for control flow: sound for gate-before-effect because gates only count when unconditional and "
        "functions with a goto before the gate are rejected; loops are linearised once",
        "extraction: ExtrOcamlBasic only; OCaml 4.13.1; ocaml/eng_c07.ml",
        "harness/c07_drv.c (SHA-256, cgio tree walk, read-API view, template files), the stub generator in checks/C07.py, ASan/UBSan",
    ]
    ck.assumptions = ["the back ends (ADF_*/ADFH_* mutators, unlink/rename) are the only primitives that change a file; everything else changes "
                      "it by calling them (Gates.prim_effects)",
                      "the user's error callback (cg_error_handler) does not call the library",
                      "cg_open / cgio_open_file / cg_save_as are outside the domain: they name a file, they are not calls on a read-mode handle "
                      "(cg_save_as is exercised dynamically: the source stays unchanged)",
                      "functions of other translation units (cg_ftoc.c, cgnstools, ADF/ADFH internals) are not in the table"]
    ck.cov["rule"] = ("every callable public entry point (stub generated from the prototype table) x {ADF, HDF5} x {rich structured, unstructured "
                      "with fixed/poly/mixed sections, bare zone} : (a) on a READ-mode handle: status, SHA-256 of the file, digest of the read-API "
                      "view on the same handle before/after; (b) in MODIFY mode on a fresh copy: cgio tree digest after close vs after a bare "
                      "open+close; (c) seeded random sequences of 12 read calls in READ and MODIFY mode. non-trivial = a call of a mutator on a "
                      "read-mode handle, or a read call that returned CG_OK in MODIFY mode; distinct by (entry point, back end, state, mode)")
    work = ck.work
    tm = make_templates(exe, work)
    n = len(entries)
    dyn = {"ro_calls": 0, "md_calls": 0, "seq_runs": 0, "crashes": [], "mutators_rejected_with_mode_message": set(), "mutators_failed_other": set(),
           "args_valid_in_modify": set(), "entry_points_called": n, "static_only": sorted(static_only)}
    findings = {}      # key -> replay dict (first witness)
    inconclusive = set()

    def note(key, wit):
        findings.setdefault(key, wit)

    ro_mode_rejected = {}
    for b in BACKENDS:
        for s in STATES:
            wk = os.path.join(work, "w_%s_%s.cgns" % (b, s))
            out, crashes = run_pass(exe, "ro", [tm[(b, s)], wk], n, work, per=idx)
            for nm, v, oc in crashes:
                dyn["crashes"].append({"pass": "ro", "backend": b, "state": s, "entry": nm, "outcome": oc})
                note("ungated:" + nm.split("@")[0], {"level": "ro", "backend": b, "state": s, "entry": nm, "outcome": oc,
                                                     "oracle": "no sanitizer report / signal while calling an entry point on a READ-mode handle"})
            for r in out:
                if r.get("openfail"):
                    continue
                dyn["ro_calls"] += 1
                nm = r["name"]
                bn = nm.split("@")[0]
                is_mut = docs.get(bn) == "Write" or (bn in mutators and docs.get(bn) != "Read")
                ck.case(("ro", nm, b, s) if is_mut else None,
                        sample={"pass": "read-mode handle", "entry": nm, "backend": b, "state": s, "status": r.get("st"), "message": r.get("msg"),
                                "file": r.get("file"), "view": r.get("view")} if is_mut and len(ck.cov["samples"]) < 2 else None)
                wit = {"level": "ro", "backend": b, "state": s, "entry": nm, "observed": r,
                       "oracle": "a call on a READ-mode handle leaves the SHA-256 of the file and the read-API view unchanged; a mutator returns an error",
                       "replay_hint": ".build/h/c07_drv ro <template> <work> %d %d" % (idx[nm], idx[nm] + 1)}
                if r.get("file") == "CHANGED" or r.get("view") == "CHANGED":
                    note("ungated:" + bn, wit)
                elif is_mut and r.get("st") == "0":
                    note("ungated:" + bn, dict(wit, what="a mutator returned success on a READ-mode handle"))
                elif docs.get(bn) == "Read" and r.get("st") not in (None, "0") and r.get("msg") == "mode":
                    # a documented read that is refused on a READ-mode handle "because the file is read-only" tried to write
                    note("ungated:" + bn, dict(wit, what="a call documented as a read was refused on a READ-mode handle with a read-only message: it attempted a write"))
                if is_mut and r.get("st") not in (None, "0"):
                    (dyn["mutators_rejected_with_mode_message"] if r.get("msg") == "mode" else dyn["mutators_failed_other"]).add(bn)
                if b == "adf" and s == "rich" and "@" not in nm:
                    ro_mode_rejected[nm] = (r.get("st") not in (None, "0") and r.get("msg") == "mode")
    ck.cov["traces_validated_against_impl"] += dyn["ro_calls"]

    # (a2) the same with a second file open in MODIFY mode that was the last file the library touched: the mode a call
    # consults must be the mode of the file it acts on (its handle, or the file of the current position), never the
    # "current file" left behind by the previous call
    dyn["ro2_calls"] = 0
    for b in BACKENDS:
        for s in (STATES if big else ["rich"]):
            wk = os.path.join(work, "ro2_%s_%s.cgns" % (b, s))
            out, crashes = run_pass(exe, "ro2", [tm[(b, s)], wk], n, work, per=idx)
            for nm, v, oc in crashes:
                dyn["crashes"].append({"pass": "ro2", "backend": b, "state": s, "entry": nm, "outcome": oc})
                note("ungated:" + nm.split("@")[0], {"level": "ro2", "backend": b, "state": s, "entry": nm, "outcome": oc,
                                                     "oracle": "no sanitizer report / signal on a READ-mode handle while another file is open in MODIFY mode"})
            for r in out:
                if r.get("openfail"):
                    continue
                dyn["ro2_calls"] += 1
                nm = r["name"]; bn = nm.split("@")[0]
                is_mut = docs.get(bn) == "Write" or (bn in mutators and docs.get(bn) != "Read")
                ck.case(("ro2", nm, b, s) if is_mut else None, sample=None)
                wit = {"level": "ro2", "backend": b, "state": s, "entry": nm, "observed": r,
                       "oracle": "a READ-mode file A and a MODIFY-mode file B are open; B is read (cg_nbases) right before the call, which is "
                                 "made on A's handle / on a position inside A: A's bytes, A's session view and B's tree must not change, and "
                                 "a mutator must fail",
                       "replay_hint": ".build/h/c07_drv ro2 <template> <work> %d %d" % (idx[nm], idx[nm] + 1)}
                if r.get("file") == "CHANGED" or r.get("view") == "CHANGED" or r.get("other") == "CHANGED":
                    note("ungated:" + bn, wit)
                elif is_mut and r.get("st") == "0":
                    note("ungated:" + bn, dict(wit, what="a mutator returned success on a READ-mode handle / position"))
    ck.cov["traces_validated_against_impl"] += dyn["ro2_calls"]

    # (b) every entry point in MODIFY mode on a fresh copy: readers must leave the tree alone; writers tell whether the arguments were valid
    for b in BACKENDS:
        for s in (STATES if big else ["rich", "bare"]):
            wk = os.path.join(work, "m_%s_%s.cgns" % (b, s))
            out, crashes = run_pass(exe, "md", [tm[(b, s)], wk], n, work, per=idx)
            for nm, v, oc in crashes:
                dyn["crashes"].append({"pass": "modify", "backend": b, "state": s, "entry": nm, "outcome": oc})
                if docs.get(nm.split("@")[0]) == "Read":
                    note("ungated:" + nm.split("@")[0], {"level": "md", "backend": b, "state": s, "entry": nm, "outcome": oc,
                                                         "oracle": "no sanitizer report / signal while calling a documented read in MODIFY mode"})
            for r in out:
                if r.get("openfail"):
                    continue
                dyn["md_calls"] += 1
                nm = r["name"]
                bn = nm.split("@")[0]
                reader = docs.get(bn) == "Read"
                ck.case(("md", nm, b, s) if reader and r.get("st") == "0" else None,
                        sample={"pass": "modify mode, fresh copy", "entry": nm, "backend": b, "state": s, "status": r.get("st"), "tree": r.get("tree")}
                        if reader and r.get("st") == "0" and len(ck.cov["samples"]) < 4 else None)
                if r.get("st") == "0":
                    dyn["args_valid_in_modify"].add(bn)
                if reader and r.get("tree") == "CHANGED":
                    note("ungated:" + bn, {"level": "modify-reader", "backend": b, "state": s, "entry": nm, "observed": r,
                                           "oracle": "a call documented as a read leaves the cgio tree walk of the file (after close) equal to the walk "
                                                     "after a bare open+close in the same mode",
                                           "replay_hint": ".build/h/c07_drv md <template> <work> %d %d" % (idx[nm], idx[nm] + 1)})
    ck.cov["traces_validated_against_impl"] += dyn["md_calls"]

    # (c) seeded random read sequences
    excluded = known_u | known_r | {k.split(":", 1)[1] for k in findings}
    readers = [i for i, e in enumerate(entries) if e["doc"] == "Read" and e["fn"] not in excluded and not (e["flags"] & 1)
               and not re.search(r"^cg_(free|save_as)$", e["name"])]
    nseq = 6 if big else 2
    if not readers:          # every documented read is already implicated by the passes above: nothing left to sequence
        nseq = 0
    for b in BACKENDS:
        for s in STATES:
            for mode in (0, 2):
                for j in range(nseq):
                    seq = [ck.rng.choice(readers) for _ in range(12)]
                    dyn["seq_runs"] += 1
                    fails, det = seq_fails(exe, tm[(b, s)], work, mode, seq)
                    ck.case(("seq", b, s, mode, j), sample=None)
                    if fails:
                        small = vlib.ddmin(seq, lambda sub: seq_fails(exe, tm[(b, s)], work, mode, sub)[0], max_tests=60)
                        _, det2 = seq_fails(exe, tm[(b, s)], work, mode, small)
                        note("ungated:" + entries[small[0]]["fn"],
                             {"level": "sequence", "backend": b, "state": s, "mode": mode, "sequence": [entries[i]["name"] for i in small],
                              "indices": small, "detail": det2 or det,
                              "oracle": "a sequence of read calls leaves the cgio tree walk (and, in READ mode, the read-API view) unchanged"})
    ck.cov["traces_validated_against_impl"] += dyn["seq_runs"]

    # ---- correspondence (tie C): the extracted analysis vs what the implementation does
    corr = []
    for nm, rej in sorted(ro_mode_rejected.items()):
        if nm in gated and not rej:
            # gated per model but not rejected with a mode message: inconclusive when another check fired first
            inconclusive.add(nm)
        if rej and nm not in gated and nm not in mutators:
            corr.append({"entry": nm, "model": "not gated, not a mutator", "impl": "rejected on a read-mode handle with a mode message"})
    for nm in sorted(gated & set(idx)):
        if ro_mode_rejected.get(nm) is False and nm in dyn["args_valid_in_modify"]:
            # the same arguments succeed in MODIFY mode, so nothing but the gate can have failed -- yet no mode message
            r = [x for x in [nm]]
            corr.append({"entry": nm, "model": "gated", "impl": "valid arguments (succeed in MODIFY mode) but no mode-class rejection in READ mode"})
    dyn["gated_but_other_check_fired_first"] = sorted(inconclusive - {c["entry"] for c in corr})

    # ---- findings
    for key, wit in sorted(findings.items()):
        ck.finding(key, wit)
    nm_bad = [x for x in L.get("bad_mutators", []) + L.get("bad_readers", [])]
    unexplained = [x for x in nm_bad if ("ungated:" + x) not in findings]
    if (broken or unexplained or corr) and not ck.violations:
        # widen: the functions behind the broken obligation, all states, both back ends, READ and MODIFY, three repetitions with other fresh names
        found = False
        for x in unexplained:
            if x not in idx:
                continue
            for b in BACKENDS:
                for s in STATES:
                    for op, extra in (("ro", []), ("md", [])):
                        wk = os.path.join(work, "x_%s_%s.cgns" % (b, s))
                        lines, outcome = vlib.run_impl(exe, "", args=[op, tm[(b, s)], wk, str(idx[x]), str(idx[x] + 1)] + extra, cwd=work)
                        rr, _ = parse_lines(lines)
                        ck.cov["evaluations"] += 1
                        for r in rr:
                            if r.get("file") == "CHANGED" or r.get("view") == "CHANGED" or (op == "md" and docs.get(x) == "Read" and r.get("tree") == "CHANGED") \
                                    or outcome != "ok":
                                ck.finding("ungated:" + x, {"level": op, "backend": b, "state": s, "entry": x, "observed": r, "outcome": outcome,
                                                            "found_by": "widened search through the row that fails the obligation"})
                                found = True
        if not found and not ck.violations:
            ck.violation({"broken_obligations": broken, "rows_failing_mutators_gated": L.get("bad_mutators", []),
                          "rows_failing_readers_pure": L.get("bad_readers", []), "broken_correspondence": corr[:5],
                          "note": "an obligation over the regenerated skeleton table no longer checks (or the extracted analysis and the implementation "
                                  "disagree about a gate) but every call explored on read-mode handles left file and view unchanged and every read call "
                                  "in MODIFY mode left the tree unchanged"}, nofail=True)
    # ---- read-only SESSIONS the per-entry-point passes cannot express (harness/c07_modes.c): every CG_CONFIG_COMPRESS
    # setting around a CG_MODE_READ open/close of a file with deleted space; every spelling of the cgio read mode
    # (CGIO_MODE_READ, 'r', 'R') against every cgio mutator, with the read-API view of the same handle and the bytes
    mexe = vlib.build_harness("c07_modes", ["c07_modes.c"])
    dyn["mode_sessions"] = {}
    for op in ("compress", "spell"):
        for b in BACKENDS:
            lines, outcome = vlib.run_impl(mexe, "", args=[op, b, os.path.join(work, "modes_%s_%s.cgns" % (op, b))], cwd=work, timeout=300)
            ck.cov["evaluations"] += len(lines)
            ck.cov["traces_validated_against_impl"] += 1
            dyn["mode_sessions"]["%s/%s" % (op, b)] = len(lines)
            bad = [l for l in lines if " BAD " in l]
            if outcome != "ok" or bad or not lines:
                what = bad[0].split(" BAD ")[0].replace(" ", ":") if bad else outcome
                ck.finding("ro-session:%s:%s" % (op, what.split(":", 1)[-1] if bad else what),
                           {"level": "session", "backend": b, "scenario": op, "observed": bad[:8], "outcome": outcome,
                            "oracle": "bytes and inode of the file, and what the read API returns on the same handle, are unchanged; every mutator fails",
                            "replay_hint": ".build/h/c07_modes %s %s /tmp/x.cgns" % (op, b)})
    for k in ("mutators_rejected_with_mode_message", "mutators_failed_other", "args_valid_in_modify"):
        dyn[k + "_count"] = len(dyn[k])
        dyn[k] = sorted(dyn[k])[:400]
    dyn["mutators_total"] = len(mutators | {a for a in docs if docs[a] == "Write"})
    dyn["mutators_exercised_on_read_handle"] = len((mutators | {a for a in docs if docs[a] == "Write"}) & set(idx))
    dyn["mutators_with_arguments_proved_valid"] = len((mutators | {a for a in docs if docs[a] == "Write"}) & set(dyn["args_valid_in_modify"]))
    dyn["findings"] = sorted(findings)
    ck.extra["dynamic"] = dyn
    ck.extra["input_distribution"] = {"backends": BACKENDS, "states": STATES, "entry_points": n, "sequence_length": 12,
                                      "sequences_per_backend_state_mode": nseq, "modes_for_sequences": ["READ", "MODIFY"]}


def replay(ck, path):
    r = json.load(open(path))
    vlib.build_impl()
    info, d = c07_gates.write_gen(repo=vlib.REPO, impl=vlib.IMPL)
    exe, entries, static_only = build_driver(d)
    idx = {e["name"]: i for i, e in enumerate(entries)}
    tm = make_templates(exe, ck.work)
    if r.get("level") in ("ro", "ro2", "md", "modify-reader") and r.get("entry") in idx:
        op = r["level"] if r["level"] in ("ro", "ro2") else "md"
        i = idx[r["entry"]]
        lines, outcome = vlib.run_impl(exe, "", args=[op, tm[(r["backend"], r["state"])], os.path.join(ck.work, "replay.cgns"), str(i), str(i + 1)], cwd=ck.work)
        rr, _ = parse_lines(lines)
        fails = outcome != "ok" or any(x.get("file") == "CHANGED" or x.get("view") == "CHANGED" or x.get("other") == "CHANGED" or
                                       (op == "md" and x.get("tree") == "CHANGED") or
                                       (op in ("ro", "ro2") and "what" in r and x.get("st") == "0") for x in rr)
        det = {"outcome": outcome, "results": rr}
    elif r.get("level") == "sequence":
        seq = [idx[nm] for nm in r["sequence"] if nm in idx]
        fails, det = seq_fails(exe, tm[(r["backend"], r["state"])], ck.work, r["mode"], seq)
    else:
        print("replay names a broken obligation/correspondence, no input to run:", json.dumps(r)[:800])
        return 1
    print("replay: property C07 on this input: %s %s" % ("FAILS" if fails else "holds", json.dumps(det)[:600]))
    return 1 if fails else 0
