"""C09 -- copy, convert, compact and save-as preserve the whole tree; cgnsdiff is silent on such pairs and reports
every elementary edit.

Model     : coq/Copy.v -- recurse_nodes / cgio_copy_node / cgio_compute_data_size / cgio_copy_file / rewrite_file
            transcribed over an inductive tree (proper nodes and link nodes) and a world of files; cgnsdiff's
            compare_data / compare_nodes (children sorted by name, then matched).
Proofs    : coq/CopyProofs.v / Properties_C09.v -- the copy is the identity on EVERY well-formed tree (any depth, fan-out,
            types, sizes) with links kept; with follow_links the result is the expansion of the external links
            (induction on the tree, nested over child lists, fuel only for link following); save-as / convert /
            rewrite as compositions; cgnsdiff -d is silent iff the forests are equal up to child order; ..._refuted
            witnesses of the two known findings; ..._old_refuted witnesses of what the five repairs in /repo changed.
Corpus    : corpus/C09/*.json run first: the witnesses of the five repaired defects must PASS (a regression is a
            VIOLATION under the defect's key), the two known findings print KNOWN-FINDING while they still fail.
Tie C     : seeded worlds (1-3 files, internal / external / nested / chained links, all ten data types, data on both
            sides of 4096 / 100000 bytes, arrays rewritten larger (several ADF chunks), files with deleted nodes) x
            {ADF,HDF5}->{ADF,HDF5} x follow on/off through cgio_copy_file, cg_save_as, cgio_compress_file,
            compress-on-close, and the cgnsconvert / cgnscompress binaries built from the working tree; the
            extracted model predicts the result tree and cgnsdiff's exact output.
Oracle    : (independent of the model) harness/c09_ops.c walks source and result through cgio reads with its own
            recursion and size table: dump(source, links as requested) == dump(result); cgnsdiff under every option set
            (-c -i -d in all combinations, -f -q -t, dataset mode) prints nothing on (file, copy) and prints something on
            (file, one elementary edit of the copy) exactly when the walks, read as the options ask, differ.
"""
import concurrent.futures, copy as _copy, hashlib, json, os, re, shutil, struct, subprocess
import vlib
from checks import nodedb

CHECKER = "make -C coq Properties_C09.vo deps (coqc 8.16.1 kernel); coqc Properties_C09.v (Print Assumptions)"
TOOLS = os.path.join(vlib.REPO, "src", "tools")
TY = nodedb.TYPES

WORKERS = 4


def hx(b):
    return b.hex() if b else "-"


_REPORTED = set()


def finding_once(ck, key, replay):
    """ck.finding, at most once per key in a run"""
    k = key
    if k in _REPORTED:
        return
    _REPORTED.add(k)
    ck.finding(key, replay)


# ------------------------------------------------------------------------------------------------ trees
def N(name, label=b"", dt="MT", dims=(), data=b"", kids=None, grow=False):
    return {"k": "N", "name": name, "label": label, "dt": dt, "dims": list(dims), "data": data,
            "kids": kids if kids is not None else [], "grow": grow}


def L(name, file, path):
    return {"k": "L", "name": name, "file": file, "path": path}


def walk(kids, prefix=()):
    """yield (path tuple of names, node, parent kid list)"""
    for n in kids:
        p = prefix + (n["name"],)
        yield p, n, kids
        if n["k"] == "N":
            yield from walk(n["kids"], p)


def pstr(p):
    return b"/" + b"/".join(p)


def fold(b, c=True, i=True):
    """cgnsdiff's copy_name as the independent oracle reads the manual: -c folds case, -i drops white space"""
    if i:
        b = bytes(x for x in b if x not in b" \t\n\v\f\r")
    if c:
        b = bytes(x + 32 if 65 <= x <= 90 else x for x in b)
    return b


def fresh_name(rng, siblings):
    """a random name that stays distinct from its siblings under -c and -i (collisions are the corpus' business)"""
    used = {fold(x) for x in siblings}
    for _ in range(200):
        nm = nodedb.rand_name(rng, set(siblings))
        if fold(nm) and fold(nm) not in used:
            return nm
    return b"node%d" % rng.randint(0, 10 ** 9)


def rand_label(rng):
    n = rng.choice([0, 0, 1, 5, 12, 31, 32])
    return bytes(rng.choice(nodedb.NAME_ALPHA.strip()) for _ in range(n))


def rand_data_node(rng, name, big, be):
    r = rng.random()
    if r < 0.3:
        return N(name, rand_label(rng))
    if r < 0.34 and be == "adf":
        return N(name, rand_label(rng), rng.choice(list(TY)), [], b"")          # typed, no dimensions (ADF only)
    ty = rng.choice(list(TY))
    dims = nodedb.pick_dims(rng, TY[ty], big and rng.random() < 0.25)
    if nodedb.prod(dims) * TY[ty] > 300000:
        dims = [1000]
    if rng.random() < 0.15:
        dims = [1] * rng.randint(1, 12)                                        # up to 12 dimensions
    return N(name, rand_label(rng), ty, dims, rng.randbytes(nodedb.prod(dims) * TY[ty]), grow=rng.random() < 0.2)


def gen_plain(rng, size, be, big=False, shape="mixed"):
    """children of the root of a link-free tree with `size` nodes"""
    root = []
    lists = [(root, 0)]
    for _ in range(size):
        if shape == "deep":
            kl, d = lists[-1] if rng.random() < 0.8 else rng.choice(lists)
        elif shape == "wide":
            kl, d = lists[0] if rng.random() < 0.7 else rng.choice(lists)
        else:
            kl, d = rng.choice(lists)
        nm = fresh_name(rng, {k["name"] for k in kl})
        n = rand_data_node(rng, nm, big, be)
        kl.append(n)
        if d < 40:
            lists.append((n["kids"], d + 1))
    return root


PROBE = b"probe"


def probe_subtree(rng):
    """nodes every source carries so that each elementary edit has a target of every kind: arrays of rank 1..4, a
    multi-chunk array, a deep node, a wide parent (never link targets: appended after the links were placed)"""
    rb = rng.randbytes
    deep = cur = []
    for i in range(12):
        n = N(b"d%d" % i, b"DeepLabel%d" % i); cur.append(n); cur = n["kids"]
    return N(PROBE, b"", kids=[
        N(b"r1", b"", "I4", [5], rb(20)), N(b"r2", b"", "R4", [3, 4], rb(48)), N(b"r3", b"", "I8", [2, 3, 4], rb(192)),
        N(b"r4", b"", "U4", [2, 2, 3, 2], rb(96)), N(b"mc", b"", "I4", [1500], rb(6000), grow=True),
        # the highest ranks the node database admits (CGIO_MAX_DIMENSIONS = 12) and the one below
        N(b"r11", b"", "R8", [1, 2, 1, 1, 2, 1, 1, 1, 1, 1, 3], rb(96)), N(b"r12", b"", "I4", [2, 1, 1, 1, 1, 3, 1, 1, 1, 1, 1, 2], rb(48)),
        N(b"deep", b"", kids=deep), N(b"wide", b"", kids=[N(b"c%03d" % i) for i in range(40)]),
        N(b"names", b"", kids=names_family(rng)),
        # numeric values for -t: every float type, complex ones with a small imaginary part in the first element
        N(b"t_r4", b"", "R4", [3], struct.pack("<3f", 1.5, -2.25, 1e-3)), N(b"t_r8", b"", "R8", [3], struct.pack("<3d", 1.5, -2.25, 1e-3)),
        N(b"t_x4", b"", "X4", [2], struct.pack("<4f", 1.0, 1e-30, 3.0, -4.0)), N(b"t_x8", b"", "X8", [2], struct.pack("<4d", 1.0, 1e-300, 3.0, -4.0))])


def names_family(rng):
    """>= 44 siblings aimed at cgnsdiff's name normalisation (-c, -i): raw byte order differs from the folded order (upper
    and lower case initials mixed: B D a c e ...; Zone 1 .. Zone10 Zone20), blanks at every interior position, all keys
    distinct under -c, -i and both; every child has its own label and one its own data, so that a wrong pairing shows"""
    fixed = [b"B", b"D", b"a", b"c", b"e", b"Zone 1", b"Zone 2", b"Zone 9", b"Zone10", b"Zone20", b"ZONE 3", b"zone 4",
             b"x1 bcd", b"x2b cd", b"x3bc d", b"x4 b c d", b"X5b  cd"]
    names, keys = [], set()
    for nm in fixed:
        names.append(nm); keys.add(fold(nm))
    i = 0
    while len(names) < 44:
        base = bytes([97 + i % 26, 97 + (i * 7 + 3) % 26]) + b"%d" % i
        i += 1
        nm = bytes(c - 32 if 97 <= c <= 122 and rng.random() < 0.5 else c for c in base)
        if rng.random() < 0.4:
            k = rng.randint(1, len(nm) - 1); nm = nm[:k] + b" " + nm[k:]
        if fold(nm) in keys:
            continue
        names.append(nm); keys.add(fold(nm))
    rng.shuffle(names)
    return [N(nm, b"L%d" % j, "I4", [1], struct.pack("<i", j)) if j % 5 == 0 else N(nm, b"L%d" % j) for j, nm in enumerate(names)]


TARGETED = ["redim:r1:0", "redim:r2:0", "redim:r2:1", "redim:r3:0", "redim:r3:1", "redim:r3:2", "redim:r4:0", "redim:r4:1",
            "redim:r4:3", "redim:r12:11", "databyte:r12", "databyte:mc", "relabel:deep", "retype:r1", "retype:r2", "addchild:wide", "delchild:wide",
            "relabel:names", "databyte:names", "rename:case", "rename:blank", "delchild:names",
            "value:t_r4:1", "value:t_r8:2", "value:t_x4:0", "value:t_x4:1", "value:t_x4:3", "value:t_x8:0", "value:t_x8:1", "value:t_x8:2"]
DELTA = 0.5          # what a "value" edit adds to one component; tolerances 0.125 (reported) and 2.0 (silent) bracket it


def targeted_edit(spec, kids):
    """an elementary edit aimed at one case: every position of the dimension vector for ranks 1..4, the last byte of a
    multi-chunk array, the label of a 13-deep node, a type change of equal size (I4 <-> R4), a child added / removed at
    the last position of a wide parent.  Same return value as pick_edit."""
    t = spec.split(":")
    if node_at(kids, (PROBE,)) is None:
        return None
    if t[0] == "redim":
        p = (PROBE, t[1].encode()); n = node_at(kids, p); i = int(t[2])
        nd = list(n["dims"]); nd[i] += 1
        sz = TY[n["dt"]]; ndata = (n["data"] + b"\0" * (nodedb.prod(nd) * sz))[:nodedb.prod(nd) * sz]
        return "redim", p, [",".join(map(str, nd))], lambda k, p=p, nd=nd, ndata=ndata: node_at(k, p).update(dims=nd, data=ndata)
    if t[0] == "value":                             # one component of one element of a numeric array moves by DELTA
        p = (PROBE, t[1].encode()); n = node_at(kids, p); i = int(t[2])
        fmt = "<%d%s" % (len(n["data"]) // (4 if n["dt"] in ("R4", "X4") else 8), "f" if n["dt"] in ("R4", "X4") else "d")
        v = list(struct.unpack(fmt, n["data"])); v[i] += DELTA
        nd = struct.pack(fmt, *v)
        return "setdata", p, [nd.hex()], lambda k, p=p, nd=nd: node_at(k, p).update(data=nd)
    if len(t) > 1 and t[1] in ("names", "case", "blank"):
        fam = node_at(kids, (PROBE, b"names"))["kids"]
        order = sorted(fam, key=lambda n: fold(n["name"]))
        if t[0] == "relabel":                      # a child in the middle of the folded order
            n = order[len(order) // 2]; p = (PROBE, b"names", n["name"])
            return "relabel", p, [hx(b"Changed")], lambda k, p=p: node_at(k, p).update(label=b"Changed")
        if t[0] == "databyte":
            n = [x for x in order if x["data"]][-1]; p = (PROBE, b"names", n["name"])
            nd = bytearray(n["data"]); nd[-1] ^= 1
            return "databyte", p, [str(len(nd) - 1)], lambda k, p=p, nd=bytes(nd): node_at(k, p).update(data=nd)
        if t[0] == "delchild":
            n = order[1]; p = (PROBE, b"names", n["name"])

            def rm(k, p=p):
                par = node_at(k, p[:-1])["kids"]
                par[:] = [x for x in par if x["name"] != p[-1]]
            return "delchild", p, [], rm
        if t[1] == "case":                         # a rename that only changes the case of one letter: silent under -c
            n = next(x for x in order if any(65 <= c <= 90 or 97 <= c <= 122 for c in x["name"]))
            b = bytearray(n["name"]); j = next(j for j, c in enumerate(b) if 65 <= c <= 90 or 97 <= c <= 122); b[j] ^= 32
        else:                                      # a rename that only removes a blank: silent under -i
            n = next(x for x in order if b" " in x["name"])
            b = bytearray(n["name"].replace(b" ", b"", 1))
        nn = bytes(b); p = (PROBE, b"names", n["name"])
        if any(x["name"] == nn for x in fam):
            return None
        return "rename", p, [hx(nn)], lambda k, p=p, nn=nn: node_at(k, p).update(name=nn)
    if t[0] == "databyte":
        p = (PROBE, (t[1] if len(t) > 1 else "mc").encode()); n = node_at(kids, p); off = len(n["data"]) - 1
        nd = bytearray(n["data"]); nd[off] ^= 1
        return "databyte", p, [str(off)], lambda k, p=p, nd=bytes(nd): node_at(k, p).update(data=nd)
    if t[0] == "relabel":
        p = (PROBE, b"deep") + tuple(b"d%d" % i for i in range(12))
        return "relabel", p, [hx(b"Changed")], lambda k, p=p: node_at(k, p).update(label=b"Changed")
    if t[0] == "retype":
        p = (PROBE, t[1].encode()); n = node_at(kids, p); nt = "R4" if n["dt"] == "I4" else "I4"
        return "retype", p, [nt], lambda k, p=p, nt=nt: node_at(k, p).update(dt=nt)
    if t[0] == "addchild":
        p = (PROBE, b"wide")
        return "addchild", p, [hx(b"zzz_last")], lambda k, p=p: node_at(k, p)["kids"].append(N(b"zzz_last"))
    if t[0] == "delchild":
        p = (PROBE, b"wide", b"c039")

        def rm(k, p=p):
            par = node_at(k, p[:-1])["kids"]
            par[:] = [x for x in par if x["name"] != p[-1]]
        return "delchild", p, [], rm
    return None


def inside(p, roots):
    return any(p[:len(r)] == r for r in roots)


def gen_world(rng, be, tag, opts):
    """-> dict(files={key: filename}, trees={filename: kids}, order=[filenames, targets first], src=filename, ...)"""
    ext = "adf" if be == "adf" else "hdf"
    keys = ["A"] if opts.get("nolinks") else (["A", "B"] if rng.random() < 0.4 else ["A", "B", "C"])
    fn = {k: "%s_%s.%s" % (tag, k, ext) for k in keys}
    sizes = {"A": opts.get("size", rng.randint(6, 45)), "B": rng.randint(4, 18), "C": rng.randint(3, 10)}
    trees = {k: gen_plain(rng, sizes[k], be, opts.get("big", False), opts.get("shape", "mixed") if k == "A" else "mixed") for k in keys}
    flags = {"links": 0, "ext": 0, "int": 0, "chain": 0, "nested": 0, "dangling": 0}
    if not opts.get("nolinks"):
        reserved = {}
        for k in keys:
            nodes = [p for p, n, _ in walk(trees[k])]
            reserved[k] = rng.sample(nodes, min(len(nodes), rng.randint(1, 4)))

        def free_parents(k):
            out = [((), trees[k])]
            for p, n, _ in walk(trees[k]):
                if n["k"] == "N" and not inside(p, reserved[k]):
                    out.append((p, n["kids"]))
            return out

        def add_link(k, parent_kids, file, path):
            nm = fresh_name(rng, {x["name"] for x in parent_kids})
            parent_kids.insert(rng.randint(0, len(parent_kids)), L(nm, file, path))
            flags["links"] += 1
            return nm
        # nested: inside B's reserved subtrees, external links into C (followed recursively)
        if "C" in keys:
            for r in reserved["B"]:
                if rng.random() < 0.5:
                    cand = [n["kids"] for p, n, _ in walk(trees["B"]) if n["k"] == "N" and p[:len(r)] == r]
                    add_link("B", rng.choice(cand), fn["C"].encode(), pstr(rng.choice(reserved["C"])))
                    flags["nested"] += 1
        link_nodes = {k: [] for k in keys}             # paths of internal link nodes outside reserved subtrees
        for k in keys:
            for _ in range(rng.randint(0, 3) if k != "A" else rng.randint(1, 4)):
                pp, kl = rng.choice(free_parents(k))
                if link_nodes[k] and rng.random() < 0.3:
                    tgt = rng.choice(link_nodes[k]); flags["chain"] += 1            # link to a link
                else:
                    tgt = rng.choice(reserved[k])
                nm = add_link(k, kl, b"", pstr(tgt))
                link_nodes[k].append(pp + (nm,))
                flags["int"] += 1
        for _ in range(rng.randint(1, 4)):
            k2 = rng.choice(keys[1:])
            pp, kl = rng.choice(free_parents("A"))
            if link_nodes[k2] and rng.random() < 0.3 and not (be == "hdf5"):
                tgt = rng.choice(link_nodes[k2]); flags["chain"] += 1               # link to a link in another file
            else:
                tgt = rng.choice(reserved[k2])
            add_link("A", kl, fn[k2].encode(), pstr(tgt))
            flags["ext"] += 1
        if opts.get("dangling"):
            pp, kl = rng.choice(free_parents("A"))
            add_link("A", kl, b"", b"/no/such/node")
            flags["dangling"] += 1
        if opts.get("widelinks"):
            # a parent with 101..130 cheap children and EXTERNAL links at the first, a middle and the last position (in creation
            # order and in name order alike), one level down so that the per-sibling counting of recurse_nodes adds up
            nkids = rng.randint(101, 130)
            wide = [N(b"c%03d" % i, rand_label(rng) if i % 17 == 0 else b"") for i in range(nkids)]
            k2 = lambda: rng.choice(keys[1:])
            t = [k2(), k2(), k2()]
            wide.insert(0, L(b"a_first", fn[t[0]].encode(), pstr(rng.choice(reserved[t[0]]))))
            mid = nkids // 2 + 1
            wide.insert(mid, L(wide[mid - 1]["name"] + b"_mid", fn[t[1]].encode(), pstr(rng.choice(reserved[t[1]]))))
            wide.append(L(b"z_last", fn[t[2]].encode(), pstr(rng.choice(reserved[t[2]]))))
            holder = N(b"Zone%d" % nkids, b"Zone_x", kids=[N(b"pre%d" % i) for i in range(rng.randint(0, 3))] + [N(b"Wide", b"", kids=wide)])
            trees["A"].append(holder)
            flags["links"] += 3; flags["ext"] += 3; flags["wide_links"] = nkids
    if opts.get("mll"):
        trees["A"].insert(0, N(b"CGNSLibraryVersion", b"CGNSLibraryVersion_t", "R4", [1], struct.pack("<f", opts["mll"])))
    trees["A"].append(probe_subtree(rng))
    return {"fn": fn, "trees": {fn[k]: trees[k] for k in keys}, "order": [fn[k] for k in reversed(keys)], "src": fn["A"],
            "be": be, "flags": flags}


# ------------------------------------------------------------------------------------------------ building files
def build_script(path, be, kids, rng):
    """cgio_h.c script creating the tree (some arrays written small first then re-dimensioned, some garbage deleted)"""
    lines = ["file 1 %s %s w" % (path, be)]
    uid = [0]

    def fresh():
        uid[0] += 1
        return uid[0]

    def emit(parent, kl):
        for n in kl:
            if rng.random() < 0.08:                                      # garbage that compaction drops
                g = fresh()
                lines.append("create 1 %d %d %s" % (parent, g, hx(b"tmp%d" % g)))
                lines.append("dims 1 %d I4 %d" % (g, 300)); lines.append("wall 1 %d %s" % (g, (b"\x07" * 1200).hex()))
                lines.append("delete 1 %d %d" % (parent, g))
            u = fresh()
            if n["k"] == "L":
                lines.append("link 1 %d %d %s %s %s" % (parent, u, hx(n["name"]), hx(n["file"]), hx(n["path"])))
                continue
            lines.append("create 1 %d %d %s" % (parent, u, hx(n["name"])))
            if n["label"]:
                lines.append("label 1 %d %s" % (u, hx(n["label"])))
            if n["dt"] != "MT":
                if n.get("grow") and n["dims"] and nodedb.prod(n["dims"]) > 1:
                    lines.append("dims 1 %d %s %d" % (u, n["dt"], 1)); lines.append("wall 1 %d %s" % (u, (b"\x55" * TY[n["dt"].upper()]).hex()))
                lines.append("dims 1 %d %s %s" % (u, n["dt"], ",".join(map(str, n["dims"])) or "-"))
                if n["data"]:
                    lines.append("wall 1 %d %s" % (u, n["data"].hex()))
            emit(u, n["kids"])
    emit(0, kids)
    lines.append("closef 1")
    return lines


def build_files(exe, work, world, rng):
    for f in world["order"]:
        s = build_script(f, world["be"], world["trees"][f], rng)
        out, oc = vlib.run_impl(exe, "\n".join(s) + "\n", cwd=work, timeout=300)
        bad = [i for i, l in enumerate(out) if l != "ok"]
        if oc != "ok" or bad or len(out) != len(s):
            raise vlib.Infra("could not build %s through cgio_h (%s): line %s -> %s" % (
                f, oc, s[bad[0]][:120] if bad else "?", out[bad[0]] if bad else "?"))


# ------------------------------------------------------------------------------------------------ model side
def model_file(name, be, kids):
    out = ["F %s %s" % (hx(name.encode()), be)]

    def emit(kl, d):
        for n in kl:
            if n["k"] == "L":
                out.append("L %d %s %s %s" % (d, hx(n["name"]), hx(n["file"]), hx(n["path"])))
            else:
                out.append("N %d %s %s %s %s %s" % (d, hx(n["name"]), hx(n["label"]), n["dt"].encode().hex(),
                                                    ",".join(map(str, n["dims"])) or "-", hx(n["data"])))
                emit(n["kids"], d + 1)
    emit(kids, 1)
    out.append("E")
    return out


def sections(lines):
    """split harness / model output into [(kind, status, [lines])] for B..E blocks and R lines"""
    out, cur = [], None
    for l in lines:
        if l.startswith("B "):
            cur = [l[2:], None, []]
        elif l.startswith("E ") and cur is not None:
            cur[1] = l[2:]; out.append(tuple(cur)); cur = None
        elif cur is not None:
            cur[2].append(l)
        elif l.startswith("R "):
            t = l.split(" ")
            out.append((t[1], " ".join(t[2:]), []))
        else:
            out.append(("?", l, []))
    if cur is not None:
        out.append((cur[0], "unterminated", cur[2]))
    return out


def ok_of(status):
    return "ok" if status == "ok" else ("err" if status.startswith("err") else status)


# ------------------------------------------------------------------------------------------------ one world
class Ctx:
    def __init__(self, ck):
        self.ck = ck
        self.exe = {}
        self.n_div = 0
        self.dist = {"worlds": 0, "scenarios": {}, "links": {"ext": 0, "int": 0, "chain": 0, "nested": 0, "dangling": 0}, "wide_link_parents": [],
                     "edits": {}, "nodes": 0, "max_depth": 0, "max_fanout": 0, "bytes": 0, "multi_chunk_arrays": 0,
                     "diff_pairs": 0, "diff_edits": 0}
        self.failures = []
        self.tq = ck.rng.randrange(len(TARGETED)) if hasattr(ck.rng, "randrange") else 0
        self.dist["targeted"] = {}
        self.force = []
        self.oq = 0
        self.mver = "cur"
        self.dist["optsets"] = {}


def run_ops(cx, script, cwd, timeout=300):
    return vlib.run_impl(cx.exe["ops"], "\n".join(script) + "\n", cwd=cwd, timeout=timeout, want_stack=True)


def run_tool(cx, tool, args, cwd, timeout=120):
    e = dict(os.environ); e.update(vlib.ASAN_ENV)
    try:
        p = subprocess.run([cx.exe[tool]] + args, stdout=subprocess.PIPE, stderr=subprocess.PIPE, text=True, errors="replace",
                           cwd=cwd, env=e, timeout=timeout)
    except subprocess.TimeoutExpired:
        return [], "timeout", ""
    lines = p.stdout.split("\n")
    if lines and lines[-1] == "":
        lines.pop()
    oc = "ok"
    if p.returncode != 0:
        if "AddressSanitizer" in p.stderr or p.returncode == 99:
            m = re.search(r"ERROR: AddressSanitizer: (\S+)", p.stderr)
            fr = vlib.asan_stack(p.stderr)
            oc = "asan:%s@%s" % (m.group(1) if m else "?", fr[0] if fr else "?")
        elif "runtime error" in p.stderr or p.returncode == 98:
            oc = "ubsan"
        elif p.returncode < 0:
            oc = "signal:%d" % -p.returncode
        else:
            oc = "exit:%d" % p.returncode
    err = p.stderr
    if oc.startswith("asan"):
        err = "\n".join(l for l in err.split("\n") if l.startswith("SUMMARY") or "ERROR: AddressSanitizer" in l or l.lstrip().startswith(("#0", "#1", "#2", "#3", "#4")))[:700]
    return lines, oc, err[-600:]


def scenario_list(rng, world, thorough):
    """(api, dst backend, follow) combinations for one world"""
    be = world["be"]
    other = "hdf5" if be == "adf" else "adf"
    sc = []
    for y in (be, other):
        for fo in (0, 1):
            apis = ["copyfile_r", "copyfile_m", "saveas", "cgnsconvert"]
            pick = apis if thorough else rng.sample(apis, 2)
            for a in pick:
                sc.append((a, y, fo))
    for a in (["compress_r", "compress_m", "cgnscompress", "cgnscompress_inplace"] if thorough else
              rng.sample(["compress_r", "compress_m", "cgnscompress", "cgnscompress_inplace"], 2)):
        sc.append((a, be, 0))
    if world.get("mll"):
        sc.append(("mllcompress", be, 0))
    return sc


def do_world(cx, world, idx, thorough, want_diff=True, only=None):
    ck, rng, work = cx.ck, cx.ck.rng, cx.ck.work
    build_files(cx.exe["cgio_h"], work, world, rng)
    src, be = world["src"], world["be"]
    fl = world["flags"]
    scen = only if only is not None else scenario_list(rng, world, thorough)
    ext = lambda y: "adf" if y == "adf" else "hdf"
    # ---- implementation: one process per scenario (HDF5 keeps files reached through external links open after the
    #      linking file is closed, so scenarios must not share a process); the source is walked in its own process
    lines, oc, stack = run_ops(cx, ["dump %s 0" % src, "dump %s 1" % src, "dump %s 2" % src], work)
    d_src = sections(lines)
    if oc != "ok" or len(d_src) != 3 or any(s[1] != "ok" for s in d_src[:2]):
        raise vlib.Infra("walker cannot read the generated source %s: %s %s" % (src, oc, [s[1] for s in d_src]))
    outs = {}

    def one(i):
        api, y, fo = scen[i]
        dst = outs[i]
        dumps = ["dump %s 0" % dst, "dump %s 2" % dst]
        if api in ("copyfile_r", "copyfile_m"):
            ops = ["copyfile %s %s %s %d %s" % (src, dst, y, fo, api[-1])]
        elif api == "saveas":
            ops = ["saveas %s %s %s %d" % (src, dst, y, fo)]
        elif api in ("compress_r", "compress_m"):
            ops = ["compress %s %s %s 0" % (src, dst, api[-1])]
        elif api == "mllcompress":
            shutil.copy(os.path.join(work, src), os.path.join(work, dst))
            ops = ["mllcompress %s" % dst]
        else:
            if api == "cgnsconvert":
                o, toc, err = run_tool(cx, "cgnsconvert", (["-a"] if y == "adf" else ["-h"]) + ["-f"] + (["-l"] if fo else []) + [src, dst], work)
            elif api == "cgnscompress":
                o, toc, err = run_tool(cx, "cgnscompress", [src, dst], work)
            else:
                shutil.copy(os.path.join(work, src), os.path.join(work, dst))
                o, toc, err = run_tool(cx, "cgnscompress", [dst], work)
            lines, oc, stack = run_ops(cx, dumps, work)
            sec = sections(lines)
            if oc != "ok" or len(sec) != 2:
                return ("walk:" + oc, toc + " " + err[-200:], ("dump", "err", []), ("dump", "err", []))
            return ("ok" if toc == "ok" else ("err" if toc.startswith("exit") else toc), toc + " " + err[-200:], sec[0], sec[1])
        lines, oc, stack = run_ops(cx, ops + dumps, work)
        sec = sections(lines)
        if oc != "ok" or len(sec) != 3:
            return (oc if oc != "ok" else "short", "%s %s" % (oc, stack), ("dump", "err", []), ("dump", "err", []))
        return (ok_of(sec[0][1]), sec[0][1], sec[1], sec[2])
    for i, (api, y, fo) in enumerate(scen):
        outs[i] = "%s_o%d.%s" % (src.rsplit("_", 1)[0], i, ext(y))
    # sources opened for modification take HDF5's write lock (also on the linked files): those scenarios run alone
    par = [i for i, sc in enumerate(scen) if sc[0] not in ("copyfile_m", "compress_m", "mllcompress")]
    with concurrent.futures.ThreadPoolExecutor(max_workers=WORKERS) as ex:
        impl = dict(zip(par, ex.map(one, par)))
    for i in range(len(scen)):
        if i not in impl:
            impl[i] = one(i)
    # ---- model
    ms = []
    for f in world["order"]:
        ms += model_file(f, be, world["trees"][f])
    ms.append("dump %s" % hx(src.encode()))
    for i, (api, y, fo) in enumerate(scen):
        if api in ("compress_r", "compress_m", "cgnscompress", "cgnscompress_inplace", "mllcompress"):
            ms.append("rewrite %s %s %s" % (hx(src.encode()), hx(outs[i].encode()), be))
        else:
            ms.append("copy %s %s %s %d" % (hx(src.encode()), hx(outs[i].encode()), y, fo))
    msec = sections(vlib.run_model("c09", "\n".join(ms) + "\n"))
    m_src = msec[0]
    if m_src[2] != d_src[0][2]:
        d = vlib.first_divergence(m_src[2], d_src[0][2])
        raise vlib.Infra("generated source %s is not what the generator meant (cgio_h build or walker problem): %s" % (src, d,))
    # ---- verdicts per scenario
    has_ext = fl["ext"] > 0
    for i, (api, y, fo) in enumerate(scen):
        key = "%s:%s->%s:f%d" % (api, be, y, fo)
        cx.dist["scenarios"][key] = cx.dist["scenarios"].get(key, 0) + 1
        st, raw, d0, d2 = impl[i]
        mst, mdump = msec[1 + i][1], msec[1 + i][2]
        ck.cov["traces_validated_against_impl"] += 1
        want = d_src[1] if fo else d_src[0]
        problem = None
        if api in ("saveas", "mllcompress") and "cg_open" in raw:
            cx.dist["not_openable_by_cg_open"] = cx.dist.get("not_openable_by_cg_open", 0) + 1
            continue          # the mid-level library refuses the file itself (e.g. a dangling link below the root): nothing was copied
        if st == "ok":
            # oracle 1 (model independent): the walk of the source with links treated as requested == the walk of the result
            if d0[1] != "ok" or d0[2] != want[2]:
                problem = {"oracle": "independent walk of source vs result (links %s)" % ("followed" if fo else "kept"),
                           "first_difference": vlib.first_divergence(want[2], d0[2]), "result_walk_status": d0[1]}
            # oracle 2: a reader that follows every link sees the same tree (when the result's links can resolve at all)
            # (same back end only: the HDF5 reader does not chase a link to a link, so views of different back ends differ
            #  for reasons that belong to C08 / C03)
            elif y == be and not fl["dangling"] and d_src[2][1] == "ok":
                if d2[2] != d_src[2][2]:
                    problem = {"oracle": "fully resolved view of source vs result",
                               "first_difference": vlib.first_divergence(d_src[2][2], d2[2])}
        elif st not in ("err",):
            problem = {"oracle": "sanitizer / crash", "outcome": raw}
        elif mst == "ok":
            problem = {"oracle": "the copy fails on a source the model copies", "outcome": raw}
        if problem:
            fail(cx, world, idx, dict(problem, scenario=key, scen=[api, y, fo], impl_status=raw, model_status=mst))
            continue
        # correspondence with the extracted model
        if (st, d0[2] if st == "ok" else None) != (mst if mst in ("ok", "err") else mst, mdump if mst == "ok" else None):
            cx.n_div += 1
            cx.failures.append({"kind": "correspondence", "world": idx, "scenario": key, "impl_status": raw, "model_status": mst,
                                "first_difference": vlib.first_divergence(mdump, d0[2]) if st == "ok" and mst == "ok" else None})
    # ---- cgnsdiff on (file, copy) and on (file, one elementary edit of the copy)
    if want_diff and not fl["dangling"]:
        do_diff(cx, world, idx, scen, outs, impl, thorough)
    nontriv = fl["ext"] > 0 and fl["int"] > 0
    st = tree_stats(world["trees"][src])
    cx.dist["nodes"] += st[0]; cx.dist["max_depth"] = max(cx.dist["max_depth"], st[1]); cx.dist["max_fanout"] = max(cx.dist["max_fanout"], st[2])
    cx.dist["bytes"] += st[3]; cx.dist["multi_chunk_arrays"] += st[4]
    for k in cx.dist["links"]:
        cx.dist["links"][k] += fl[k]
    if fl.get("wide_links"):
        cx.dist["wide_link_parents"].append(fl["wide_links"])
    cx.dist["worlds"] += 1
    sig = hashlib.sha1(json.dumps([l for f in world["order"] for l in model_file(f, be, world["trees"][f])]).encode()).hexdigest()
    ck.case(sig if (nontriv or st[3] > 4096) else None,
            sample={"backend": be, "files": len(world["order"]), "nodes": st[0], "depth": st[1], "links": fl, "scenarios": [s[0] + "->" + s[1] + ":f%d" % s[2] for s in scen][:6]})
    for f in ([] if os.environ.get("C09_KEEP") else list(outs.values()) + world["order"]):
        for g in (f, f + ".edit"):
            try:
                os.unlink(os.path.join(work, g))
            except OSError:
                pass


def tree_stats(kids):
    n = d = fo = by = mc = 0
    fo = len(kids)
    for p, x, kl in walk(kids):
        n += 1; d = max(d, len(p))
        if x["k"] == "N":
            fo = max(fo, len(x["kids"])); by += len(x["data"]); mc += 1 if x.get("grow") and len(x["data"]) > 8 else 0
    return n, d, fo, by, mc


def fail(cx, world, idx, info):
    """a property-level failure on the implementation (model independent)"""
    full = [l for f in world["order"] for l in model_file(f, world["be"], world["trees"][f])]
    cx.failures.append(dict(info, kind="property", world=idx, backend=world["be"], flags=world["flags"], src=world.get("src"),
                            mll=bool(world.get("mll")), world_obj=world,
                            model_world=[l if len(l) < 300 else l[:300] + "..." for l in full][:400],
                            model_world_full=full if sum(map(len, full)) < 3000000 else None))
    return None


def world_from_model(lines, be, src):
    """inverse of model_file: the engine's F/N/L/E lines -> world (for --replay)"""
    trees, order, cur, stack = {}, [], None, None
    unh = lambda x: b"" if x == "-" else bytes.fromhex(x)
    for l in lines:
        t = l.split(" ")
        if t[0] == "F":
            cur = bytes.fromhex(t[1]).decode(); trees[cur] = []; order.append(cur); stack = {0: trees[cur]}
        elif t[0] == "N":
            d = int(t[1])
            n = N(unh(t[2]), unh(t[3]), bytes.fromhex(t[4]).decode(), [int(x) for x in t[5].split(",")] if t[5] != "-" else [], unh(t[6]))
            stack[d - 1].append(n); stack[d] = n["kids"]
        elif t[0] == "L":
            stack[int(t[1]) - 1].append(L(unh(t[2]), unh(t[3]), unh(t[4])))
    fl = {"links": 0, "ext": 0, "int": 0, "chain": 0, "nested": 0, "dangling": 0}
    for f in order:
        for p_, n, _ in walk(trees[f]):
            if n["k"] == "L":
                fl["links"] += 1; fl["ext" if n["file"] else "int"] += 1
    fl["chain"] = fl["int"]          # unknown: assume the conservative settings of the oracles
    return {"trees": trees, "order": order, "src": src, "be": be, "flags": fl}


class _Quiet:
    """a stand-in for the Check object while a failing world is being shrunk / replayed"""
    def __init__(self, ck):
        self.rng, self.work, self.cov, self.seed = ck.rng, ck.work, {"traces_validated_against_impl": 0}, ck.seed
    def case(self, *a, **k):
        pass
    def finding(self, *a, **k):
        pass


def still_fails(cx, world, scen, oracle):
    q = Ctx(_Quiet(cx.ck)); q.exe = cx.exe
    try:
        do_world(q, world, -2, True, want_diff=False, only=[tuple(scen)])
    except vlib.Infra:
        return False
    return any(f["kind"] == "property" and f.get("oracle") == oracle for f in q.failures)


def shrink(cx, f):
    """delta debugging over the nodes of the source file (link targets are kept): a smaller world failing the same oracle"""
    world, scen, oracle = f.get("world_obj"), f.get("scen"), f.get("oracle")
    if not world or not scen:
        return f
    src = world["src"]
    keep = {segs for ff, segs in link_targets(world["trees"]) if ff == src}
    items = [p for p, n, _ in walk(world["trees"][src]) if not any(t[:len(p)] == p for t in keep)]

    def reduced(paths):
        ps = set(paths)
        w = dict(world, trees=dict(world["trees"]))

        def filt(kl, prefix):
            out = []
            for n in kl:
                p = prefix + (n["name"],)
                if p in items_set and p not in ps:
                    continue
                c = dict(n)
                if n["k"] == "N":
                    c["kids"] = filt(n["kids"], p)
                out.append(c)
            return out
        w["trees"][src] = filt(world["trees"][src], ())
        return w
    items_set = set(items)
    if not still_fails(cx, world, scen, oracle):
        return f
    small = vlib.ddmin(items, lambda sub: still_fails(cx, reduced(sub), scen, oracle), max_tests=40)
    w = reduced(small)
    full = [l for ff in w["order"] for l in model_file(ff, w["be"], w["trees"][ff])]
    return dict(f, shrunk_nodes=len(small), original_nodes=len(items),
                model_world=[l if len(l) < 300 else l[:300] + "..." for l in full][:400],
                model_world_full=full if sum(map(len, full)) < 3000000 else None)


# ------------------------------------------------------------------------------------------------ cgnsdiff
def node_at(kids, path):
    for n in kids:
        if n["name"] == path[0]:
            return n if len(path) == 1 else node_at(n["kids"], path[1:])
    return None


def link_targets(trees):
    t = set()
    for f, kids in trees.items():
        for p, n, _ in walk(kids):
            if n["k"] == "L":
                segs = tuple(s for s in n["path"].split(b"/") if s)
                t.add(((n["file"].decode() or f), segs))
    return t


def pick_edit(rng, kids, fname, trees):
    """one elementary edit applicable to the tree: returns (kind, path, harness args, function applying it to a copy)"""
    targets = {segs for ff, segs in link_targets(trees) if ff == fname}
    nodes = [(p, n, kl) for p, n, kl in walk(kids)]
    proper = [(p, n, kl) for p, n, kl in nodes if n["k"] == "N"]
    movable = [(p, n, kl) for p, n, kl in nodes if not any(t[:len(p)] == p for t in targets)]
    data = [(p, n, kl) for p, n, kl in proper if n["dt"] != "MT" and n["dims"] and n["data"]]
    for _ in range(50):
        kind = rng.choice(["rename", "relabel", "retype", "redim", "databyte", "addchild", "delchild"])
        if kind == "rename" and movable:
            p, n, kl = rng.choice(movable)
            nn = fresh_name(rng, {x["name"] for x in kl})
            return kind, p, [hx(nn)], lambda k, p=p, nn=nn: node_at(k, p).update(name=nn)
        if kind == "relabel" and proper:
            p, n, kl = rng.choice(proper)
            nl = rand_label(rng)
            if nl == n["label"]:
                nl = (n["label"] + b"x")[-32:] if n["label"] != b"x" * 32 else b"y"
                if nl == n["label"]:
                    continue
            return kind, p, [hx(nl)], lambda k, p=p, nl=nl: node_at(k, p).update(label=nl)
        if kind == "retype" and data:
            p, n, kl = rng.choice(data)
            same = [t for t in TY if TY[t] == TY[n["dt"]] and t != n["dt"]]
            if not same:
                continue
            nt = rng.choice(same)
            return kind, p, [nt], lambda k, p=p, nt=nt: node_at(k, p).update(dt=nt)
        if kind == "redim" and data:
            p, n, kl = rng.choice(data)
            d = list(n["dims"]); tot = nodedb.prod(d); sz = TY[n["dt"]]
            r = rng.random()
            if r < 0.4 and len(d) < 12:
                nd = d + [1]                                                     # same elements, one more dimension
            elif r < 0.7 and len(d) >= 2 and d[0] != d[1]:
                nd = [d[1], d[0]] + d[2:]                                        # same elements, two extents swapped
            else:
                i = rng.randrange(len(d)); nd = list(d); nd[i] = d[i] + 1        # one extent larger
            ntot = nodedb.prod(nd)
            if ntot * sz > 400000:
                continue
            ndata = (n["data"] + b"\0" * (ntot * sz))[:ntot * sz]
            return kind, p, [",".join(map(str, nd))], lambda k, p=p, nd=nd, ndata=ndata: node_at(k, p).update(dims=nd, data=ndata)
        if kind == "databyte" and data:
            p, n, kl = rng.choice(data)
            off = rng.choice([0, len(n["data"]) - 1, rng.randrange(len(n["data"]))])
            nd = bytearray(n["data"]); nd[off] ^= 1
            return kind, p, [str(off)], lambda k, p=p, nd=bytes(nd): node_at(k, p).update(data=nd)
        if kind == "addchild" and proper:
            p, n, kl = rng.choice(proper)
            nn = fresh_name(rng, {x["name"] for x in n["kids"]})
            return kind, p, [hx(nn)], lambda k, p=p, nn=nn: node_at(k, p)["kids"].append(N(nn))
        if kind == "delchild" and movable:
            p, n, kl = rng.choice(movable)

            def rm(k, p=p):
                par = k if len(p) == 1 else node_at(k, p[:-1])["kids"]
                par[:] = [x for x in par if x["name"] != p[-1]]
            return kind, p, [], rm
    return None


OPTSETS = ["", "c", "i", "ci", "d", "cd", "di", "cdi"]          # -c -i -d in every combination
EXTRA = {"q": ["-q"], "t": ["-t1e-9"]}                           # -q is read by nobody; -t only matters for float data


def split_opts(opts):
    """'cd@0.125' -> ('cd', 0.125); the letter t stands for -t1e-9"""
    o, _, t = opts.partition("@")
    return o, (float(t) if t else (1e-9 if "t" in o else None))


def diff_args(opts, follow):
    o, tol = split_opts(opts)
    a = []
    for ch in o:
        a += EXTRA.get(ch, ["-" + ch])
    if "@" in opts:
        a.append("-t%r" % tol)
    return a + (["-f"] if follow and "f" not in o else [])


def run_cgnsdiff(cx, work, a, b, follow, opts="d", ds=None):
    """cgnsdiff [opts] a [ds] b; ds = (dataset path, recurse)"""
    args = diff_args(opts, follow)
    if ds:
        return run_tool(cx, "cgnsdiff", args + (["-r"] if ds[1] else []) + [a, ds[0], b], work)
    return run_tool(cx, "cgnsdiff", args + [a, b], work)


def model_opts(opts, follow, recurse=False):
    oo, tol = split_opts(opts)
    o = "".join(ch for ch in oo if ch in "dcif") + ("f" if follow and "f" not in oo else "") + ("r" if recurse else "")
    return (o or "-") + ("" if tol is None else " " + struct.pack(">d", tol).hex())


def decode_vals(ty, hexdata):
    b = bytes.fromhex(hexdata)
    return list(struct.unpack("<%d%s" % (len(b) // (4 if ty in ("R4", "X4") else 8), "f" if ty in ("R4", "X4") else "d"), b))


def beyond_tolerance(ty, h1, h2, tol):
    """the independent reading of -t: some component pair with |a - b| > tol (differences of floats taken in float)"""
    a, b = decode_vals(ty, h1), decode_vals(ty, h2)
    for x, y in zip(a, b):
        d = x - y
        if ty in ("R4", "X4") and d == d and abs(d) < 3e38:
            d = struct.unpack("<f", struct.pack("<f", d))[0]
        if abs(d) > tol:
            return True
    return False


_MVER = ["cur"]          # the matching variant the tool shows (probed by corpus 09); handed to the engine


def model_diffs(world_files, cmds):
    """cmds: (f1, f2, opts, follow, ds) -> the model's predicted standard output for each"""
    ms = []
    for name, be, kids in world_files:
        ms += model_file(name, be, kids)
    if _MVER[0] == "old":
        ms.append("mver old")
    for f1, f2, opts, follow, ds in cmds:
        if ds:
            ms.append("diffds %s %s %s %s %s" % (hx(f1.encode()), hx(ds[0].encode("latin1")), hx(f2.encode()), hx(ds[0].encode("latin1")),
                                                 model_opts(opts, follow, ds[1])))
        else:
            ms.append("diff %s %s %s" % (hx(f1.encode()), hx(f2.encode()), model_opts(opts, follow)))
    sec = sections(vlib.run_model("c09", "\n".join(ms) + "\n"))
    return [x[2] for x in sec[-len(cmds):]]


def float_bytes(world_files):
    """bytes of float data in the given trees: the extracted model compares them value by value through Flocq under -t"""
    return sum(len(n["data"]) for _, _, kids in world_files for _, n, _ in walk(kids) if n["k"] == "N" and n["dt"] in ("R4", "R8", "X4", "X8"))


def tol_is_active(opts):
    t = split_opts(opts)[1]
    return t is not None and t > 0


def model_diff(world_files, f1, f2, follow, opts="d"):
    return model_diffs(world_files, [(f1, f2, opts, follow, None)])[0]


def norm_dump(lines, opts):
    """the independent walk as a SET of lines, read the way the options ask: names folded (-c) / without white space (-i) in
    every path, data hashes dropped without -d"""
    out = set()
    c, i, d = "c" in opts, "i" in opts, "d" in opts
    for l in lines:
        t = l.split(" ")
        segs = [bytes.fromhex(x) if x != "-" else b"" for x in t[1].split("/")[1:]]
        t[1] = "/" + "/".join(hx(fold(x, c, i)) for x in segs)
        if t[0] == "N" and not d:
            t = t[:-1]
        out.add(" ".join(t))
    return out


def expand_model(world, follow, y):
    """the tree the model predicts for a copy (python-side bookkeeping only: which tree an edit applies to)"""
    ms = []
    for f in world["order"]:
        ms += model_file(f, world["be"], world["trees"][f])
    ms.append("copy %s %s %s %d" % (hx(world["src"].encode()), hx(b"OUT"), y, follow))
    return ms


def parse_dump_to_tree(world, follow):
    """python copy of the source tree with external links expanded exactly like the generator's bookkeeping needs"""
    trees, src = world["trees"], world["src"]
    if not follow:
        return _copy.deepcopy(trees[src])

    def resolve(fname, path, depth=0):
        segs = [s for s in path.split(b"/") if s]
        kids = trees.get(fname)
        node = None
        cur = fname
        for s in segs:
            node = next((x for x in kids if x["name"] == s), None) if kids is not None else None
            if node is None:
                return None, None
            while node["k"] == "L":
                cur2 = node["file"].decode() or cur
                node, cur = resolve(cur2, node["path"], depth + 1)
                if node is None:
                    return None, None
            kids = node["kids"]
        return node, cur

    def exp(kl):
        out = []
        for n in kl:
            if n["k"] == "L" and n["file"]:
                t, _ = resolve(n["file"].decode(), n["path"])
                if t is None:
                    return None
                c = _copy.copy(t); c["name"] = n["name"]; c["kids"] = exp(t["kids"]); out.append(c)
            elif n["k"] == "L":
                out.append(dict(n))
            else:
                c = _copy.copy(n); c["kids"] = exp(n["kids"]); out.append(c)
        return out
    return exp(trees[src])


def do_diff(cx, world, idx, scen, outs, impl, thorough):
    ck, rng, work = cx.ck, cx.ck.rng, cx.ck.work
    src, be = world["src"], world["be"]
    fl = world["flags"]
    cands = [i for i, (api, y, fo) in enumerate(scen) if impl[i][0] == "ok" and
             (y == be or (fo == 1 and not any(l.startswith("L ") and l.split(" ")[2] != "-" for l in impl[i][2][2])))]
    if not cands:
        return
    for i in rng.sample(cands, min(len(cands), 3 if thorough else 2)):
        api, y, fo = scen[i]
        dst = outs[i]
        # a copy with expanded links equals its source only for a reader that follows links: cgnsdiff -f
        follow = 1 if (fo == 1 or rng.random() < 0.3) else 0
        if fl["chain"] and "hdf5" in (be, y):
            continue          # ADFH does not chase a link to a link (C08): cgnsdiff reads such nodes differently, not a matter of the copy
        copy_tree = parse_dump_to_tree(world, fo)
        if copy_tree is None:
            continue
        files = [(f, be, world["trees"][f]) for f in world["order"]]
        scn = "%s %s->%s f%d" % (api, be, y, fo)
        # (file, copy): silent under every option set
        osets = [(o, None) for o in OPTSETS] + [("dq", None), ("dt", None), ("cdiqt", None)]
        with concurrent.futures.ThreadPoolExecutor(max_workers=WORKERS) as ex:
            runs = list(ex.map(lambda oo: run_cgnsdiff(cx, work, src, dst, follow, oo[0], oo[1]), osets))
        heavy = float_bytes(files + [(dst, y, copy_tree)]) > 65536        # then the model is asked for -t on the one-edit pairs only
        if heavy:
            osets_m = [(o, ds) for o, ds in osets if not tol_is_active(o)]
        else:
            osets_m = osets
        pm = dict(zip(osets_m, model_diffs(files + [(dst, y, copy_tree)], [(src, dst, o, follow, ds) for o, ds in osets_m])))
        preds = [pm.get(oo) for oo in osets]
        cx.dist["diff_pairs"] += 1
        bad = False
        for (o, ds), (out, oc, err), pred in zip(osets, runs, preds):
            ck.cov["traces_validated_against_impl"] += 1
            cx.dist["optsets"][o] = cx.dist["optsets"].get(o, 0) + 1
            if oc != "ok":
                fail(cx, world, idx, {"oracle": "cgnsdiff on (file, copy) runs", "options": diff_args(o, follow), "outcome": oc, "stderr": err, "scenario": scn}); bad = True; break
            if out:
                fail(cx, world, idx, {"oracle": "cgnsdiff on (file, copy) is silent", "options": diff_args(o, follow), "output": out[:10], "scenario": scn}); bad = True; break
            if pred is not None and out != pred:
                cx.n_div += 1
                cx.failures.append({"kind": "correspondence", "world": idx, "scenario": "cgnsdiff %s (file, copy) %s->%s" % (diff_args(o, follow), be, y),
                                    "first_difference": vlib.first_divergence(pred, out)})
        if bad:
            continue
        # (file, one elementary edit of the copy): reported exactly when the independent walk, read as the options ask, differs
        forced, cx.force = list(cx.force), []
        n_aimed = len(forced) or (3 if thorough else 2)
        for e_i in range(n_aimed + (0 if forced else (2 if thorough else 1))):
            if e_i < n_aimed:                                 # aimed edits in rotation over the whole run, then random ones
                if forced:
                    spec = forced[e_i]
                else:
                    spec = TARGETED[cx.tq % len(TARGETED)]; cx.tq += 1
                ed = targeted_edit(spec, copy_tree)
                cx.dist["targeted"][spec] = cx.dist["targeted"].get(spec, 0) + (1 if ed else 0)
            else:
                ed = pick_edit(rng, copy_tree, dst, dict(world["trees"], **{dst: copy_tree}))
            if ed is None:
                continue
            kind, path, args, apply_ = ed
            edited = _copy.deepcopy(copy_tree)
            apply_(edited)
            efile = dst + ".edit"
            shutil.copy(os.path.join(work, dst), os.path.join(work, efile))
            lines, eoc, stack = run_ops(cx, ["edit %s %s %s %s" % (efile, kind, hx(pstr(path)), " ".join(args)),
                                             "dump %s %d" % (dst, 2 if follow else 0), "dump %s %d" % (efile, 2 if follow else 0)], work)
            sec = sections(lines)
            if eoc != "ok" or len(sec) < 3 or sec[0][1] != "ok":
                raise vlib.Infra("edit %s %s of %s failed: %s %s" % (kind, pstr(path), efile, eoc, sec[:1]))
            cx.dist["edits"][kind] = cx.dist["edits"].get(kind, 0) + 1
            cx.dist["diff_edits"] += 1
            vals = None
            if kind == "setdata":
                vl, voc, vst = run_ops(cx, ["vals %s %s" % (dst, hx(pstr(path))), "vals %s %s" % (efile, hx(pstr(path)))], work)
                vals = [l.split(" ")[3:5] for l in vl if l.startswith("R vals ok")]
                if voc != "ok" or len(vals) != 2:
                    raise vlib.Infra("vals of %s failed: %s %s" % (pstr(path), voc, vl))
            # option sets for this edit: -d always, two more in rotation, every one when the edit aims at the names family;
            # a float datum may legitimately vanish under -t, and a dataset run needs the node to exist in both files
            names_edit = len(path) > 1 and path[1] == b"names"
            osets = [("d", None)]
            if names_edit or forced:
                osets += [(o, None) for o in OPTSETS if o != "d"]
            else:
                for _ in range(2):
                    osets.append((OPTSETS[cx.oq % len(OPTSETS)], None)); cx.oq += 1
            osets.append(("dq", None))
            float_node = kind in ("databyte", "setdata") and (node_at(copy_tree, path) or {}).get("dt") in ("R4", "R8", "X4", "X8")
            if kind == "setdata":                      # tolerances below and above the edit, with and without name options
                osets += [("d@%r" % (DELTA / 4), None), ("d@%r" % (DELTA * 4), None), ("cdi@%r" % (DELTA / 4), None), ("cdi@%r" % (DELTA * 4), None),
                          ("d@0.0", None), ("d@-1.0", None), ("@%r" % (DELTA / 4), None)]
            elif kind == "databyte" and not float_node:
                osets.append(("d@1e+30", None))        # -t means nothing for integers and characters
            if not float_node:
                osets.append(("cdit", None))
            if kind in ("relabel", "retype", "redim", "databyte", "setdata"):
                pth = pstr(path).decode("latin1")
                par = pstr(path[:-1]).decode("latin1") if len(path) > 1 else None
                osets.append(("d", (pth, False)))
                if par and all(32 < c < 127 or c == 32 for c in par.encode("latin1")):
                    osets.append(("d", (par, True))); osets.append(("d", (par, False)))
            osets = list(dict.fromkeys(osets))
            with concurrent.futures.ThreadPoolExecutor(max_workers=WORKERS) as ex:
                runs = list(ex.map(lambda oo: run_cgnsdiff(cx, work, src, efile, follow, oo[0], oo[1]), osets))
            if heavy and kind != "setdata":
                osets_m = [(o, ds) for o, ds in osets if not tol_is_active(o)]
            elif heavy:
                osets_m = [(o, ds) for o, ds in osets if not tol_is_active(o)] + [oo for oo in osets if tol_is_active(oo[0])][:2]
            else:
                osets_m = osets
            pm = dict(zip(osets_m, model_diffs(files + [(efile, y, edited)], [(src, efile, o, follow, ds) for o, ds in osets_m])))
            preds = [pm.get(oo) for oo in osets]
            cx.dist["tol_predictions_skipped"] = cx.dist.get("tol_predictions_skipped", 0) + len(osets) - len(osets_m)
            for (o, ds), (out, oc, err), pred in zip(osets, runs, preds):
                ck.cov["traces_validated_against_impl"] += 1
                key = o + (":ds" + ("r" if ds[1] else "") if ds else "")
                cx.dist["optsets"][key] = cx.dist["optsets"].get(key, 0) + 1
                info = {"edit": kind, "path": pstr(path).decode("latin1"), "args": args, "options": diff_args(o, follow), "dataset": ds,
                        "scenario": scn, "output": out[:10]}
                if oc != "ok":
                    fail(cx, world, idx, dict(info, oracle="cgnsdiff on (file, edited copy) runs", outcome=oc, stderr=err)); break
                if ds is None:
                    oo, tol = split_opts(o)
                    differs = norm_dump(sec[1][2], oo) != norm_dump(sec[2][2], oo)
                    if kind == "setdata" and tol is not None and tol > 0 and "d" in oo:
                        differs = beyond_tolerance(vals[0][0], vals[0][1], vals[1][1], tol)      # decoded from the two files
                    if differs and not out:
                        fail(cx, world, idx, dict(info, oracle="cgnsdiff reports a difference the independent walk (read as the options ask) finds")); break
                    if not differs and out:
                        fail(cx, world, idx, dict(info, oracle="cgnsdiff is silent when the independent walk (read as the options ask) finds no difference")); break
                elif ds[0] == pstr(path).decode("latin1") and not out:
                    fail(cx, world, idx, dict(info, oracle="cgnsdiff -d on the edited node given as dataset reports it")); break
                if pred is not None and out != pred:
                    cx.n_div += 1
                    cx.failures.append(dict(info, kind="correspondence", world=idx, first_difference=vlib.first_divergence(pred, out)))


# ------------------------------------------------------------------------------------------------ corpus: regression inputs, run first
NOWORLD = {"be": "adf", "flags": {}, "order": [], "trees": {}}


def upper_type_field(lines):
    """dump lines with the type field's first letter upper-cased (HDF5 stores upper-case type names only)"""
    out = []
    for l in lines:
        t = l.split(" ")
        if t[0] == "N":
            b = bytes.fromhex(t[3]); t[3] = (b[:1].upper() + b[1:]).hex()
        out.append(" ".join(t))
    return out


def regression(cx, c, detail):
    """an input whose defect was repaired fails again: VIOLATION under the defect's key"""
    finding_once(cx.ck, c["key"], {"regression_of": c["status"], "corpus": c["name"], "what": c["what"], "detail": detail})


def corpus_typed_copy(cx, c):
    ck, work = cx.ck, cx.ck.work
    ty, nb = c["type"], c["nbytes"]
    src = "c_%s.adf" % c["name"][:2]
    p = subprocess.run([cx.exe["lower"], ty, src, str(nb)], cwd=work, stdout=subprocess.PIPE, stderr=subprocess.PIPE, text=True,
                       env=dict(os.environ, **vlib.ASAN_ENV))
    if not p.stdout.startswith("ok"):
        raise vlib.Infra("c09_typed %s failed: %s %s" % (ty, p.stdout, p.stderr[-300:]))
    data = bytes((i + 1) % 256 for i in range(nb))
    tree = [N(b"N1", b"L", ty, [2], data, kids=[N(b"pad")])]
    ms = model_file(src, "adf", tree) + ["copy %s %s adf 0" % (hx(src.encode()), hx(b"o1")), "copy %s %s hdf5 0" % (hx(src.encode()), hx(b"o2")),
                                           "rewrite %s %s adf" % (hx(src.encode()), hx(b"o3"))]
    msec = sections(vlib.run_model("c09", "\n".join(ms) + "\n"))
    d_src = sections(run_ops(cx, ["dump %s 0" % src], work)[0])[0]
    runs = [("copyfile adf", ["copyfile %s c_o1.adf adf 0 r" % src, "dump c_o1.adf 0"], False),
            ("copyfile hdf5", ["copyfile %s c_o2.hdf hdf5 0 r" % src, "dump c_o2.hdf 0"], True),
            ("compress", ["compress %s c_o3.adf r 0" % src, "dump c_o3.adf 0"], False)]
    for k, (what, ops, to_hdf5) in enumerate(runs):
        lines, oc, st = run_ops(cx, ops, work)
        sec = sections(lines)
        ck.cov["traces_validated_against_impl"] += 1
        mst, mdump = msec[k][1], msec[k][2]
        if oc != "ok":
            regression(cx, c, {"run": what, "outcome": oc, "stack": st}); continue
        st_impl = ok_of(sec[0][1])
        if c["expect"] == "copied":
            want = upper_type_field(d_src[2]) if to_hdf5 else d_src[2]
            if st_impl != "ok" or sec[1][2] != want or "nodata" in " ".join(sec[1][2]):
                regression(cx, c, {"run": what, "status": sec[0][1], "source_walk": d_src[2], "result_walk": sec[1][2]}); continue
            if mst != "ok" or mdump != sec[1][2]:
                cx.n_div += 1; cx.failures.append({"kind": "correspondence", "scenario": "corpus %s %s" % (c["name"], what), "model": [mst, mdump], "impl": sec[1][2]})
        else:
            if st_impl != "err":
                regression(cx, c, {"run": what, "status": sec[0][1], "note": "the copy of a compound-typed node must report an error"}); continue
            if mst != "err":
                cx.n_div += 1; cx.failures.append({"kind": "correspondence", "scenario": "corpus %s %s" % (c["name"], what), "model": mst, "impl": sec[0][1]})


def corpus_diff_cross_format(cx, c):
    ck, work = cx.ck, cx.ck.work
    tree = [N(b"Base", b"CGNSBase_x", "I4", [2], struct.pack("<ii", 3, 3), kids=[N(b"Zone 1", b"Zone_x", "I8", [3, 1], bytes(24)), N(b"note", b"Descriptor_x", "C1", [5], b"hello")]),
            N(b"r", b"", "R8", [2, 2], struct.pack("<4d", 1.0, -0.0, 2.5, 1e300))]
    for be, ext, y, yext in (("adf", "adf", "hdf5", "hdf"), ("hdf5", "hdf", "adf", "adf")):
        f, g = "c_x." + ext, "c_x_conv." + yext
        build_files(cx.exe["cgio_h"], work, {"be": be, "order": [f], "trees": {f: tree}}, ck.rng)
        o, toc, err = run_tool(cx, "cgnsconvert", (["-a"] if y == "adf" else ["-h"]) + [f, g], work)
        out, oc, err2 = run_cgnsdiff(cx, work, f, g, 0)
        ck.cov["traces_validated_against_impl"] += 1
        if toc != "ok" or oc != "ok" or out:
            regression(cx, c, {"direction": be + "->" + y, "convert": toc, "cgnsdiff": oc, "output": out[:5], "stderr": (err + err2)[-300:]}); continue
        pred = model_diff([(f, be, tree), (g, y, tree)], f, g, 0)
        if pred != out:
            cx.n_div += 1; cx.failures.append({"kind": "correspondence", "scenario": "corpus %s" % c["name"], "model": pred, "impl": out})


def corpus_diff_deep(cx, c):
    ck, work = cx.ck, cx.ck.work
    chain, cur, path = [], None, ()
    cur = chain
    for i in range(c["depth"]):
        nm = ("n%02d" % i).encode() + b"x" * (c["namelen"] - 3)
        n = N(nm); cur.append(n); cur = n["kids"]; path += (nm,)
    f = "c_deep.adf"
    build_files(cx.exe["cgio_h"], work, {"be": "adf", "order": [f], "trees": {f: chain}}, ck.rng)
    lines, oc, st = run_ops(cx, ["copyfile %s c_deep2.adf adf 0 r" % f, "dump %s 0" % f, "dump c_deep2.adf 0"], work)
    sec = sections(lines)
    if oc != "ok" or len(sec) != 3 or sec[0][1] != "ok" or sec[1][2] != sec[2][2]:
        fail(cx, NOWORLD, -1, {"oracle": "copy of a %d-deep chain" % c["depth"], "outcome": oc, "sections": [x[1] for x in sec]}); return
    out, doc, err = run_cgnsdiff(cx, work, f, "c_deep2.adf", 0)
    ck.cov["traces_validated_against_impl"] += 1
    if doc != "ok" or out:
        regression(cx, c, {"pair": "(file, copy)", "outcome": doc, "output": out[:3], "stderr": err[-300:]}); return
    pred = model_diff([(f, "adf", chain), ("c_deep2.adf", "adf", chain)], f, "c_deep2.adf", 0)
    if pred != out:
        cx.n_div += 1; cx.failures.append({"kind": "correspondence", "scenario": "corpus %s" % c["name"], "model": pred[-3:], "impl": out})
    edited = _copy.deepcopy(chain)
    node_at(edited, path)["label"] = b"changed"
    lines, oc, st = run_ops(cx, ["edit c_deep2.adf relabel %s %s" % (hx(pstr(path)), hx(b"changed"))], work)
    out, doc, err = run_cgnsdiff(cx, work, f, "c_deep2.adf", 0)
    want = "%s <> %s : labels differ" % (pstr(path).decode(), pstr(path).decode())
    if oc != "ok" or doc != "ok" or out != [want]:
        regression(cx, c, {"pair": "(file, copy with the deepest node relabelled)", "outcome": [oc, doc], "output": [x[-80:] for x in out[:3]], "stderr": err[-300:]}); return
    pred = model_diff([(f, "adf", chain), ("c_deep2.adf", "adf", edited)], f, "c_deep2.adf", 0)
    if pred != out:
        cx.n_div += 1; cx.failures.append({"kind": "correspondence", "scenario": "corpus %s (edit)" % c["name"], "model": [x[-60:] for x in pred], "impl": [x[-60:] for x in out]})


def corpus_compress_open(cx, c):
    ck, work = cx.ck, cx.ck.work
    f = "c_uaf.adf"
    tree = [N(b"A", b"LA", "I4", [3], b"\1\0\0\0\2\0\0\0\3\0\0\0", kids=[N(b"B", b"LB", "C1", [2], b"ok")])]
    for k in c["extra"]:
        build_files(cx.exe["cgio_h"], work, {"be": "adf", "order": [f], "trees": {f: tree}}, ck.rng)
        lines, oc, st = run_ops(cx, ["dump %s 0" % f, "compress %s %s r %d" % (f, f, k), "dump %s 0" % f], work)
        sec = sections(lines)
        ck.cov["traces_validated_against_impl"] += 1
        if oc != "ok" or len(sec) != 3 or sec[1][1] != "ok" or sec[0][2] != sec[2][2]:
            regression(cx, c, {"other_files_open": k, "outcome": oc, "stack": st, "sections": [x[1] for x in sec]})


def corpus_nested_link(cx, c):
    ck, work = cx.ck, cx.ck.work
    for be, ext in (("adf", "adf"), ("hdf5", "hdf")):
        B = [N(b"X", b"LX", kids=[L(b"K", b"", b"/Y")]), N(b"Y", b"YLabel", "I4", [2], struct.pack("<ii", 1, 2))]
        A = [N(b"P", kids=[L(b"L", ("c_nB.%s" % ext).encode(), b"/X")]), N(b"Y", b"OtherY")]
        w = {"be": be, "order": ["c_nB." + ext, "c_nA." + ext], "trees": {"c_nB." + ext: B, "c_nA." + ext: A}, "src": "c_nA." + ext, "flags": {}}
        build_files(cx.exe["cgio_h"], work, w, ck.rng)
        o, toc, err = run_tool(cx, "cgnsconvert", (["-a"] if be == "adf" else ["-h"]) + ["-f", "-l", "c_nA." + ext, "c_nO." + ext], work)
        lines, oc, st = run_ops(cx, ["dump c_nA.%s 2" % ext, "dump c_nO.%s 2" % ext, "dump c_nO.%s 0" % ext], work)
        sec = sections(lines)
        ms = model_file("c_nB." + ext, be, B) + model_file("c_nA." + ext, be, A) + ["copy %s %s %s 1" % (hx(("c_nA." + ext).encode()), hx(("c_nO." + ext).encode()), be)]
        msec = sections(vlib.run_model("c09", "\n".join(ms) + "\n"))
        ck.cov["traces_validated_against_impl"] += 1
        if toc == "ok" and oc == "ok" and len(sec) == 3 and sec[0][2] != sec[1][2]:
            finding_once(ck, c["key"], {"what": c["what"], "backend": be, "resolved_source": sec[0][2], "resolved_copy": sec[1][2]})
            if msec[0][2] != sec[2][2]:
                cx.n_div += 1; cx.failures.append({"kind": "correspondence", "scenario": "corpus nested internal link", "model": msec[0][2], "impl": sec[2][2]})
        elif toc == "ok" and oc == "ok" and len(sec) == 3:
            cx.n_div += 1; cx.failures.append({"kind": "correspondence", "scenario": "corpus nested internal link no longer reproduces (C09_follow_nested_internal_link_refuted describes the code no more)", "backend": be})
        else:
            fail(cx, w, -1, {"oracle": "corpus nested internal link", "outcome": [toc, oc], "stderr": err})


def corpus_link_target(cx, c):
    ck, work = cx.ck, cx.ck.work
    for be, ext in (("adf", "adf"), ("hdf5", "hdf")):
        trees = {}
        for v in (1, 2):
            t = [N(b"T1", kids=[N(b"kid1")]), N(b"T2", kids=[N(b"kid2")]), L(b"K", b"", b"/T%d" % v)]
            f = "c_k%d.%s" % (v, ext); trees[f] = t
            build_files(cx.exe["cgio_h"], work, {"be": be, "order": [f], "trees": {f: t}}, ck.rng)
        f1, f2 = "c_k1." + ext, "c_k2." + ext
        out, oc, err = run_cgnsdiff(cx, work, f1, f2, 0)
        lines, doc, st = run_ops(cx, ["dump %s 0" % f1, "dump %s 0" % f2], work)
        sec = sections(lines)
        pred = model_diff([(f1, be, trees[f1]), (f2, be, trees[f2])], f1, f2, 0)
        ck.cov["traces_validated_against_impl"] += 1
        if oc == "ok" and doc == "ok" and sec[0][2] != sec[1][2] and not out:
            finding_once(ck, c["key"], {"what": c["what"], "backend": be, "walk1": sec[0][2], "walk2": sec[1][2]})
            if pred != out:
                cx.n_div += 1; cx.failures.append({"kind": "correspondence", "scenario": "corpus link target", "model": pred, "impl": out})
        elif oc == "ok" and out:
            cx.n_div += 1; cx.failures.append({"kind": "correspondence", "scenario": "corpus link target is reported now (C09_diff_link_target_blind_refuted describes the code no more)", "output": out})
        else:
            fail(cx, NOWORLD, -1, {"oracle": "corpus link target", "outcome": [oc, doc], "stderr": err})
        # the same blindness from the other side: /K a link to /T1 against /K a proper node with T1's header and other children
        t3 = [N(b"T1", kids=[N(b"kid1")]), N(b"T2", kids=[N(b"kid2")]), N(b"K", kids=[N(b"other")])]
        f3 = "c_k3." + ext
        build_files(cx.exe["cgio_h"], work, {"be": be, "order": [f3], "trees": {f3: t3}}, ck.rng)
        out, oc, err = run_cgnsdiff(cx, work, f1, f3, 0)
        outf, ocf, errf = run_cgnsdiff(cx, work, f1, f3, 1)
        preds = model_diffs([(f1, be, trees[f1]), (f3, be, t3)], [(f1, f3, "d", 0, None), (f1, f3, "d", 1, None)])
        ck.cov["traces_validated_against_impl"] += 2
        if oc == "ok" and ocf == "ok" and not out and outf:
            finding_once(ck, c["key"], {"what": c["what"], "variant": "link against a proper node of equal header", "backend": be, "with_-f": outf[:4]})
        if (oc, ocf) == ("ok", "ok") and [out, outf] != preds:
            cx.n_div += 1; cx.failures.append({"kind": "correspondence", "scenario": "corpus link against node", "model": preds, "impl": [out, outf]})


def corpus_tol_nan(cx, c):
    ck, work = cx.ck, cx.ck.work
    for v, bits in (("c_t1.adf", struct.pack("<d", 2.0)), ("c_t2.adf", struct.pack("<Q", 0x7ff8000000000000))):
        build_files(cx.exe["cgio_h"], work, {"be": "adf", "order": [v], "trees": {v: [N(b"a", b"", "R8", [1], bits)]}}, ck.rng)
    out0, oc0, err0 = run_tool(cx, "cgnsdiff", ["-d", "c_t1.adf", "c_t2.adf"], work)
    outt, oct, errt = run_tool(cx, "cgnsdiff", ["-d", "-t1e-6", "c_t1.adf", "c_t2.adf"], work)
    if oc0 != "ok" or out0 != ["/a <> /a : data values differ"]:
        fail(cx, NOWORLD, -1, {"oracle": "cgnsdiff -d reports 2.0 against NaN", "output": out0, "outcome": oc0})
    if oct == "ok" and outt:
        cx.n_div += 1; cx.failures.append({"kind": "correspondence", "scenario": "cgnsdiff -t reports a NaN now (C09_diff_tol_nan_refuted describes the code no more)", "output": outt})
    return {"default": out0, "with_-t1e-6": outt}


def corpus_collision(cx, c):
    """also the run-time probe of the matching variant (MOld / MCur of Copy.v): the first family on the tool"""
    ck, work = cx.ck, cx.ck.work
    res = []
    for k, fam in enumerate(c["families"]):
        tree = [N(nm.encode(), b"L" + nm.encode(), "I4", [1], struct.pack("<i", j)) for j, nm in enumerate(fam["names"])]
        f, g = "c_col%d.adf" % k, "c_col%d_copy.adf" % k
        build_files(cx.exe["cgio_h"], work, {"be": "adf", "order": [f], "trees": {f: tree}}, ck.rng)
        lines, oc, st = run_ops(cx, ["copyfile %s %s adf 0 r" % (f, g), "dump %s 0" % f, "dump %s 0" % g], work)
        sec = sections(lines)
        if oc != "ok" or len(sec) != 3 or sec[1][2] != sec[2][2]:
            fail(cx, NOWORLD, -1, {"oracle": "copy of siblings with colliding normalised names", "outcome": oc}); continue
        out, doc, err = run_cgnsdiff(cx, work, f, g, 0, fam["opts"])
        ck.cov["traces_validated_against_impl"] += 1
        if k == 0 and (doc != "ok" or out):
            cx.mver = "old"; _MVER[0] = "old"
            print("NOTE: cgnsdiff pairs colliding names like the code before 180fd8e (variant MOld of Copy.v); the positive theorems are about MCur", flush=True)
        pred = model_diff([(f, "adf", tree), (g, "adf", tree)], f, g, 0, fam["opts"])
        res.append({"names": fam["names"], "options": diff_args(fam["opts"], 0), "outcome": doc, "output": out[:4], "model": pred[:4]})
        if doc != "ok" or out:
            regression(cx, c, {"pair": "(file, copy)", "names": fam["names"], "options": diff_args(fam["opts"], 0), "outcome": doc, "output": out[:5], "stderr": err[:400]})
            if (doc == "ok" and pred != out) or (doc != "ok" and "!out_of_bounds" not in pred):
                cx.n_div += 1; cx.failures.append({"kind": "correspondence", "scenario": "corpus collision (variant %s)" % cx.mver, "model": pred, "impl": [doc] + out})
            continue
        if pred != out:
            cx.n_div += 1; cx.failures.append({"kind": "correspondence", "scenario": "corpus collision (file, copy)", "model": pred, "impl": out}); continue
        # one relabel of the second sibling in the copy: exactly that node is reported
        nm = fam["names"][1].encode()
        edited = _copy.deepcopy(tree); node_at(edited, (nm,))["label"] = b"Changed"
        lines, oc, st = run_ops(cx, ["edit %s relabel %s %s" % (g, hx(b"/" + nm), hx(b"Changed"))], work)
        out, doc, err = run_cgnsdiff(cx, work, f, g, 0, fam["opts"])
        want = ["/%s <> /%s : labels differ" % (nm.decode(), nm.decode())]
        pred = model_diff([(f, "adf", tree), (g, "adf", edited)], f, g, 0, fam["opts"])
        ck.cov["traces_validated_against_impl"] += 1
        if oc != "ok" or doc != "ok" or out != want:
            regression(cx, c, {"pair": "(file, copy with %r relabelled)" % nm.decode(), "names": fam["names"], "options": diff_args(fam["opts"], 0),
                               "outcome": [oc, doc], "output": out[:5], "expected": want})
        elif pred != out:
            cx.n_div += 1; cx.failures.append({"kind": "correspondence", "scenario": "corpus collision (file, relabelled copy)", "model": pred, "impl": out})
    return res


def corpus_symlink_compress(cx, c):
    """compaction of a file named through a relative symbolic link, called from another directory"""
    ck, work = cx.ck, cx.ck.work
    d = os.path.join(work, "c_sl")
    shutil.rmtree(d, ignore_errors=True); os.makedirs(d)
    real = [N(b"Keep", b"LK", "I4", [2], struct.pack("<ii", 4, 2))]
    by = [N(b"Bystander", b"LB")]
    build_files(cx.exe["cgio_h"], work, {"be": "adf", "order": ["c_sl/real.adf"], "trees": {"c_sl/real.adf": real}}, ck.rng)
    build_files(cx.exe["cgio_h"], work, {"be": "adf", "order": ["real.adf"], "trees": {"real.adf": by}}, ck.rng)
    os.symlink("real.adf", os.path.join(d, "link.adf"))
    lines, oc, st = run_ops(cx, ["dump real.adf 0", "dump c_sl/real.adf 0", "compress c_sl/link.adf c_sl/link.adf r 0",
                                 "dump real.adf 0", "dump c_sl/real.adf 0", "dump c_sl/link.adf 0"], work)
    sec = sections(lines)
    ck.cov["traces_validated_against_impl"] += 1
    still_link = os.path.islink(os.path.join(d, "link.adf"))
    res = {"outcome": oc, "status": sec[2][1] if len(sec) > 2 else None, "link_kept": still_link,
           "bystander_before": sec[0][2] if sec else None, "bystander_after": sec[3][2] if len(sec) > 3 else None}
    if oc != "ok" or len(sec) != 6:
        fail(cx, NOWORLD, -1, {"oracle": "compaction through a relative symbolic link runs", "outcome": oc, "stack": st})
    else:
        # side observation OUTSIDE the property (an unrelated file of the working directory): evidence only, never a finding
        res["observation"] = ("bystander ./real.adf was replaced by the compacted copy (rewrite_file resolves the relative link target against the "
                              "current directory)" if sec[2][1] == "ok" and sec[3][2] != sec[0][2] else "bystander untouched")
        ck.extra["observation_relative_symlink"] = res["observation"]
    if oc == "ok" and len(sec) == 6 and sec[2][1] == "ok" and (sec[4][2] != sec[1][2] or sec[5][2] != sec[1][2] or not still_link):
        # what C09 does state: the file at the original path, and the link through which it was named, still hold the source's tree
        fail(cx, NOWORLD, -1, dict(res, oracle="the compacted file and the link through which it was named still hold the source's tree"))
    for f in ("real.adf",):
        try:
            os.unlink(os.path.join(work, f))
        except OSError:
            pass
    return res


CORPUS_KINDS = {"symlink_compress": corpus_symlink_compress, "collision": corpus_collision, "typed_copy": corpus_typed_copy, "diff_cross_format": corpus_diff_cross_format, "diff_deep": corpus_diff_deep,
                "compress_open": corpus_compress_open, "nested_link": corpus_nested_link, "link_target": corpus_link_target,
                "tol_nan": corpus_tol_nan}


def run_corpus(cx):
    """corpus/C09/*.json: the witnesses of the repaired defects (must pass; a regression is a VIOLATION under the
    defect's key), of the two known findings (KNOWN-FINDING while they still fail) and of the -t limit"""
    d = os.path.join(vlib.ROOT, "corpus", "C09")
    res = {}
    for fn in sorted(os.listdir(d)):
        if not fn.endswith(".json"):
            continue
        c = json.load(open(os.path.join(d, fn)))
        before = (len(cx.ck.violations), len(cx.ck.known_hits), len(cx.failures))
        r = CORPUS_KINDS[c["kind"]](cx, c)
        after = (len(cx.ck.violations), len(cx.ck.known_hits), len(cx.failures))
        res[c["name"]] = {"status": c["status"], "result": "as recorded" if before == after or (c["status"] in ("known finding", "open finding", "observation outside the property") and after[2] == before[2])
                          else "CHANGED", "detail": r}
    return res


# ------------------------------------------------------------------------------------------------ the run
def dotvers():
    m = re.search(r"#define\s+CGNS_DOTVERS\s+([0-9.]+)", open(os.path.join(vlib.REPO, "src", "cgnslib.h")).read())
    return float(m.group(1)) if m else 4.5


def build_all(cx):
    vlib.build_impl()
    cx.exe["cgio_h"] = vlib.build_harness("c09_cgio_h", ["cgio_h.c"])      # private copy: other checks rebuild "cgio_h" concurrently
    cx.exe["ops"] = vlib.build_harness("c09_ops", ["c09_ops.c"])
    cx.exe["lower"] = vlib.build_harness("c09_typed", ["c09_typed.c"])
    for t in ("cgnsdiff", "cgnsconvert"):
        cx.exe[t] = vlib.build_harness("c09_" + t, [os.path.join(TOOLS, t + ".c"), os.path.join(TOOLS, "getargs.c")], includes=[TOOLS])
    cx.exe["cgnscompress"] = vlib.build_harness("c09_cgnscompress", [os.path.join(TOOLS, "cgnscompress.c")], includes=[TOOLS])
    vlib.build_modelrun("c09")


def profile(i, rng, ver):
    k = i % 8
    o = {}
    if k == 1:
        o = {"nolinks": True, "size": rng.randint(10, 60), "big": True}
    elif k == 2:
        o = {"shape": "deep", "size": rng.randint(25, 45)}
    elif k == 3:
        o = {"shape": "wide", "size": rng.randint(60, 110)}
    elif k == 4:
        o = {"dangling": True}
    elif k == 5:
        o = {"big": True}
    elif k == 6:
        o = {"mll": ver}
    elif k == 7:
        o = {"widelinks": True}
    return o


def run(ck, pid="C09"):
    thorough = ck.tier == "thorough"
    cx = Ctx(ck)
    build_all(cx)
    res = vlib.coq_check_properties(pid)
    broken = ck.proof_result(res, CHECKER)
    forb = vlib.coq_forbidden_scan(pid)
    ck.extra["forbidden_tokens"] = forb
    if forb:
        ck.violation({"broken_obligation": "forbidden tokens", "hits": forb}, nofail=True)
    ck.cov["trusted_base"] = [
        "Coq 8.16.1 kernel + vm_compute", "extraction (ExtrOcamlBasic only), OCaml 4.13.1, ocaml/zutil.ml + eng_c09.ml (parser, dump printer, FNV-1a)",
        "harness/c09_ops.c (independent cgio walker with its own size table; drivers of the entry points; elementary edits), harness/cgio_h.c (file builder), harness/c09_typed.c",
        "checks/C09.py (generator, python bookkeeping of expected edited trees, comparators)",
        "Copy.v as the meaning of the cgio queries on link ids (answers for the target) and of qsort on equal keys (stable; glibc merge sort); norm_dump / fold (the options read by the independent oracle)"]
    ck.assumptions = [
        "the logical tree of a file is the forest below its root: the root's own label / type / data are format specific and are not copied (depth 0)",
        "sources hold the documented data types (MT, B1 C1 I4 I8 U4 U8 R4 R8 X4 X8; for an ADF destination also with a lower-case first letter) with every array written; a compound ADF type makes the copy report an error (C09_compound_type_reports_error)",
        "a copy that returns an error (HDF5 cannot hold a typed node without dimensions; unresolvable link with follow_links) is outside the property",
        "cgnsdiff is judged on pairs whose links resolve in both files (it exits with an error otherwise); -c / -i / -t are outside the default options",
        "ADF free-space / chunk tables and all of libhdf5 are tied by this differential run only",
        "axioms: 23 theorems closed; the 19 whose statement involves compare_data / compare_nodes / cgnsdiff (whose tolerance branch is "
        "written with Flocq's binary32 / binary64 operations) inherit Flocq's four standard-library axioms ClassicalDedekindReals.sig_forall_dec, "
        "ClassicalDedekindReals.sig_not_dec, FunctionalExtensionality.functional_extensionality_dep, Classical_Prop.classic"]
    ck.cov["rule"] = ("seeded worlds of 1-3 files in one back end (random trees of 6-110 nodes, deep chains, wide parents, all ten types, payloads around "
                      "4096 / 100000 bytes, arrays re-dimensioned after a first write, deleted garbage, internal / external / chained / nested links, "
                      "optionally a dangling link) x destination ADF / HDF5 x follow on / off through cgio_copy_file (source open r and m), cg_save_as, "
                      "cgnsconvert, cgio_compress_file (r and m), cgnscompress (in place and to a new file), compress-on-close; then cgnsdiff -d [-f] on "
                      "(file, copy) and on (file, copy with one elementary edit). non-trivial = the world has external and internal links or a payload "
                      "above 4096 bytes; distinct by SHA1 of the world")
    _MVER[0] = "cur"
    ck.extra["corpus"] = run_corpus(cx)          # regression inputs first
    ck.extra["matching_variant_validated"] = {"tool": cx.mver, "transcribed_default": "cur (MCur, /repo since 180fd8e)"}
    n = 40 if thorough else 10
    ver = dotvers()
    for i in range(n):
        be = "adf" if (i // 1) % 2 == 0 else "hdf5"
        o = profile(i + ck.seed, ck.rng, ver)
        w = gen_world(ck.rng, be, "w%d" % i, o)
        if o.get("mll"):
            w["mll"] = True
        do_world(cx, w, i, thorough)
        if sum(1 for f in cx.failures if f["kind"] == "property") >= 3:
            break
    # every aimed edit at least once per run: the ones the rotation did not reach, on a small cross-format pair
    missing = [t for t in TARGETED if not cx.dist["targeted"].get(t)]
    if missing and sum(1 for f in cx.failures if f["kind"] == "property") < 3:
        cx.force = missing
        do_world(cx, gen_world(ck.rng, "adf", "wq", {"nolinks": True, "size": 6}), n, thorough, only=[("copyfile_r", "hdf5", 1)])
    props = [f for f in cx.failures if f["kind"] == "property"]
    corr = [f for f in cx.failures if f["kind"] == "correspondence"]
    for f in props[:3]:
        f = shrink(cx, f)
        ck.violation({k: v for k, v in f.items() if k != "world_obj"})
    if not props and (corr or broken):
        ck.violation({"broken_obligations": broken, "correspondence_divergences": corr[:5],
                      "note": "the model (or a theorem about it) no longer describes the code; no input on which the property itself fails was found "
                              "among %d scenarios and the corpus" % ck.cov["traces_validated_against_impl"]}, nofail=True)
    ck.extra["input_distribution"] = cx.dist
    ck.extra["correspondence_divergences"] = len(corr)


def replay(ck, path):
    r = json.load(open(path))
    cx = Ctx(ck)
    build_all(cx)
    if r.get("finding_key") or not r.get("model_world_full"):
        before = len(ck.violations) + len(ck.known_hits)
        run_corpus(cx)
        bad = len(ck.violations) + len(ck.known_hits) - before + len([f for f in cx.failures if f["kind"] == "property"])
        print("replay: corpus %s" % ("has failing inputs (known findings included)" if bad else "passes"))
        return 1 if bad else 0
    w = world_from_model(r["model_world_full"], r["backend"], r["src"])
    if r.get("mll"):
        w["mll"] = True
    q = Ctx(_Quiet(ck)); q.exe = cx.exe
    do_world(q, w, 0, True, want_diff="cgnsdiff" in (r.get("oracle") or ""), only=[tuple(r["scen"])] if r.get("scen") else None)
    bad = [f for f in q.failures if f["kind"] == "property"]
    for f in bad[:3]:
        print("replay: fails -- %s" % json.dumps({k: v for k, v in f.items() if k in ("oracle", "scenario", "first_difference", "outcome", "edit", "path", "output")})[:1500])
    if not bad:
        print("replay: holds")
    return 1 if bad else 0
