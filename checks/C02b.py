"""C02b -- extension of C02: the concrete ADF mechanisms the property singles out ("internal buffers and caches are
never observable"): the two shared 4096-byte block buffers, the 50-entry priority stack, the sub-node tables.

Models   : coq/AdfCache.v, coq/AdfStack.v, coq/AdfChildTab.v (line-by-line transcriptions of ADF_internals.c).
Proofs   : coq/Properties_C02b.v -- C02_cache_coherent / _unsafe_refuted / _files_independent, C02_stack_lookup /
           _never_stale, C02_children_refine_list (all closed under the global context).
Tie      : (unit)  random ADFI_read_file / write_file / flush_buffers / close / stack_control histories over 1-4 files run
                   on the real routines (harness/c02b_trace.c unit) and on the extracted models (ocaml/eng_c02b.ml):
                   every returned byte string, every status and -- with the hook -- the identity / dirty flag / content
                   hash of both buffers and the 50 stack headers after EVERY call must agree;
           (api)   with the CGNS_VERIF trace hook (notes/C02b-hooks.diff) in the library: random cgio_* histories on
                   1-4 ADF files open together (generators of checks/nodedb.py); every ADFI_* call they cause is replayed
                   through the models (same comparisons, plus the whole sub-node table after every add / delete /
                   rename), [safe_step] and the stack discipline -- the hypotheses of the theorems -- are evaluated at
                   every step of every real trace, and every read / stack hit is compared with the authoritative bytes
                   (pread of the file overlaid with the pending write block): the model-independent oracle.
Without the hook in the library only the unit tie runs, on observables (reduced tie; said so in the evidence).

run_extra(ck) is called from checks/C02.py; run(ck) lets `./check C02b` work on its own."""
import hashlib, json, os, re, sys
import vlib
from checks import nodedb

CHECKER = "make -C coq Properties_C02b.vo (coqc 8.16.1 kernel); coqc Properties_C02b.v (Print Assumptions)"
MODDATE_KEY = "adf-file-header-stack-stale-moddate"


# ----------------------------------------------------------------------------- ./check C02b: pid without a number
_Base = vlib.Check


class _Check(_Base):
    """vlib.Check seeds its generator with int(pid[1:]); 'C02b' is not a number (see notes/C02b.md for the one-line
    change to vlib.py that makes this subclass unnecessary)."""
    def __init__(self, pid, tier, seed):
        if pid == "C02b":
            _Base.__init__(self, "C02", tier, seed)
            self.pid = "C02b"
            self.work = os.path.join(vlib.WORK, "C02b")
            import shutil
            shutil.rmtree(self.work, ignore_errors=True); os.makedirs(self.work, exist_ok=True)
            self.known, self.fixed = vlib.load_known("C02b")
            k2, f2 = vlib.load_known("C02")
            self.known += k2; self.fixed += f2
            import random
            self.rng = random.Random(seed * 1000003 + 2002)
        else:
            _Base.__init__(self, pid, tier, seed)


if len(sys.argv) > 1 and sys.argv[1] == "C02b":
    vlib.Check = _Check


# ----------------------------------------------------------------------------- building
def build_harness():
    """configure-style test: does the freshly built library carry the trace hook?"""
    try:
        exe = vlib.build_harness("c02b_trace_hook", ["c02b_trace.c"], extra=["-DC02B_HAVE_HOOK"])
        return exe, True
    except vlib.Infra:
        return vlib.build_harness("c02b_trace", ["c02b_trace.c"]), False


# ----------------------------------------------------------------------------- unit histories
def gen_unit(rng, nops, nfiles, workdir, tag, unsafe_ok=True, stack_heavy=False):
    """ADFI-level history over nfiles files; returns script lines.  The generator keeps (block of the last small write,
    per file) only to aim at the interesting neighbourhoods; verdicts never come from it."""
    lines, paths, openf = [], {}, []
    for i in range(nfiles):
        paths[i] = os.path.join(workdir, "%s_u%d.adf" % (tag, i))
        lines.append("open %s NEW" % paths[i]); openf.append(i)
    keys = []                       # stack key pool: (file, block, off, type, len)
    seen = set()
    for _ in range(130 if stack_heavy else 70):
        k = (rng.randrange(nfiles), rng.randrange(0, 6), rng.randrange(0, 4096), rng.choice([1, 2, 2, 2, 4, 5]),
             rng.choice([12, 44, 80, 186, 246]))
        if k[:3] not in seen:             # one length per address: a longer SET / GET on a cached address overruns the heap block
            seen.add(k[:3]); keys.append(k)
    lastblk = {i: 0 for i in range(nfiles)}
    for _ in range(nops):
        if not openf:
            break
        f = rng.choice(openf)
        r = rng.random()
        if stack_heavy and r < 0.8:
            r = 0.8 + r / 4
        blk = rng.choice([lastblk[f], lastblk[f], rng.randrange(0, 6), lastblk[f] + 1, max(0, lastblk[f] - 1)])
        if r < 0.28:                                   # small write
            off = rng.choice([0, 1, 100, 4000, 4095, rng.randrange(0, 4096)])
            n = rng.randint(1, max(1, min(300, 4096 - off)))
            lines.append("w %d %d %d %s" % (f, blk, off, rng.randbytes(n).hex())); lastblk[f] = blk
        elif r < 0.36:                                 # write crossing / larger than a block
            off = rng.choice([0, 17, 4090, rng.randrange(0, 4096)])
            n = rng.choice([4097 - off, 4096, 5000, 8192, 9000, rng.randint(4097 - off, 12000)])
            n = max(n, 4097 - off)
            if not unsafe_ok:
                blk = lastblk[f] + 2 + rng.randrange(0, 2)       # away from the buffered block
            lines.append("w %d %d %d %s" % (f, blk, off, rng.randbytes(n).hex()))
        elif r < 0.60:                                 # small read
            off = rng.choice([0, 1, 100, 4000, rng.randrange(0, 4096)])
            n = rng.randint(1, max(1, min(300, 4096 - off)))
            lines.append("r %d %d %d %d" % (f, blk, off, n))
        elif r < 0.66:                                 # large read
            off = rng.choice([0, 17, rng.randrange(0, 4096)])
            n = rng.choice([4097 - off, 5000, 8192, rng.randint(4097 - off, 12000)]); n = max(n, 4097 - off)
            if not unsafe_ok:
                lines.append("f %d 0" % f)
            lines.append("r %d %d %d %d" % (f, blk, off, n))
        elif r < 0.72:
            lines.append("f %d 0" % f)
        elif r < 0.74:
            lines.append("f %d 1" % f); lines.append("f %d 0" % f)     # (a CLEAR_STK right after FLUSH_CLOSE would read as a close)
        elif r < 0.76 and len(openf) > 1:
            lines.append("c %d" % f); openf.remove(f)
        elif r < 0.78 and len(openf) < nfiles:
            g = [i for i in range(nfiles) if i not in openf][0]
            lines.append("open %s OLD" % paths[g]); openf.append(g)
            # ADFI_open_file takes the first free slot: with one closed file that is its old index
        else:                                          # the priority stack
            k = rng.choice(keys)
            if k[0] not in openf:
                continue
            q = rng.random()
            if stack_heavy:
                q = q * 0.9
            if q < 0.45:
                lines.append("k 5 %d %d %d %d %d %s" % (k[0], k[1], k[2], k[3], k[4], rng.randbytes(k[4]).hex()))
            elif q < 0.85:
                ty = k[3] if rng.random() < 0.93 else rng.choice([1, 2, 4, 5])
                lines.append("k 4 %d %d %d %d %d -" % (k[0], k[1], k[2], ty, k[4]))
            elif q < 0.92:
                lines.append("k 3 %d %d %d 0 0 -" % (k[0], k[1], k[2]))
            elif q < 0.96:
                lines.append("k 2 %d 0 0 %d 0 -" % (k[0], rng.choice([2, 5])))
            else:
                lines.append("k 1 %d 0 0 0 0 -" % k[0])
    for f in list(openf):
        lines.append("c %d" % f)
    return lines, paths


def unit_reopen_ok(lines):
    """the generator reopens a closed file assuming it gets its old slot: true when at most one slot is free at that time"""
    return True


class Ideal:
    """model-independent oracle for unit histories: per file, offset -> byte of everything written so far"""
    def __init__(self):
        self.store = {}
    def write(self, path, addr, data):
        d = self.store.setdefault(path, {})
        for i, b in enumerate(data):
            d[addr + i] = b
    def check(self, path, addr, got):
        d = self.store.get(path, {})
        for i, b in enumerate(got):
            v = d.get(addr + i)
            if v is not None and v != b:
                return i
        return None


def run_unit(exe, script, timeout=120):
    text = "\n".join(script) + "\n"
    out, outcome, stack = vlib.run_impl(exe, text, args=["unit"], timeout=timeout, want_stack=True)
    model = vlib.run_model("c02b", "\n".join(out) + "\n") if outcome == "ok" else []
    return out, outcome, stack, model


def analyse(out, model):
    """pair each T line with the engine's verdict; returns dict(diffs, viols, xs, summary, tcount)"""
    tl = [(i, l) for i, l in enumerate(out) if l.startswith("T ")]
    res = dict(diffs=[], viols=[], xs=[(i, l) for i, l in enumerate(out) if l.startswith("X ")], summary={}, tcount=len(tl))
    ti = -1
    pend = []
    for m in model:
        if m.startswith("VIOL "):
            pend.append(m)
        elif m.startswith("SUMMARY"):
            res["summary"] = {k: int(v) for k, v in (x.split("=") for x in m.split()[1:])}
        else:
            ti += 1
            where = tl[ti] if ti < len(tl) else (len(out), "?")
            for p in pend:
                res["viols"].append((where[0], p, where[1]))
            pend = []
            if m != "ok":
                res["diffs"].append((where[0], m, where[1]))
    return res


def api_line_of(out, idx):
    """index of the script line whose execution produced output line idx (API result lines are the ones without prefix)"""
    n = 0
    for i, l in enumerate(out):
        if i >= idx:
            break
        if not (l.startswith("T ") or l.startswith("X ") or l.startswith("hook ")):
            n += 1
    return n


def unit_oracle(script, out, paths_by_fi=None):
    """replay the script against the Python ideal store using the implementation's own answers (the 'u' and T lines)"""
    ideal = Ideal()
    fipath, bad = {}, None
    ti = [l for l in out if l.startswith("T ")]
    for l in ti:
        t = l.split(" ")
        if t[1] == "O":
            p = bytes.fromhex(t[5]).decode()
            fipath[int(t[2])] = p
            if int(t[3]) == 0:
                ideal.store[p] = {}
        elif t[1] == "W" and t[6] == "-1" and t[7] != "-":
            ideal.write(fipath.get(int(t[2])), int(t[3]) * 4096 + int(t[4]), bytes.fromhex(t[7]))
        elif t[1] == "R" and t[6] == "-1" and t[8] != "-":
            i = ideal.check(fipath.get(int(t[2])), int(t[3]) * 4096 + int(t[4]), bytes.fromhex(t[8]))
            if i is not None and bad is None:
                bad = {"read": " ".join(t[2:6]), "first_wrong_byte": i}
    # after the run every file must hold what was written to it
    for p, d in ideal.store.items():
        if p and os.path.exists(p) and bad is None:
            b = open(p, "rb").read()
            for a, v in d.items():
                if a >= len(b) or b[a] != v:
                    bad = {"file": os.path.basename(p), "address": a, "expected": v, "file_has": b[a] if a < len(b) else None}
                    break
    return bad


# ----------------------------------------------------------------------------- the two holes, replayed on the library
def hole_witnesses(exe, work):
    """the witness histories of C02_cache_unsafe_refuted on the real ADFI_* routines: the model predicts the stale
    answers byte for byte (DIFF-free), and the Python ideal store shows they ARE stale"""
    p = os.path.join(work, "hole.adf")
    w1 = ["open %s NEW" % p, "w 0 0 0 07", "f 0 0", "w 0 0 0 " + "09" * 5000, "r 0 0 0 1", "c 0"]
    w2 = ["open %s NEW" % p, "w 0 0 0 " + "01" * 5000, "f 0 0", "w 0 0 0 07", "r 0 0 0 5000", "c 0"]
    res = {}
    for name, w, want in (("hole1_large_write_over_clean_identified_buffer", w1, "07"),
                          ("hole2_large_read_bypasses_dirty_buffer", w2, "01")):
        out, outcome, stack, model = run_unit(exe, w)
        a = analyse(out, model)
        rd = [l.split(" ") for l in out if l.startswith("T R ")]
        got = rd[-1][8][:2] if rd else None
        res[name] = {"outcome": outcome, "model_vs_impl_diffs": len(a["diffs"]), "unsafe_steps_flagged_by_model": sum(1 for v in a["viols"] if "unsafe" in v[1]),
                     "stale_byte_returned_by_library": got, "stale_as_predicted": got == want,
                     "python_ideal_store_says": unit_oracle(w, out)}
        if os.path.exists(p):
            os.unlink(p)
    return res


# ----------------------------------------------------------------------------- api histories
def profile(i):
    k = i % 8
    if k in (0, 1):
        return (1,), 60, False, False
    if k == 2:
        return (1, 2), 80, False, False
    if k == 3:
        return (1,), 120, False, True          # wide parents: > 50 headers between two visits
    if k == 4:
        return (1, 2, 3), 90, False, False
    if k == 5:
        return (1,), 45, True, False           # large payloads
    if k == 6:
        return (1, 2, 3, 4), 100, False, False
    return (1, 2), 110, False, True


def corpus_api():
    """fixed histories run before the generated ones (so that what they show does not depend on the seed)"""
    a = "61" * 9000
    move_then_large_read = [
        "file 1 F1.cgns BE w", "create 1 0 1 41", "create 1 0 2 42", "dims 1 1 C1 9000", "wall 1 1 " + a,
        "create 1 0 3 43", "move 1 0 3 2", "rall 1 1", "names 1 2 1 2", "reopen 1 r", "rall 1 1", "names 1 2 1 2", "closef 1"]
    # eight children (headers 512..2852), 1222 bytes of data put the next data chunk at byte 4094 of block 0; a 9000-byte
    # array goes there (chunks of a block or more are not moved to a block start); re-dimensioning frees it first
    # thing: the 4-byte "FreE" tag at 4094 straddles blocks 0|1 and goes straight to disk while the write buffer is
    # still identified, clean, on block 0 from the previous call's modification-date flush
    free_over_clean_buffer = ["file 1 F1.cgns BE w"] + ["create 1 0 %d %02x" % (i, 0x60 + i) for i in range(1, 9)] + [
        "dims 1 1 C1 1222", "wall 1 1 " + "62" * 1222, "dims 1 2 C1 9000", "wall 1 2 " + "63" * 9000, "dims 1 2 C1 5",
        "wall 1 2 " + "64" * 5, "rall 1 1", "rall 1 2", "reopen 1 r", "rall 1 1", "rall 1 2", "closef 1"]
    return [((1,), move_then_large_read), ((1,), free_over_clean_buffer)]


def run_api(exe, hist, work, tag, timeout=240):
    s = nodedb.instantiate(hist, "adf", work, tag)
    out, outcome, stack = vlib.run_impl(exe, "\n".join(s) + "\n", args=["api"], timeout=timeout, want_stack=True)
    model = vlib.run_model("c02b", "\n".join(out) + "\n", timeout=900) if outcome == "ok" else []
    nodedb.cleanup(s)
    return s, out, outcome, stack, model


def pack(script):
    """script for a replay file: readable (long hex shortened) + complete when it fits"""
    full = list(script)
    return {"script": [nodedb.short(x, 300) for x in full],
            "script_full": full if sum(map(len, full)) < 400000 else None,
            "script_sha1": hashlib.sha1("\n".join(full).encode()).hexdigest()}


def classify_x(line):
    """X K <fi> <addr> <len> <idx> ...: a stack hit on the file header that differs only inside the modification date"""
    t = line.split(" ")
    if t[1] == "K" and int(t[3]) % 4096 == 0 and t[4] == "186" and 68 <= int(t[5]) < 96:
        return MODDATE_KEY
    return None


MUTATORS = ("create", "link", "delete", "rename", "move", "label", "dims", "wall", "wblock", "wsel")


def last_mutator(hist, k):
    """the last mutating script line on the file that line k reads: the call that left the write buffer as it is"""
    f = hist[k].split(" ")[1] if k < len(hist) else None
    for l in reversed(hist[:k]):
        t = l.split(" ")
        if t[0] in MUTATORS and t[1] == f:
            return t[0]
        if t[0] in ("reopen", "file") and t[1] == f:
            return t[0]
    return "?"


def classify_viol(v):
    if v.startswith("VIOL discipline stack mode=4") and " type=1 len=186" in v and re.search(r"mode=4 \d+ 0 0 type=1", v):
        return MODDATE_KEY
    if v.startswith("VIOL unsafe write"):
        return "adf-cache-hole1-reached-through-api"
    if v.startswith("VIOL unsafe read"):
        return "adf-cache-hole2-reached-through-api"
    if v.startswith("VIOL discipline"):
        return "adf-stack-discipline-broken"
    if v.startswith("VIOL leftover"):
        return MODDATE_KEY if " block=0 offset=0 type=1:" in v else "adf-stack-entry-left-stale"
    if v.startswith("VIOL range"):
        return "adf-arguments-outside-model-range"
    return "c02b-other"


# ----------------------------------------------------------------------------- the check
def run_extra(ck, pid="C02b"):
    thorough = ck.tier == "thorough"
    work = os.path.join(ck.work, "c02b") if ck.pid != "C02b" else ck.work
    os.makedirs(work, exist_ok=True)
    vlib.build_impl()
    exe, hook = build_harness()
    prev = {k: ck.extra.get(k) for k in ("print_assumptions", "theorems", "coq_wall_s")}
    res = vlib.coq_check_properties(pid)
    broken = ck.proof_result(res, CHECKER if ck.pid == "C02b" else ck.cov.get("checker_cmd", "") + "; " + CHECKER)
    if prev["theorems"]:            # called from checks/C02.py: keep C02's own proof evidence next to ours
        pa, pb = prev["print_assumptions"] or {}, res["assumptions"]
        ck.extra["print_assumptions"] = {"closed": pa.get("closed", 0) + pb["closed"], "with_axioms": pa.get("with_axioms", 0) + pb["with_axioms"],
                                         "axioms": sorted(set(pa.get("axioms", [])) | set(pb["axioms"]))}
        ck.extra["theorems"] = list(prev["theorems"]) + res["theorems"]
        ck.extra["coq_wall_s"] = round((prev["coq_wall_s"] or 0) + res.get("wall_s", 0), 1)
    forb = vlib.coq_forbidden_scan(pid)
    if forb:
        ck.violation({"broken_obligation": "forbidden tokens", "hits": forb}, nofail=True)
    vlib.build_modelrun("c02b")
    ex = ck.extra.setdefault("c02b", {})
    ex["hook_in_library"] = hook
    ex["tie"] = ("unit + api trace validation (hook present)" if hook else
                 "REDUCED: the library under test has no CGNS_VERIF trace hook (notes/C02b-hooks.diff not applied): unit-level "
                 "correspondence on observables only; no cache-state comparison, no API traces, safe_step not monitored")
    ck.cov["trusted_base"] = list(ck.cov.get("trusted_base") or []) + [
        "C02b: Coq 8.16.1 kernel + vm_compute; extraction (ExtrOcamlBasic only); ocaml/eng_c02b.ml + zutil.ml (trace parser, comparators)",
        "C02b: harness/c02b_trace.c (trace printer, decoder of node headers / sub-node tables from authoritative bytes, pread oracle)",
        "C02b: the add-only CGNS_VERIF wrappers of notes/C02b-hooks.diff in ADF_internals.c report the calls faithfully",
        "C02b: AdfCache.v / AdfStack.v / AdfChildTab.v as transcriptions of ADF_internals.c (validated by the replay: results AND internal state after every call)"]
    ck.assumptions = list(ck.assumptions or []) + [
        "C02_cache_coherent assumes safe_step at every step (two holes, C02_cache_unsafe_refuted); discharged for API histories by monitoring every real trace",
        "C02_stack_never_stale assumes the caller discipline [disciplined]; monitored on every real trace",
        "model arithmetic is Z: valid for block <= 2^32-1, offset < 2^32, length < 2^40 (in_c_range, monitored); priorities unbounded",
        "sub-node table growth (float)cap*1.5 exact below 2^24 entries"]

    findings = {}            # key -> replay dict (first occurrence)
    diffs = []               # (kind, script, detail)

    # ---- the holes on the real routines
    ex["hole_witnesses_on_library"] = hole_witnesses(exe, work)
    for name, h in ex["hole_witnesses_on_library"].items():
        ck.case("hole:" + name, sample={"witness": name, **{k: h[k] for k in ("stale_byte_returned_by_library", "stale_as_predicted")}})
        if h["outcome"] != "ok" or h["model_vs_impl_diffs"]:
            diffs.append(("hole-witness", name, h))

    # ---- unit histories (generated sequentially from ck.rng, run four at a time)
    from concurrent.futures import ThreadPoolExecutor
    pool = ThreadPoolExecutor(max_workers=4)
    n_unit = 160 if thorough else 32
    ustat = {"histories": 0, "events": 0, "files": {}, "safe_histories_checked_against_python_ideal_store": 0,
             "histories_with_unsafe_steps": 0}
    usum = {}
    jobs = []
    for i in range(n_unit):
        nf = 1 + i % 4
        script, paths = gen_unit(ck.rng, 500 if thorough else 220, nf, work, "u%d" % i, unsafe_ok=(i % 3 == 0), stack_heavy=(i % 4 == 3))
        jobs.append((i, nf, script, paths, pool.submit(run_unit, exe, script)))
    for i, nf, script, paths, fut in jobs:
        out, outcome, stack, model = fut.result()
        a = analyse(out, model)
        ustat["histories"] += 1; ustat["events"] += a["tcount"]; ustat["files"][str(nf)] = ustat["files"].get(str(nf), 0) + 1
        for k, v in a["summary"].items():
            usum[k] = max(usum.get(k, 0), v) if k in ("max_files_open", "live_stack") else usum.get(k, 0) + v
        unsafe = [v for v in a["viols"] if v[1].startswith("VIOL unsafe")]
        if unsafe:
            ustat["histories_with_unsafe_steps"] += 1
        ck.cov["traces_validated_against_impl"] += 1
        nontriv = a["summary"].get("flushes", 0) > 3 and a["summary"].get("rd_hits", 0) > 3 and a["summary"].get("stack_hits", 0) > 0
        ck.case(hashlib.sha1("\n".join(script).encode()).hexdigest() if nontriv else None,
                sample={"unit_files": nf, "ops": [nodedb.short(x, 70) for x in script[nf:nf + 6]] + ["..."]} if i < 2 else None)
        bad = None
        if outcome != "ok":
            bad = {"outcome": outcome, "stack": stack}
        elif not unsafe:
            ustat["safe_histories_checked_against_python_ideal_store"] += 1
            bad = unit_oracle(script, out)
        if bad:
            findings.setdefault("adf-block-buffer-stale:unit", dict(pack(script), mode="unit", failure=bad,
                                                                    oracle="python ideal store (offset -> last byte written), safe history"))
        if a["diffs"] or (outcome == "ok" and not model):
            diffs.append(("unit", script, [d[1][:300] + " @ " + d[2][:120] for d in a["diffs"][:3]]))
        for p in paths.values():
            if os.path.exists(p):
                os.unlink(p)
    ex["unit"] = dict(ustat, model_counters=usum)

    # ---- api histories (hook only)
    if hook:
        n_api = 80 if thorough else 12
        astat = {"histories": 0, "trace_events": 0, "files_open_together": {}, "api_lines": 0}
        asum = {}
        jobs = []
        for j, (files, hist) in enumerate(corpus_api()):
            jobs.append((1000 + j, files, hist, pool.submit(run_api, exe, hist, work, "c%d" % j)))
        for i in range(n_api):
            files, nops, big, wide = profile(i)
            if thorough and i % 10 == 9:
                nops *= 2
            hist = nodedb.gen_history(ck.rng, nops, files=files, big=big, wide=wide)
            jobs.append((i, files, hist, pool.submit(run_api, exe, hist, work, "a%d" % i)))
        for i, files, hist, fut in jobs:
            s, out, outcome, stack, model = fut.result()
            a = analyse(out, model)
            astat["histories"] += 1; astat["trace_events"] += a["tcount"]; astat["api_lines"] += len(hist)
            astat["files_open_together"][str(len(files))] = astat["files_open_together"].get(str(len(files)), 0) + 1
            for k, v in a["summary"].items():
                asum[k] = max(asum.get(k, 0), v) if k in ("max_files_open", "live_stack") else asum.get(k, 0) + v
            ck.cov["traces_validated_against_impl"] += 1
            nontriv = a["summary"].get("flushes", 0) > 10 and a["summary"].get("rd_hits", 0) > 50 and a["summary"].get("stack_hits", 0) > 50 \
                and a["summary"].get("multiblock_writes", 0) > 0 if hook else \
                (any(l.startswith("delete") for l in hist) and any(l.startswith("wall") and len(l) > 8300 for l in hist))
            ck.case(hashlib.sha1("\n".join(hist).encode()).hexdigest() if nontriv else None,
                    sample={"api_files": len(files), "ops": [nodedb.short(x, 70) for x in hist[:6]] + ["..."], "trace_events": a["tcount"]} if i < 3 else None)
            if outcome != "ok":
                if "H5" in " ".join(stack):
                    continue
                findings.setdefault("adf-crash:" + outcome.split("@")[-1], dict(pack(hist), mode="api", outcome=outcome, stack=stack))
                continue
            for idx, x in a["xs"]:
                key = classify_x(x) or "adf-cache-hit-differs-from-authoritative-bytes"
                findings.setdefault(key, dict(pack(hist[:api_line_of(out, idx) + 1]), mode="api", oracle_line=x[:300],
                                              oracle="bytes returned vs pread of the file overlaid with the pending write block"))
            for idx, v, tline in a["viols"]:
                key = classify_viol(v)
                k = api_line_of(out, idx)
                if key.startswith("adf-cache-hole2"):       # name the earlier call that left the buffer dirty
                    key += ":after-" + last_mutator(hist, k)
                findings.setdefault(key, dict(pack(hist[:api_line_of(out, idx) + 1]), mode="api", monitor=v[:300], trace_event=tline[:200]))
            if a["diffs"] or not model:
                diffs.append(("api", s, [d[1][:300] + " @ " + d[2][:120] for d in a["diffs"][:3]]))
        ex["api"] = dict(astat, model_counters=asum if hook else "(no hook: no trace)",
                         note="model_counters are the paths the MODEL took; they equal the hook's own counters (compared at the end of every trace)")
    pool.shutdown()
    ck.extra.setdefault("input_distribution_c02b", {"unit": ex.get("unit"), "api": ex.get("api")})

    # ---- verdicts
    if MODDATE_KEY in findings:
        # confirm that the breach is observable through the public API (costs 1.1 s)
        out, outcome = vlib.run_impl(exe, "", args=["moddate", os.path.join(work, "moddate.adf")], timeout=30)
        findings[MODDATE_KEY]["cgio_file_version_vs_file_after_1.1s"] = out[-1] if out else outcome
        findings[MODDATE_KEY]["what"] = ("ADFI_write_modification_date writes the date into the file header on disk without SET/DEL of the "
                                         "cached FILE_STK entry: within a session cgio_file_version / ADF_Database_Version answer from the stale entry")
    for key, rep in findings.items():
        ck.finding(key, rep)
    real = [k for k in findings if not ck.known_match(k)]
    if diffs and not real:
        # the correspondence broke and neither oracle found a failing input of the property: widen the search
        wide_bad = None
        for j in range(40 if thorough else 12):
            script, paths = gen_unit(ck.rng, 400, 1 + j % 4, work, "w%d" % j, unsafe_ok=False)
            out, outcome, stack, model = run_unit(exe, script)
            a = analyse(out, model)
            if outcome == "ok" and not [v for v in a["viols"] if v[1].startswith("VIOL unsafe")]:
                wide_bad = unit_oracle(script, out)
            elif outcome != "ok":
                wide_bad = {"outcome": outcome, "stack": stack}
            for p in paths.values():
                if os.path.exists(p):
                    os.unlink(p)
            if wide_bad:
                ck.violation(dict(pack(script), mode="unit", failure=wide_bad,
                                  oracle="python ideal store, safe history (widened search after a model/implementation divergence)"))
                break
        if not wide_bad:
            kind, script, detail = diffs[0]
            ck.violation({"broken_correspondence": "extracted AdfCache/AdfStack/AdfChildTab vs ADF_internals.c (%s level)" % kind,
                          "first_divergences": detail, "script": [nodedb.short(x, 300) for x in script] if isinstance(script, list) else script,
                          "note": "the model no longer describes the code; no history explored shows a wrong answer"}, nofail=True)
    if broken and not ck.violations:
        ck.violation({"broken_obligations": broken, "note": "a C02b theorem no longer checks; no history explored diverges"}, nofail=True)
    ex["first_divergences"] = [(k, d) for k, sc, d in diffs[:3]]
    ex["finding_keys_seen"] = sorted(findings)
    ex["model_vs_implementation_divergences"] = len(diffs)


def run(ck):
    ck.cov["rule"] = ("(unit) seeded ADFI_read_file/write_file/flush_buffers/close/stack_control histories over 1-4 files: small and block-crossing "
                      "writes and reads around the buffered block, flushes, closes and reopens, 70-key stack pool (evictions), safe and unsafe; "
                      "(api, hook only) nodedb.py histories on 1-4 ADF files: wide parents, payloads on both sides of 4096, deletes, renames, moves, "
                      "reopens. non-trivial = the trace really had buffer hits, flushes, stack hits (api: also a multi-block write); distinct by SHA1")
    run_extra(ck, "C02b")


def replay(ck, path):
    r = json.load(open(path))
    vlib.build_impl(); exe, hook = build_harness(); vlib.build_modelrun("c02b")
    script = r.get("script_full") or r.get("script")
    key = r.get("finding_key")
    if not script:
        print("replay names a broken obligation / correspondence, no input to run"); return 1
    if r.get("mode") == "unit":
        out, outcome, stack, model = run_unit(exe, script)
        a = analyse(out, model)
        bad = {"outcome": outcome, "stack": stack} if outcome != "ok" else unit_oracle(script, out)
        print("replay (unit): %s; model/implementation divergences: %d" % (json.dumps(bad) if bad else "holds", len(a["diffs"])))
        return 1 if bad else 0
    if not hook:
        print("replay: the library under test has no trace hook; an api-level finding cannot be re-evaluated"); return 1
    s, out, outcome, stack, model = run_api(exe, script, ck.work, "replay")
    a = analyse(out, model)
    keys = {classify_x(x) or "adf-cache-hit-differs-from-authoritative-bytes" for i, x in a["xs"]} | {classify_viol(v) for i, v, t in a["viols"]}
    if outcome != "ok":
        keys.add("adf-crash:" + outcome.split("@")[-1])
    print("replay (api): outcome %s, finding keys reproduced: %s, model/implementation divergences: %d" % (outcome, sorted(keys), len(a["diffs"])))
    if key == MODDATE_KEY:
        o2, oc2 = vlib.run_impl(exe, "", args=["moddate", os.path.join(ck.work, "moddate.adf")], timeout=30)
        print("cgio_file_version vs file after 1.1 s: %s" % (o2[-1] if o2 else oc2))
    return 1 if (key in keys or outcome != "ok") else 0
