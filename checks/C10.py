"""C10 -- element sections: partial reads are slices, partial writes are splices.

Proof side : coq/Properties_C10.v over coq/ElemSplice.v (+ ElemSpliceProofs.v): a transcription of the element
             section code of src/cgnslib.c (creation, fixed / MIXED / NGON / NFACE splice with its three-way case
             split and memcpy offsets, parent-data resize, every read, cgi_element_data_size, cg_npe).
Tie        : correspondence -- the extracted model and the real library (harness/c10_elem_h.c, ASan/UBSan build of
             /repo's working tree) run the same histories on ADF and on HDF5 files; every output line is compared.
Oracle     : independent of the model: a Python list-of-elements reference (class Ref) with the documented
             semantics (splice with placeholder elements in gaps, slice, rebased offsets, parent data per element).
Defects still present in /repo are exhibited by fixed probe histories (PROBES) and reported through
ck.finding(key, ...); the random histories avoid exactly those triggers, and only while the probe still fails (the model
carries both the current and the repaired variant of that code).  Repaired defects are regression histories in
corpus/C10/*.hist: a failure there is a violation.
"""
import hashlib, json, os
import vlib

FILL = "-555"
NPE = [0, 0, 1, 2, 3, 3, 6, 4, 8, 9, 4, 10, 5, 14, 6, 15, 18, 8, 20, 27, 0, 13, 0, 0, 4, 9, 10, 12, 16, 16, 20, 21, 29, 30,
       24, 38, 40, 32, 56, 64, 5, 12, 15, 16, 25, 22, 34, 35, 29, 50, 55, 33, 66, 75, 44, 98, 125]
MIXED, NGON, NFACE, NODE = 20, 22, 23, 2


def is_fixed(t):
    return (2 <= t <= 19) or t == 21 or (24 <= t <= 56)


def placeholder(t):
    """what the library documents / writes for an element nobody wrote (gap of a partial write, cg_section_initialize)"""
    if is_fixed(t):
        return [0] * NPE[t]
    return [NODE, 0] if t == MIXED else [0, 0]


# ------------------------------------------------------------------ ops <-> script lines
def vec(v):
    return "%d %s" % (len(v), " ".join(str(x) for x in v)) if v else "0"


def flat(elems):
    return [x for e in elems for x in e]


def offsets_of(elems):
    o = [0]
    for e in elems:
        o.append(o[-1] + len(e))
    return o


def line_of(op):
    k = op[0]
    if k == "secw":
        return "secw %d %d %d %s" % (op[1], op[2], op[3], vec(flat(op[4])))
    if k == "psecw":
        return "psecw %d %d %d %s %s" % (op[1], op[2], op[3], vec(flat(op[4])), vec(offsets_of(op[4])))
    if k == "secpw":
        return "secpw %d %d %d" % (op[1], op[2], op[3])
    if k == "secgw":
        return "secgw %d %d %d %d %d" % (op[1], op[2], op[3], op[4], op[5])
    if k == "epw":
        return "epw %d %d %s" % (op[1], op[2], vec(flat(op[3])))
    if k == "egw":
        return "egw %d %d %d %s" % (op[1], op[2], op[3], vec(flat(op[4])))
    if k == "ppw":
        return "ppw %d %d %s %s" % (op[1], op[2], vec(flat(op[3])), vec(offsets_of(op[3])))
    if k == "pgw":
        return "pgw %d %d %d %s %s" % (op[1], op[2], op[3], vec(flat(op[4])), vec(offsets_of(op[4])))
    if k == "pdw":
        return "pdw %s" % vec(cols_of(op[1]))
    if k == "pdpw":
        return "pdpw %d %d %s" % (op[1], op[2], vec(cols_of(op[3])))
    return " ".join(str(x) for x in op)


def cols_of(rows):
    """rows of (pe0, pe1, pf0, pf1) -> the API layout: four columns one after the other"""
    return [r[j] for j in range(4) for r in rows]


# ------------------------------------------------------------------ the independent reference
class Ref:
    """A section is (type, first, list of elements); parent data is one row of four per element.  None = a value the
    API leaves unspecified (created without data); '?' in expectations matches anything."""

    def __init__(self):
        self.sec = None

    def n(self):
        return len(self.sec["elems"])

    def last(self):
        return self.sec["first"] + self.n() - 1

    def create(self, t, first, elems, dt=8, slack=False):
        self.sec = {"type": t, "first": first, "elems": elems, "par": None, "dt": dt, "slack": slack}

    @staticmethod
    def pat(v):
        return ["?" if x is None else str(x) for x in v]

    def conn_pat(self, elems):
        t = self.sec["type"]
        out = []
        for e in elems:
            out += ["?"] * NPE[t] if e is None else [str(x) for x in e]
        return out

    def par_pat(self, a, b, cols=(0, 1, 2, 3)):
        f = self.sec["first"]
        rows = self.sec["par"][a - f:b - f + 1]
        return ["?" if r[j] is None else str(r[j]) for j in cols for r in rows]

    def splice(self, s, e, new):
        sec = self.sec
        f, l, t = sec["first"], self.last(), sec["type"]
        lo, hi = min(f, s), max(l, e)
        elems, par = [], []
        for i in range(lo, hi + 1):
            if s <= i <= e:
                elems.append(list(new[i - s]))
            elif f <= i <= l:
                elems.append(sec["elems"][i - f])
            else:
                elems.append(placeholder(t))
            if sec["par"] is not None:
                if f <= i <= l and not (s <= i <= e):
                    par.append(sec["par"][i - f])
                elif f <= i <= l:
                    par.append([None] * 4 if (lo, hi) != (f, l) else sec["par"][i - f])   # rewritten element: kept or zeroed
                else:
                    par.append([0, 0, 0, 0])
        sec["first"], sec["elems"] = lo, elems
        if sec["par"] is not None:
            sec["par"] = par

    def apply(self, op):
        """-> expected output line as a list of vectors of tokens ('?' any token, '>=N', '*' any tail), or None"""
        k, sec = op[0], self.sec
        if k in ("secw", "psecw"):
            t, s, e, elems = op[1], op[2], op[3], op[4]
            if s > e or (k == "secw" and not is_fixed(t)):
                return [["r", "1"]]
            self.create(t, s, [list(x) for x in elems])
            return [["r", "0"]]
        if k in ("secpw", "secgw"):
            t = op[1]
            s, e = (op[2], op[3]) if k == "secpw" else (op[3], op[4])
            if s > e:
                return [["r", "1"]]
            n = e - s + 1
            elems = [None] * n if is_fixed(t) else [placeholder(t) for _ in range(n)]
            if k == "secgw" and not is_fixed(t) and op[5] < 2 * n:
                return [["r", "1"]]
            self.create(t, s, elems, dt=op[2] if k == "secgw" else 8, slack=(k == "secgw" and not is_fixed(t) and op[5] > 2 * n))
            return [["r", "0"]]
        if sec is None:
            return [[{"info": "i", "psize": "z"}.get(k, "r" if k in ("epw", "egw", "ppw", "pgw", "pdw", "pdpw", "reopen") else "E"),
                     "1" if k != "reopen" else "0"]]
        f, l, t = sec["first"], self.last(), sec["type"]
        if k in ("epw", "egw", "ppw", "pgw"):
            s, e, new = (op[1], op[2], op[3]) if k in ("epw", "ppw") else (op[2], op[3], op[4])
            poly = k in ("ppw", "pgw")
            if s > e or poly == is_fixed(t):
                return [["r", "1"]]
            self.splice(s, e, new)
            sec["slack"] = True if poly else sec["slack"]      # an in-place shrink may leave reserved space behind
            return [["r", "0"]]
        if k == "pdw":
            sec["par"] = [list(r) for r in op[1]]
            return [["r", "0"]]
        if k == "pdpw":
            s, e, rows = op[1], op[2], op[3]
            if s < f or e > l or s > e:
                return [["r", "1"]]
            if sec["par"] is None:
                sec["par"] = [[None] * 4 for _ in range(self.n())]
            for i in range(s, e + 1):
                sec["par"][i - f] = list(rows[i - s])
            return [["r", "0"]]
        total = sum(NPE[t] if x is None else len(x) for x in sec["elems"])
        if k == "info":
            return [["i", "0", str(t), str(f), str(l), "1" if sec["par"] is not None else "0",
                     (">=%d" if sec["slack"] else "%d") % total]]
        if k == "reopen":
            return [["r", "0"]]
        if k in ("er", "per"):
            if (k == "er") != is_fixed(t):
                return None if k == "per" else [["E", "1"]]
            out = [["E", "0"], self.conn_pat(sec["elems"]) + (["*"] if sec["slack"] else [])]
            if k == "per":
                out.append([str(x) for x in offsets_of([[0] * (NPE[t] if x is None else len(x)) for x in sec["elems"]])])
            if op[1] and sec["par"] is not None:
                out.append(self.par_pat(f, l))
            return out
        # ranged reads
        if k == "psize":
            a, b = op[1], op[2]
        elif k in ("epr", "ppr"):
            a, b = op[1], op[2]
        else:
            a, b = op[2], op[3]
        tag = "z" if k == "psize" else "E"
        if a > b or a < f or b > l:
            return [[tag, "1"]]
        part = sec["elems"][a - f:b - f + 1]
        size = sum(NPE[t] if x is None else len(x) for x in part)
        if k == "psize":
            return [["z", "0", (">=%d" if (sec["slack"] and (a, b) == (f, l)) else "%d") % size]]
        if k in ("epr", "egr"):
            if not is_fixed(t):
                return [["E", "1"]]
            out = [["E", "0"], self.conn_pat(part)]
        elif k in ("ppr", "pgr"):
            if is_fixed(t):
                return None
            out = [["E", "0"], self.conn_pat(part), [str(x) for x in offsets_of(part)]]
        else:   # pegr / pfgr
            if sec["par"] is None:
                return [["E", "1"]]
            return [["E", "0"], self.par_pat(a, b, (0, 1) if k == "pegr" else (2, 3))]
        if k in ("epr", "ppr") and op[3] and sec["par"] is not None:
            out.append(self.par_pat(a, b))
        return out


def split_line(l):
    """'E 0 | 1 2 | 3' -> [['E','0'],['1','2'],['3']] ; trailing unwritten buffer cells (FILL) are dropped"""
    parts = [p.split() for p in l.split("|")]
    for p in parts[1:]:
        while p and p[-1] == FILL:
            p.pop()
        if p == ["-"]:
            p.clear()
    return parts


def match_vec(pat, got):
    i = 0
    for i, p in enumerate(pat):
        if p == "*":
            return True
        if i >= len(got):
            return False
        g = got[i]
        if p == "?" or p == "U":
            continue
        if p.startswith(">="):
            try:
                if int(g) >= int(p[2:]):
                    continue
            except ValueError:
                pass
            return False
        if p != g:
            return False
    return len(got) == len(pat)


def match_line(pat, line):
    got = split_line(line)
    return len(got) == len(pat) and all(match_vec(p, g) for p, g in zip(pat, got))


def show(pat):
    return " | ".join(" ".join(v) if v else "-" for v in pat)


# ------------------------------------------------------------------ running one history
def run_impl(exe, ops, path, backend):
    if os.path.exists(path):
        os.unlink(path)
    lines, outcome = vlib.run_impl(exe, "\n".join(line_of(o) for o in ops) + "\n", args=[path, backend], timeout=120)
    if os.path.exists(path):
        os.unlink(path)
    return lines, outcome


def oracle_check(ops, lines, outcome):
    """the property-level verdict on the implementation's own answers; -> None or a detail dict"""
    ref = Ref()
    for i, op in enumerate(ops):
        exp = ref.apply(op)
        if i >= len(lines):
            return {"op_index": i, "op": line_of(op)[:300], "expected": show(exp) if exp else None, "observed": None,
                    "outcome": outcome}
        if exp is not None and not match_line(exp, lines[i]):
            return {"op_index": i, "op": line_of(op)[:300], "expected": show(exp)[:600], "observed": lines[i][:600],
                    "outcome": outcome}
    if outcome != "ok":
        return {"op_index": len(ops), "op": None, "expected": "clean exit", "observed": None, "outcome": outcome}
    return None


def model_compare(ops, lines, outcome, margs):
    """extracted model vs implementation, line by line; -> None or a detail dict"""
    ml = vlib.run_model("c10", "\n".join(line_of(o) for o in ops) + "\n", args=margs)
    for i, m in enumerate(ml):
        if m == "FAULT":
            if i == len(lines) and (outcome.startswith("asan") or outcome.startswith("signal")):
                return None
            return {"line": i, "model": "FAULT (memory error predicted)", "impl": lines[i] if i < len(lines) else outcome,
                    "op": line_of(ops[i])[:200]}
        if m == "reopenfail":
            if i < len(lines) and lines[i].startswith("reopenfail"):
                return None
            return {"line": i, "model": m, "impl": lines[i] if i < len(lines) else outcome}
        if i >= len(lines):
            return {"line": i, "model": m, "impl": None, "outcome": outcome, "op": line_of(ops[i])[:200]}
        if not match_line([v for v in split_line(m)], lines[i]):
            return {"line": i, "model": m[:400], "impl": lines[i][:400], "op": line_of(ops[i])[:200]}
    if len(lines) != len(ml) or outcome != "ok":
        return {"line": len(ml), "model": None, "impl": lines[len(ml)] if len(ml) < len(lines) else None, "outcome": outcome}
    return None


# ------------------------------------------------------------------ known-defect triggers (what the generator avoids)
def triggers(ops):
    """which known-defect triggers a history contains.  'per-slack-cached' = cg_poly_elements_read while the connectivity
    node is cached AND larger than the elements need; which path a variable-size write takes (in place / in memory) is
    tracked from sizes alone -- this only steers the generator and the shrinker, never a verdict."""
    ref, cached, dim, out = Ref(), False, 0, set()

    def total():
        return sum(len(x) for x in ref.sec["elems"] if x is not None)
    for op in ops:
        k, sec = op[0], ref.sec
        if sec is not None and not is_fixed(sec["type"]):
            if k in ("ppw", "pgw"):
                s, e, new = (op[1], op[2], op[3]) if k == "ppw" else (op[2], op[3], op[4])
                f, l = sec["first"], ref.last()
                inplace = False
                if s <= e and f <= s and e <= l and not cached:
                    ssz = sum(len(x) for x in sec["elems"][s - f:e - f + 1])
                    m = sum(len(x) for x in new)
                    inplace = ssz == m or total() + m - ssz <= dim
                ref.apply(op)
                if s <= e and not inplace:
                    cached, dim = True, total()
                continue
            if k == "ppr" and sec["dt"] == 4 and op[1] <= op[2] and sec["first"] <= op[1] and op[2] <= ref.last():
                cached = True
            if k == "per" and cached and dim > total():
                out.add("per-slack-cached")
        if k == "reopen":
            cached = False
        ref.apply(op)
        if k in ("psecw", "secpw", "secgw") and ref.sec is not None and not is_fixed(ref.sec["type"]):
            cached = False
            dim = op[5] if k == "secgw" else total()
    return out


PROBES = [
    # (finding key, name, ops) -- defects still present in /repo; the repaired ones are regression histories in corpus/C10
    ("poly-read-fails-reserved-slack-cached",
     "cg_poly_elements_read on an NGON_n section with space reserved by cg_section_general_write, once the node is cached",
     [("secgw", 22, 4, 1, 2, 14), ("ppr", 1, 2, 0), ("per", 0), ("reopen",), ("per", 0)]),
    ("poly-read-fails-reserved-slack-cached",
     "cg_poly_elements_read on a MIXED section after an in-place shrink, once the node is cached",
     [("secgw", 20, 4, 1, 2, 9), ("ppw", 1, 2, [[5, 1, 2, 3], [7, 4, 5, 6, 7]]), ("ppw", 2, 2, [[5, 8, 9, 10]]), ("per", 0),
      ("ppr", 1, 1, 0), ("per", 0)]),
]
KEY_TRIGGER = {"poly-read-fails-reserved-slack-cached": "per-slack-cached"}


# ------------------------------------------------------------------ generator
FIXED_TYPES = [5, 7, 10, 17, 3, 12, 14, 2, 6, 21]
MIX_SUB = [2, 3, 5, 7, 10, 12, 14, 17]


def gen_elem(rng, t):
    if is_fixed(t):
        return [rng.randint(1, 999) for _ in range(NPE[t])]
    if t == MIXED:
        et = rng.choice(MIX_SUB)
        return [et] + [rng.randint(1, 999) for _ in range(NPE[et])]
    if t == NGON:
        return [rng.randint(1, 999) for _ in range(rng.randint(3, 6))]
    return [rng.choice([1, -1]) * rng.randint(1, 99) for _ in range(rng.randint(4, 6))]


def pick_range(rng, f, l, maxn, pos=None):
    """a range in one of the six relative positions to the stored range f..l"""
    pos = pos or rng.choice(["before", "front", "inside", "back", "after", "cover"])
    n = rng.randint(1, maxn)
    if pos == "before":
        gap = rng.choice([0, 0, 1, 2, 3])
        e = f - 1 - gap
        s = e - n + 1
    elif pos == "front":
        e = rng.randint(f, l)
        s = f - rng.randint(1, maxn)
    elif pos == "inside":
        s = rng.randint(f, l)
        e = rng.randint(s, min(l, s + maxn - 1))
    elif pos == "back":
        s = rng.randint(f, l)
        e = l + rng.randint(1, maxn)
    elif pos == "after":
        gap = rng.choice([0, 0, 1, 2, 3])
        s = l + 1 + gap
        e = s + n - 1
    else:
        s = f - rng.choice([0, 0, 1, 2])
        e = l + rng.choice([0, 0, 1, 2])
    if s < 1:
        s, e, pos = f, min(l, f + n - 1), "inside"
    return s, e, pos


def gen_history(rng, avoid, big=False, directed=None):
    """one history of one section; returns (ops, features).
    directed = "permute": poly section, in-place replacements whose element sizes are a permutation of the stored ones
               (same total size, different boundaries), preferably right after a reopen (connectivity not cached);
    directed = "parcache": fixed-size section stored as I4 with parent data; a partial read WITH parent data, then a
               partial parent write, then an extension (the stale-cache hazard of the parent arrays);
    directed = "resize": poly section, connectivity not cached (right after a reopen), general / partial writes on an inner
               range that is followed by real elements and whose total size changes (a shrink always fits the file; a
               growth fits when an earlier shrink or a generous ElementDataSize left room): the relocate-the-tail path."""
    maxn = 12 if big else 5
    kind = rng.choice(["fixed", "fixed", "mixed", "ngon", "nface"])
    if directed in ("permute", "resize"):
        kind = rng.choice(["mixed", "ngon", "nface"])
    elif directed == "parcache":
        kind = "fixed"
    t = rng.choice(FIXED_TYPES) if kind == "fixed" else {"mixed": MIXED, "ngon": NGON, "nface": NFACE}[kind]
    poly = kind != "fixed"
    first = rng.randint(8, 30)
    n0 = rng.randint(1, 3 * maxn if big else 8)
    ops, feat = [], set([kind])
    ref = Ref()
    cached = [False]

    def emit(op):
        ops.append(op)
        ref.apply(op)

    how = rng.choice(["full", "full", "partial", "general4", "general8"])
    if directed == "parcache":
        how = rng.choice(["general4", "general4", "general8"])
    if directed == "resize":
        n0 = max(n0, 4)
        how = rng.choice(["full", "full", "general4", "general8"])
    if directed == "permute":
        n0 = max(n0, 3)
        how = "full"           # real elements of different sizes from the start (placeholders all have one size)
    if how == "full":
        elems = [gen_elem(rng, t) for _ in range(n0)]
        emit(("psecw" if poly else "secw", t, first, first + n0 - 1, elems))
    else:
        if how == "partial":
            emit(("secpw", t, first, first + n0 - 1))
        else:
            dt = 4 if how == "general4" else 8
            eds = 2 * n0 + (rng.choice([0, 0, 3, 10]) if poly else 0)
            emit(("secgw", t, dt, first, first + n0 - 1, eds))
            feat.add("stored-i%d" % dt)
        if not poly:      # a fixed-size section created without data is unreadable on ADF until something is written
            emit(("epw", first, first + n0 - 1, [gen_elem(rng, t) for _ in range(n0)]))
    stored4 = how == "general4"
    with_parent = rng.random() < 0.55 or directed == "parcache"
    if with_parent and (rng.random() < 0.7 or directed == "parcache"):
        emit(("pdw", [[rng.randint(0, 9999) for _ in range(4)] for _ in range(ref.n())]))
        feat.add("parent")

    def reads():
        f, l = ref.sec["first"], ref.last()
        r = []
        if rng.random() < 0.5:
            r.append(("info",))
        wantp = 1 if rng.random() < 0.6 else 0
        if rng.random() < 0.5:
            if poly:
                if not ("per-slack-cached" in avoid and "per-slack-cached" in triggers(ops + r + [("per", wantp)])):
                    r.append(("per", wantp))
            else:
                r.append(("er", wantp))
        for _ in range(rng.randint(0, 3)):
            a = rng.randint(f, l)
            b = rng.randint(a, l)
            if rng.random() < 0.08:        # sometimes an invalid range: must be refused
                a, b = rng.choice([(f - 1, l), (f, l + 1), (b + 1, a - 1) if b + 1 > a - 1 else (l, f - 1), (l + 1, l + 2)])
            c = rng.random()
            mt = rng.choice([4, 8])
            if c < 0.3:
                r.append(("ppr" if poly else "epr", a, b, wantp))
                if stored4:
                    cached[0] = True
            elif c < 0.55:
                r.append(("pgr" if poly else "egr", mt, a, b))
            elif c < 0.7:
                r.append(("psize", a, b))
            elif c < 0.85:
                r.append(("pegr", mt, a, b))
            else:
                r.append(("pfgr", mt, a, b))
        for x in r:
            emit(x)

    def permuted(old):
        """new elements whose sizes are a non-identical permutation of the old sizes, if there is one"""
        sizes = [len(o) for o in old]
        if len(set(sizes)) < 2:
            return None
        for _ in range(20):
            perm = sizes[:]
            rng.shuffle(perm)
            if perm != sizes:
                break
        else:
            return None
        out = []
        for n_ in perm:
            if t == MIXED:
                cands = [et for et in MIX_SUB if NPE[et] + 1 == n_]
                if not cands:
                    return None
                out.append([rng.choice(cands)] + [rng.randint(1, 999) for _ in range(n_ - 1)])
            elif t == NGON:
                out.append([rng.randint(1, 999) for _ in range(n_)])
            else:
                out.append([rng.choice([1, -1]) * rng.randint(1, 99) for _ in range(n_)])
        return out

    reads()
    script = []
    if directed == "permute":
        script = ["reopen", "perm", "read", "perm", "reopen", "perm"]
    elif directed == "resize":
        script = ["reopen", "resize", "read", "reopen", "resize", "resize", "read", "reopen", "resize"]
    elif directed == "parcache":
        script = ["readpar", "pdpw", "readpar", "extend", "read", "pdpw", "extend"]
    for step in script:
        f, l = ref.sec["first"], ref.last()
        if step == "reopen":
            emit(("reopen",)); cached[0] = False; feat.add("reopen")
        elif step == "read":
            reads()
        elif step == "perm":
            for _ in range(6):
                s_ = rng.randint(f, l); e_ = rng.randint(s_, min(l, s_ + maxn - 1))
                old = ref.sec["elems"][s_ - f:e_ - f + 1]
                new = permuted(old) if all(o is not None for o in old) else None
                if new:
                    mt = rng.choice([4, 8, 8])
                    emit(("pgw", mt, s_, e_, new) if rng.random() < 0.5 else ("ppw", s_, e_, new))
                    feat.add("inside"); feat.add("permuted-sizes")
                    break
            reads()
        elif step == "resize":
            if l - f < 1:
                continue
            for _ in range(8):
                s_ = rng.randint(f, l - 1); e_ = rng.randint(s_, min(l - 1, s_ + maxn - 1))
                old = ref.sec["elems"][s_ - f:e_ - f + 1]
                new = [gen_elem(rng, t) for _ in range(e_ - s_ + 1)]
                if any(o is None for o in old) or sum(len(o) for o in old) != sum(len(x) for x in new):
                    mt = rng.choice([4, 4, 8])
                    emit(("pgw", mt, s_, e_, new) if rng.random() < 0.75 else ("ppw", s_, e_, new))
                    feat.add("inside"); feat.add("resized-with-tail")
                    break
            a = rng.randint(f, l); b = rng.randint(a, l)
            emit(("pgr", rng.choice([4, 8]), a, b))
        elif step == "readpar":
            a = rng.randint(f, l); b = rng.randint(a, l)
            emit(("epr", a, b, 1))
            if stored4:
                cached[0] = True
        elif step == "pdpw":
            a = rng.randint(f, l); b = rng.randint(a, l)
            emit(("pdpw", a, b, [[rng.randint(0, 9999) for _ in range(4)] for _ in range(b - a + 1)]))
            feat.add("parent")
            a = rng.randint(f, l); b = rng.randint(a, l)
            emit(("epr", a, b, 1))
        elif step == "extend":
            s_, e_, pos = pick_range(rng, f, l, maxn, rng.choice(["back", "after", "front", "before"]))
            new = [gen_elem(rng, t) for _ in range(e_ - s_ + 1)]
            emit(("egw", rng.choice([4, 8]), s_, e_, new) if rng.random() < 0.5 else ("epw", s_, e_, new))
            feat.add(pos); feat.add("parent-resized")
            f, l = ref.sec["first"], ref.last()
            emit(("epr", f, l, 1))
    for _ in range(rng.randint(2, 9 if big else 6)):
        f, l = ref.sec["first"], ref.last()
        c = rng.random()
        if c < 0.62:
            s, e, pos = pick_range(rng, f, l, maxn)
            extends = s < f or e > l
            if ref.n() + (e - s + 1) > (400 if big else 60):
                s, e, pos = pick_range(rng, f, l, maxn, "inside")
                extends = False
            new = [gen_elem(rng, t) for _ in range(e - s + 1)]
            if poly and pos == "inside" and rng.random() < 0.4:   # same total size: the in-place path
                old = ref.sec["elems"][s - f:e - f + 1]
                if all(o is not None for o in old):
                    pn = permuted(old) if rng.random() < 0.5 else None
                    if pn:
                        new = pn; feat.add("permuted-sizes")
                    elif t != MIXED:
                        new = [[rng.randint(1, 999) for _ in o] for o in old]
            mt = rng.choice([4, 8, 8])
            general = rng.random() < 0.5
            if poly:
                emit(("pgw", mt, s, e, new) if general else ("ppw", s, e, new))
                cached[0] = True
            else:
                emit(("egw", mt, s, e, new) if general else ("epw", s, e, new))
                if extends:
                    cached[0] = True
            feat.add(pos)
            if extends and ref.sec["par"] is not None:
                feat.add("parent-resized")
        elif c < 0.8:
            if rng.random() < 0.4:
                emit(("pdw", [[rng.randint(0, 9999) for _ in range(4)] for _ in range(ref.n())]))
            else:
                a = rng.randint(f, l)
                b = rng.randint(a, l)
                emit(("pdpw", a, b, [[rng.randint(0, 9999) for _ in range(4)] for _ in range(b - a + 1)]))
            feat.add("parent")
        else:
            emit(("reopen",))
            cached[0] = False
            feat.add("reopen")
        reads()
    emit(("reopen",))
    cached[0] = False
    feat.add("reopen")
    emit(("info",))
    if not (poly and "per-slack-cached" in avoid and "per-slack-cached" in triggers(ops + [("per", 1)])):
        emit(("per" if poly else "er", 1))
    f, l = ref.sec["first"], ref.last()
    a = rng.randint(f, l)
    emit(("ppr" if poly else "epr", a, rng.randint(a, l), 1))
    return ops, feat


# ------------------------------------------------------------------ the check
CHECKER = "make -C coq ElemSpliceProofs.vo (coqc 8.16.1 kernel) ; coqc Properties_C10.v (Print Assumptions)"


def history_fails(exe, ops, path, backend, avoid):
    if triggers(ops) & avoid:
        return False
    lines, outcome = run_impl(exe, ops, path, backend)
    return oracle_check(ops, lines, outcome) is not None


def run(ck):
    big = ck.tier == "thorough"
    vlib.build_impl()
    exe = vlib.build_harness("c10_elem_h", ["c10_elem_h.c"])
    res = vlib.coq_check_properties("C10")
    broken = ck.proof_result(res, CHECKER)
    # variable-size sections: Properties_C10b.v (checks/C10b.py, notes/C10b.md), same model, same verdict logic
    from checks import C10b
    broken = broken + C10b.run_extra(ck)
    forb = vlib.coq_forbidden_scan("C10")
    ck.extra["forbidden_tokens"] = forb
    vlib.build_modelrun("c10")
    ck.cov["trusted_base"] = [
        "Coq 8.16.1 kernel + vm_compute (no native_compute)",
        "extraction: ExtrOcamlBasic only; OCaml 4.13.1; ocaml/zutil.ml, ocaml/eng_c10.ml (parsing/printing)",
        "harness/c10_elem_h.c (exactly sized malloc'ed user buffers, ASan/UBSan build of /repo's working tree)",
        "hand transcription of the element-section code of cgnslib.c into coq/ElemSplice.v, validated line by line by the "
        "correspondence of this run on ADF and HDF5",
        "this generator, the Python reference Ref (oracle) and the line matcher",
    ]
    ck.assumptions = ["64-bit build (cgsize_t = I8)", "current file version (no pre-4.0 layout conversion, no ADF2 ParentData)",
                      "connectivity / parent values fit the stored integer width", "malloc never fails",
                      "one section per zone; nbndry = 0; input offsets start at 0",
                      "a fixed-size section created without data is written before it is read (ADF refuses to read a node "
                      "without data)"]
    ck.cov["rule"] = ("seeded histories of one Elements_t section (fixed-size types TRI_3 QUAD_4 TETRA_4 HEXA_8 BAR_2 PYRA_5 PENTA_6 "
                      "NODE TRI_6 PYRA_13, MIXED, NGON_n, NFACE_n): creation by cg_section_write / cg_poly_section_write / "
                      "cg_section_partial_write / cg_section_general_write(I4|I8)+initialize, then partial/general writes whose "
                      "range is drawn from the six positions relative to the stored range (before with/without gap, overlapping "
                      "the front, inside, overlapping the back, after with/without gap, covering), parent data full/partial, "
                      "reopen, and after every step a random selection of all read entry points (incl. invalid ranges); each "
                      "history runs on ADF and on HDF5 and is compared line by line with the extracted model and with the Python "
                      "reference. non-trivial = the history contains a range-extending or size-changing write followed by a "
                      "reopen; distinct by SHA1 of script+backend")
    if forb:
        ck.violation({"broken_obligation": "forbidden tokens in the Coq development", "hits": forb}, nofail=True)
    work = ck.work
    corr_broken = []
    dist = {"kinds": {}, "positions": {}, "ops": {}, "backends": {"adf": 0, "hdf5": 0}, "note": "counts of histories per kind / feature and of ops"}

    # ---- cg_npe table
    lines, outcome = run_impl(exe, [("npe",)], os.path.join(work, "npe.cgns"), "adf")
    ml = vlib.run_model("c10", "npe\n")
    ck.case(None, sample={"level": "table", "cg_npe": lines[:1]})
    if outcome != "ok" or lines != ml or lines[0].split()[1:] != [str(x) for x in NPE]:
        corr_broken.append({"what": "cg_npe table", "model": ml, "impl": lines})

    # ---- probes of the defects still open: does the defect still show on the implementation?
    avoid, probe_report = set(), []
    rvariant = "fixed"
    for key, name, ops in PROBES:
        for backend in ("adf", "hdf5"):
            lines, outcome = run_impl(exe, ops, os.path.join(work, "probe.cgns"), backend)
            d = oracle_check(ops, lines, outcome)
            ck.case(hashlib.sha1((name + backend).encode()).hexdigest(), sample={"level": "probe", "name": name, "backend": backend,
                                                                                 "script": [line_of(o)[:120] for o in ops]})
            probe_report.append({"key": key, "name": name, "backend": backend, "property_fails": d is not None})
            if d is not None:
                avoid.add(KEY_TRIGGER[key])
                rvariant = "current"
                ck.finding(key, {"level": "api", "backend": backend, "probe": name, "script": [line_of(o) for o in ops],
                                 "oracle": "python list-of-elements reference (splice / slice / per-element parent rows)",
                                 "detail": d, "replay_hint": "printf '%s\\n' <script lines> | .build/h/c10_elem_h /tmp/x.cgns " + backend})
    margs = ["default", rvariant]        # parent-data variant: the model's own switch; read variant: what the probes show
    ck.extra["known_defect_probes"] = probe_report
    ck.extra["poly_read_variant_validated"] = rvariant
    mv = vlib.run_model("c10", "variant\n")
    ck.extra["model_switches"] = mv[0] if mv else "?"
    if mv and mv[0].split()[2:] != [rvariant]:
        print("NOTE: ElemSplice.impl_rvariant says '%s' but cg_poly_elements_read behaves like the '%s' variant "
              "(flip the one-line switch in coq/ElemSplice.v)" % (mv[0].split()[2], rvariant), flush=True)
    # the model must reproduce the probes exactly (the defective answers included)
    for key, name, ops in PROBES:
        for backend in ("adf", "hdf5"):
            lines, outcome = run_impl(exe, ops, os.path.join(work, "probe.cgns"), backend)
            d = model_compare(ops, lines, outcome, margs)
            ck.cov["traces_validated_against_impl"] += 1
            if d is not None:
                corr_broken.append({"level": "probe", "name": name, "backend": backend, "first_divergence": d})

    # ---- corpus (regression histories of the repaired defects: a failure is a violation)
    cdir = os.path.join(vlib.ROOT, "corpus", "C10")
    for fname in sorted(os.listdir(cdir)) if os.path.isdir(cdir) else []:
        if not fname.endswith(".hist") or ck.violations:
            continue
        ops = [parse_line(l) for l in open(os.path.join(cdir, fname)).read().split("\n") if l.strip() and not l.startswith("#")]
        for backend in ("adf", "hdf5"):
            lines, outcome = run_impl(exe, ops, os.path.join(work, "corpus.cgns"), backend)
            ck.case(hashlib.sha1((fname + backend).encode()).hexdigest(), sample={"level": "corpus", "file": fname, "backend": backend})
            ck.cov["traces_validated_against_impl"] += 1
            d = oracle_check(ops, lines, outcome)
            if d is not None:
                ck.violation({"level": "api", "backend": backend, "corpus": fname, "script": [line_of(o) for o in ops],
                              "oracle": "python list-of-elements reference", "detail": d,
                              "replay_hint": "printf '%s\\n' <script lines> | .build/h/c10_elem_h /tmp/x.cgns " + backend})
                break
            m = model_compare(ops, lines, outcome, margs)
            if m is not None:
                corr_broken.append({"level": "corpus", "file": fname, "backend": backend, "first_divergence": m})

    # ---- seeded histories
    nh = 700 if big else 110
    found = bool(ck.violations)
    for i in range(0 if found else nh):
        ops, feat = gen_history(ck.rng, avoid, big=big and i % 4 == 0,
                                directed={7: "permute", 3: "parcache", 5: "resize"}.get(i % 10))
        for k_ in ("permuted-sizes", "parent-resized"):
            if k_ in feat:
                dist.setdefault("directed", {}).setdefault(k_, 0)
                dist["directed"][k_] += 1
        for backend in ("adf", "hdf5"):
            path = os.path.join(work, "h_%s.cgns" % backend)
            lines, outcome = run_impl(exe, ops, path, backend)
            dist["backends"][backend] += 1
            nontriv = ("reopen" in feat) and bool(feat & {"before", "front", "back", "after", "cover"})
            ck.case(hashlib.sha1(("\n".join(line_of(o) for o in ops) + backend).encode()).hexdigest() if nontriv else None,
                    sample={"level": "api", "backend": backend, "script": [line_of(o)[:100] for o in ops[:8]] + ["..."]})
            ck.cov["traces_validated_against_impl"] += 1
            d = oracle_check(ops, lines, outcome)
            if d is not None:
                small = vlib.ddmin(ops, lambda s, path=path, backend=backend: history_fails(exe, s, path, backend, avoid), max_tests=250)
                l2, o2 = run_impl(exe, small, path, backend)
                d2 = oracle_check(small, l2, o2) or d
                ck.violation({"level": "api", "backend": backend, "script": [line_of(o) for o in small],
                              "oracle": "python list-of-elements reference (splice / slice / rebased offsets / parent rows)",
                              "detail": d2, "replay_hint": "printf '%s\\n' <script lines> | .build/h/c10_elem_h /tmp/x.cgns " + backend})
                found = True
                break
            m = model_compare(ops, lines, outcome, margs)
            if m is not None and len(corr_broken) < 6:
                corr_broken.append({"level": "api", "backend": backend, "script": [line_of(o) for o in ops], "first_divergence": m})
        for f in feat:
            (dist["kinds"] if f in ("fixed", "mixed", "ngon", "nface") else dist["positions"]).setdefault(f, 0)
            (dist["kinds"] if f in ("fixed", "mixed", "ngon", "nface") else dist["positions"])[f] += 1
        for o in ops:
            dist["ops"][o[0]] = dist["ops"].get(o[0], 0) + 1
        if found:
            break

    # ---- something broke without a failing input so far: widen the search (DESIGN.md 1.3)
    if (corr_broken or broken) and not ck.violations:
        for i in range(nh * 4):
            ops, feat = gen_history(ck.rng, avoid, big=(i % 3 == 0))
            backend = ("adf", "hdf5")[i % 2]
            path = os.path.join(work, "w_%s.cgns" % backend)
            lines, outcome = run_impl(exe, ops, path, backend)
            ck.cov["evaluations"] += 1
            d = oracle_check(ops, lines, outcome)
            if d is not None:
                small = vlib.ddmin(ops, lambda s: history_fails(exe, s, path, backend, avoid), max_tests=250)
                l2, o2 = run_impl(exe, small, path, backend)
                ck.violation({"level": "api", "backend": backend, "script": [line_of(o) for o in small],
                              "detail": oracle_check(small, l2, o2) or d, "found_by": "widened search"})
                found = True
                break
        if not found:
            ck.violation({"broken_obligations": broken, "broken_correspondence": corr_broken[:2],
                          "note": "model and implementation differ (or an obligation no longer checks) but every history "
                                  "explored still satisfies the property's oracle"}, nofail=True)
    ck.extra["input_distribution"] = dist
    ck.extra["avoided_triggers"] = sorted(avoid)


def parse_line(l):
    """inverse of line_of (corpus files and replays store histories as script lines)"""
    t = l.split()
    k, a = t[0], [int(x) for x in t[1:]]

    def vec_at(i):
        n = a[i]
        return a[i + 1:i + 1 + n], i + 1 + n

    def chunk(v, sizes):
        out, p = [], 0
        for z in sizes:
            out.append(v[p:p + z]); p += z
        return out

    def by_offsets(v, o):
        return [v[o[i] - o[0]:o[i + 1] - o[0]] for i in range(len(o) - 1)]

    def rows(v):
        n = len(v) // 4
        return [[v[j * n + i] for j in range(4)] for i in range(n)]
    if k == "secw":
        v, _ = vec_at(3)
        n = NPE[a[0]] if is_fixed(a[0]) else 1
        return ("secw", a[0], a[1], a[2], chunk(v, [n] * (len(v) // max(n, 1))))
    if k == "psecw":
        v, i = vec_at(3); o, _ = vec_at(i)
        return ("psecw", a[0], a[1], a[2], by_offsets(v, o))
    if k in ("epw", "egw"):
        b = 2 if k == "epw" else 3
        v, _ = vec_at(b)
        cnt = a[b - 1] - a[b - 2] + 1
        n = len(v) // cnt if cnt > 0 else 1
        return tuple([k] + a[:b] + [chunk(v, [n] * max(cnt, 0))])
    if k in ("ppw", "pgw"):
        b = 2 if k == "ppw" else 3
        v, i = vec_at(b); o, _ = vec_at(i)
        return tuple([k] + a[:b] + [by_offsets(v, o)])
    if k == "pdw":
        v, _ = vec_at(0)
        return ("pdw", rows(v))
    if k == "pdpw":
        v, _ = vec_at(2)
        return ("pdpw", a[0], a[1], rows(v))
    return tuple([k] + a)


def replay(ck, path):
    r = json.load(open(path))
    vlib.build_impl()
    exe = vlib.build_harness("c10_elem_h", ["c10_elem_h.c"])
    if "script" not in r:
        print("replay names a broken obligation/correspondence, no input to run:", json.dumps(r)[:600])
        return 1
    script = "\n".join(r["script"]) + "\n"
    p = os.path.join(ck.work, "replay.cgns")
    lines, outcome = vlib.run_impl(exe, script, args=[p, r.get("backend", "adf")])
    d = r.get("detail") or {}
    i = d.get("op_index")
    obs = lines[i] if i is not None and i < len(lines) else None
    fails = outcome != "ok" or (i is not None and obs == d.get("observed"))
    print("replay: outcome=%s ; line %s observed %r ; recorded expectation %r -> property %s" % (
        outcome, i, obs, d.get("expected"), "FAILS" if fails else "holds"))
    return 1 if fails else 0
