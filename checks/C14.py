"""C14 -- an I/O failure is always reported; success means the data is in the file.

Proof side : coq/Properties_C14.v (AdfIO.v: the OS as an oracle of responses; ADFI_write/ADFI_read retry loops,
             ADFI_fseek_file, ADFI_write_file/ADFI_read_file block buffering, ADFI_flush_buffers, ADFI_close_file;
             C14_retry and C14_success_means_on_disk for ALL response streams and histories; _refuted witnesses).
Tie C      : (a) harness/c14_adfi.c drives the real ADFI_* functions of the freshly built library with the script the
             extracted model runs, under harness/interpose.c: statuses, bytes read, final file, and the SYSTEM-CALL
             SEQUENCE (name, offset, count, result -- in particular the arguments of the write retried after a
             short count) must coincide, fault-free and with a fault injected at sampled positions;
Oracle     : (b) independent of the model: scenario programs (cgio-level and MLL-level write and modify sessions, ADF
             and HDF5) are run once to count the system calls, then re-run with a fault (EIO, ENOSPC, short count,
             EINTR) injected at position k: every API status is recorded; the process must not crash or trip a
             sanitizer; if every call including the close reported success, reopening in a clean environment must
             give exactly the scenario's ideal content (computed from the script, not by the library, for the
             cgio-level scenarios); short counts and EINTR must be transparent; the file left behind by a reported
             failure must not crash the next open.
"""
import concurrent.futures, hashlib, json, os, shutil, struct
import vlib
from checks import C15 as ip            # interposer helpers (build_interposer, run_ip, read_trace, parse_dumps, ...)

WORKERS = 8
CHECKER = "make -C coq Properties_C14.vo deps (coqc 8.16.1) ; coqc Properties_C14.v (Print Assumptions)"
M64 = (1 << 64) - 1


def fnv(b):
    h = 0xcbf29ce484222325
    for x in b:
        h = ((h ^ x) * 0x100000001b3) & M64
    return h


# ----------------------------------------------------------------------------- ADFI level (tie C)
def gen_adfi_script(rng):
    n0 = rng.choice([0, 0, 100, 4096, 5000, 8192, 12288, 13000])
    ops = []
    for _ in range(rng.randint(4, 14)):
        r = rng.random()
        blk = rng.choice([0, 0, 1, 1, 2, 3, rng.randint(0, 5)])
        if r < 0.45:
            off = rng.choice([0, 1, 100, 2000, 4000, 4090, rng.randint(0, 4095)])
            ln = rng.choice([1, 4, 32, 102, 500, rng.randint(1, 4096 - off)])
            ln = min(ln, 4096 - off)
            ops.append("w %d %d %d %d" % (blk, off, max(1, ln), rng.randint(1, 999)))
        elif r < 0.6:
            off = rng.choice([0, 4000, 4095, rng.randint(0, 4095)])
            ops.append("w %d %d %d %d" % (blk, off, rng.choice([4097, 5000, 9000, rng.randint(4097 - off, 10000)]), rng.randint(1, 999)))
        elif r < 0.8:
            off = rng.randint(0, 4095)
            ops.append("r %d %d %d" % (blk, off, rng.randint(1, 4096 - off)))
        elif r < 0.85:
            ops.append("r %d %d %d" % (blk, rng.randint(0, 4095), rng.randint(4097, 6000)))
        elif r < 0.95:
            ops.append("f")
        else:
            ops.append("y")
    ops.append("c")
    return n0, rng.randint(1, 999), ops


CORPUS_ADFI = [
    # the three witnesses of AdfIOProofs.v (read error swallowed is injected at position 1 with eio below)
    (4, 1, ["w 0 0 1 65", "c"]),
    (0, 1, ["w 0 0 1 1", "w 1 0 1 2", "c"]),
    (0, 1, ["w 1 0 1 1", "f", "w 0 4000 200 7", "w 1 200 1 9", "c"]),
]


def resp_stream(base_tr, faults):
    """interposer fault spec [(k, kind)] -> the model's response stream"""
    if not faults:
        return ""
    last = max(k for k, _ in faults)
    rs = ["ok"] * (last + 1)
    for k, kind in faults:
        c = base_tr[k] if k < len(base_tr) else None
        if kind == "eio":
            rs[k] = "err:5"
        elif kind == "enospc":
            rs[k] = "err:28"
        elif kind == "eintr":
            rs[k] = "eintr"
        elif kind == "short":
            rs[k] = "short:%d" % max(1, (c["a2"] // 2) if c else 1)
    return "resp " + " ".join(rs) + "\n"


def kinds_for(call):
    n = call["name"]
    if n in ("write", "pwrite"):
        return ["eio", "enospc", "eintr"] + (["short"] if call["a2"] >= 2 else [])
    if n in ("read", "pread"):
        return ["eintr"] + (["short"] if call["a2"] >= 2 and call["ret"] >= 2 else [])
    if n in ("lseek", "close", "fsync", "fdatasync"):
        return ["eio"]
    if n == "ftruncate":
        return ["eio", "enospc"]
    return []


def adfi_case(h, ipso, work, tag, n0, seed0, ops, faults, base_tr):
    d = os.path.join(work, tag)
    os.makedirs(d, exist_ok=True)
    f = os.path.join(d, "a.bin")
    trf = os.path.join(d, "tr")
    if os.path.exists(trf):
        os.unlink(trf)
    script = "\n".join(ops) + "\n"
    spec = ",".join("%d:%s" % x for x in faults) or None
    lines, oc, err = ip.run_ip(ipso, [h, f, str(n0), str(seed0)], d, cwd=d, trace=trf, fault=spec, stdin=script)
    tr = [c for c in ip.read_trace(trf) if c["f"] is not None]
    ml = vlib.run_model("c14", "init %d %d\n" % (n0, seed0) + resp_stream(base_tr, faults) + script)
    m_out = [l for l in ml if not l.startswith("L ")]
    m_log = [l.split()[1:] for l in ml if l.startswith("L ")]
    i_log = []
    for c in tr:
        if c["name"] in ("write", "read"):
            i_log.append([c["name"], str(c["a1"]), str(c["a2"]), str(c["ret"])])
        elif c["name"] == "lseek":
            i_log.append(["lseek", str(c["a1"]), "0", str(c["ret"])])
        else:
            i_log.append([c["name"], "0", "0", str(c["ret"])])
    shutil.rmtree(d, ignore_errors=True)
    return {"impl": lines, "model": m_out, "impl_log": i_log, "model_log": m_log, "outcome": oc, "trace": tr, "stderr": err[-300:]}


# ----------------------------------------------------------------------------- scenarios (oracle)
def gen_bytes(typ, n, seed):
    if typ == "I4":
        return b"".join(struct.pack("<i", (seed * 31 + i * 3) & 0x7fffffff) for i in range(n))
    if typ == "R8":
        return b"".join(struct.pack("<d", ((seed * 7 + i) % 1000) / 4.0) for i in range(n))
    return bytes(ord("a") + (seed + i * 5) % 26 for i in range(n))


def hx(s):
    return s.encode().hex() if s else "-"


class Tree:
    """the ideal content of a cgio-level scenario, computed from the script alone"""
    def __init__(self):
        self.nodes = {"/": {"children": {}}}

    def _get(self, path):
        cur = self.nodes["/"]
        if path == "/":
            return cur
        for p in path.strip("/").split("/"):
            cur = cur["children"][p]
        return cur

    def apply(self, line):
        t = line.split()
        if t[0] == "new":
            self._get(t[1])["children"][t[2]] = {"label": t[3], "type": t[4], "n": int(t[5]), "data": gen_bytes(t[4], int(t[5]), int(t[6])),
                                                "children": {}}
        elif t[0] == "wr":
            nd = self._get(t[1]); nd["type"], nd["n"], nd["data"] = t[2], int(t[3]), gen_bytes(t[2], int(t[3]), int(t[4]))
        elif t[0] == "del":
            par, name = t[1].rsplit("/", 1)
            del self._get(par or "/")["children"][name]
        elif t[0] == "setlabel":
            self._get(t[1])["label"] = t[2]
        elif t[0] == "link":
            self._get(t[1])["children"][t[2]] = {"link": (("" if t[3] == "-" else t[3]), t[4]), "children": {}}

    def dump(self):
        out = []

        def go(nd, path):
            for name in sorted(nd["children"], key=lambda s: s.encode()):
                c = nd["children"][name]
                p = path + "/" + name
                if "link" in c:
                    out.append("L %s %s %s" % (p, hx(c["link"][0]), hx(c["link"][1])))
                    continue
                out.append("N %s %s %s 1:%d %d %016x" % (p, hx(c["label"]), c["type"], c["n"], len(c["data"]), fnv(c["data"])))
                go(c, p)
        go(self.nodes["/"], "")
        return out


def gen_scenarios(rng, tier):
    """-> list of dict(name, level, backend, prep (script or None), script, ideal (lines or None))"""
    out = []

    def cgio_write(rng, fmt):
        ops = ["open w " + fmt]
        names = []
        for i in range(rng.randint(3, 6)):
            typ = rng.choice(["I4", "R8", "C1"])
            n = rng.choice([1, 7, 33, 200, 600, 1500, 2500])
            par = rng.choice(["/"] + names[:2])
            nm = "N%d" % i
            ops.append("new %s %s Lab%d_t %s %d %d" % (par, nm, i, typ, n, rng.randint(1, 999)))
            names.append((par if par != "/" else "") + "/" + nm)
        ops.append("wr %s I4 %d %d" % (names[0], rng.choice([3, 900]), rng.randint(1, 999)))
        ops.append("setlabel %s Relabel_t" % names[-1])
        ops.append("close")
        return ops, names

    def cgio_modify(rng, names):
        ops = ["open m adf"]      # the file type is detected; the word is ignored for modify
        ops.append("new / M0 Mod_t R8 %d %d" % (rng.choice([5, 700]), rng.randint(1, 999)))
        ops.append("wr %s R8 %d %d" % (names[0], rng.choice([2, 1200]), rng.randint(1, 999)))
        victim = [n for n in names if n.count("/") == 1 and not any(m.startswith(n + "/") for m in names)]
        if victim:
            ops.append("del " + victim[-1])
        ops.append("new / M1 Mod_t C1 %d %d" % (rng.randint(1, 80), rng.randint(1, 999)))
        ops.append("flush")
        ops.append("setlabel /M0 Final_t")
        ops.append("close")
        return ops

    def mll_write(rng, fmt):
        n = rng.choice([3, 5, 6])
        return ["cgopen w " + fmt, "base Base", "zone Zone1 %d" % n, "coord CoordinateX %d" % rng.randint(1, 99),
                "coord CoordinateY %d" % rng.randint(1, 99), "coord CoordinateZ %d" % rng.randint(1, 99), "sol Sol1",
                "field Density %d" % rng.randint(1, 99), "desc Info hello", "cgclose"], n

    def mll_modify(rng, n):
        return ["cgopen m adf", "zn %d" % n, "sol Sol2", "field Pressure %d" % rng.randint(1, 99), "cgdelsol Sol1",
                "desc Info2 world", "cgdeldesc Info", "cgclose"]

    # regression corpus: the witness of the defect repaired by /repo cdc1612 + 40a004d (ADF_Write_All_Data / Write_Block_Data /
    # Write_Data did not test the status of ADFI_write_data_chunk_table when rewritten data outgrow the node's single chunk:
    # EIO on lseek #127, inside the `wr` operation, was lost).  Every hard fault inside the `wr` operation is run in BOTH tiers.
    out.append({"name": "corpus-adf-chunk-table", "level": "cgio", "backend": "adf", "prep": None, "exhaustive_ops": ("wr ",),
                "script": ["open w adf", "new / N0 Lab0_t I4 200 133", "new /N0 N1 Lab1_t I4 200 46", "new / N2 Lab2_t C1 7 697",
                           "new / N3 Lab3_t R8 33 432", "new / N4 Lab4_t C1 200 436", "new /N0 N5 Lab5_t I4 7 988",
                           "wr /N0 I4 900 183", "setlabel /N0/N5 Relabel_t", "close"]})
    for fmt in ("adf", "hdf5"):
        w, names = cgio_write(rng, fmt)
        out.append({"name": "cgio-write-" + fmt, "level": "cgio", "backend": fmt, "prep": None, "script": w})
        out.append({"name": "cgio-modify-" + fmt, "level": "cgio", "backend": fmt, "prep": w, "script": cgio_modify(rng, names)})
        mw, n = mll_write(rng, fmt)
        # on HDF5 every hard fault inside the array writers is run in both tiers (witness of the ignored H5Dclose status)
        out.append({"name": "mll-write-" + fmt, "level": "mll", "backend": fmt, "prep": None, "script": mw,
                    "exhaustive_ops": ("coord ", "field ") if fmt == "hdf5" else ()})
        out.append({"name": "mll-modify-" + fmt, "level": "mll", "backend": fmt, "prep": mw, "script": mll_modify(rng, n)})
        # compaction after a modification (the known HDF5 finding lives here)
        comp = ["open m adf", "new / Big0 Big_t R8 2000 %d" % rng.randint(1, 99), "new / Big1 Big_t R8 2000 %d" % rng.randint(1, 99),
                "del /Big0", "compress"]
        out.append({"name": "cgio-compress-" + fmt, "level": "cgio", "backend": fmt, "prep": w, "script": comp})
    for s in out:
        if s["level"] == "cgio":
            t = Tree()
            for l in (s["prep"] or []) + s["script"]:
                t.apply(l)
            s["ideal"] = t.dump()
        else:
            s["ideal"] = None
    return out


def run_session(h, ipso, d, script, fault=None, trace=None):
    f = os.path.join(d, "f.cgns")
    lines, oc, err = ip.run_ip(ipso, [h, "run", f], d, cwd=d, trace=trace, fault=fault, stdin="\n".join(script) + "\n", timeout=120)
    st = [int(l.split()[1]) for l in lines if l.startswith("s ")]
    return st, oc, err, lines


def dump_clean(h, d):
    lines, oc = vlib.run_impl(h, "", args=["dump", os.path.join(d, "f.cgns")], cwd=d, timeout=60)
    dd = ip.parse_dumps(lines)
    st = dd.get("0", ("crash", "0", []))
    return st, oc


def op_of_position(trace_path, script):
    """fault index -> the script line during which that system call is made (from the harness's MARK lines)"""
    ops = [l for l in script if not l.startswith("zn ")]
    bounds = []
    for l in open(trace_path, errors="replace"):
        t = l.split()
        if len(t) >= 5 and t[2] == "mark":
            nums = [x for x in t[3:] if x.isdigit()]        # the path field of a mark line is empty
            bounds.append(int(nums[0]))
    def f(k):
        for i, b in enumerate(bounds):
            if k < b:
                return ops[i] if i < len(ops) else None
        return None
    return f


def fault_case(h, ipso, work, sc, base, faults, nops, ideal, opmap=None):
    tag = "_".join("%d%s" % x for x in faults)
    d = os.path.join(work, "f_" + tag)
    shutil.rmtree(d, ignore_errors=True)
    if base:
        shutil.copytree(base, d)
    else:
        os.makedirs(d)
    spec = ",".join("%d:%s" % x for x in faults)
    trf = os.path.join(d, "tr")
    st, oc, err, lines = run_session(h, ipso, d, sc["script"], fault=spec, trace=trf)
    injected = [c for c in ip.read_trace(trf) if c["inj"]]
    if os.path.exists(trf):
        os.unlink(trf)
    res = {"faults": faults, "statuses": st, "outcome": oc, "injected": [(c["name"], c["path"], c["inj"]) for c in injected],
           "fault_ops": [opmap(k) or "?" for k, kind in faults if kind in ("eio", "enospc")] if opmap else None,
           "problem": None, "stderr": err[-400:] if oc != "ok" else ""}
    all_ok = oc == "ok" and len(st) == nops and all(s == 0 for s in st)
    if oc != "ok":
        res["problem"] = "crash"
    else:
        dst, doc = dump_clean(h, d)
        res["reopen"] = dst[0]; res["reopen_outcome"] = doc
        if doc != "ok":
            res["problem"] = "crash-on-reopen"
        elif all_ok and not (dst[0].startswith("ok") and dst[2] == ideal):
            res["problem"] = "silent"
            res["diff"] = [l for l in ideal if l not in dst[2]][:3] + ["--- got:"] + [l for l in dst[2] if l not in ideal][:3]
        elif not all_ok and injected and all(k in ("short", "eintr") for _, k in faults):
            res["problem"] = "not-transparent"
        elif len(st) != nops:
            res["problem"] = "crash"
    shutil.rmtree(d, ignore_errors=True)
    return res


KNOWN_HDF5_COMPRESS = "hdf5-compress-enospc-crash-on-next-open"


KNOWN_HDF5_CLOSE = "hdf5-write-failure-crash-inside-libhdf5"
KNOWN_HDF5_SILENT = "hdf5-dataset-close-status-ignored-silent-data-loss"


def classify(sc, r, planned=()):
    """canonical finding key for a failed fault case, or None (= plain violation).  Both keys are narrow: HDF5 back end,
    a hard error injected into one of libhdf5's OWN system calls (pwrite/ftruncate/close/...), and a crash whose faulting frame is inside
    libhdf5 (H5*), either in this process or in the fresh process that reopens the file."""
    hard = [(n, k) for n, _, k in r["injected"] if k in ("eio", "enospc")]
    if not r["injected"]:                 # the trace was cut short by the crash: fall back to the planned positions
        hard = [(n, k) for n, k in planned if k in ("eio", "enospc")]
    inj_kinds = set(k for _, k in hard)
    inj_names = set(n for n, _ in hard)
    in_h5 = "@H5" in (r["outcome"] or "") or "libhdf5" in (r["stderr"] or "") or "@H5" in (r.get("reopen_outcome") or "")
    if sc["backend"] == "hdf5" and hard and inj_names <= {"pwrite", "ftruncate", "close", "fsync", "lseek"} and \
            r["problem"] in ("crash-on-reopen", "crash") and in_h5:
        return KNOWN_HDF5_COMPRESS if sc["name"].startswith("cgio-compress") else KNOWN_HDF5_CLOSE
    # ADFH ignores the status of H5Dclose (where libhdf5 flushes its raw-data buffer): HDF5 back end, a hard error injected
    # into a pwrite, every API status 0, content differs
    if sc["backend"] == "hdf5" and hard and "pwrite" in inj_names and inj_names <= {"pwrite", "lseek", "ftruncate", "close", "fsync"} and \
            r["problem"] == "silent":
        return KNOWN_HDF5_SILENT
    return None


def pregen():
    """tables regenerated from /repo before the Coq build: the status table of the second layer (checks/C14b.py)"""
    from checks import C14b
    C14b.pregen()


def run(ck):
    big = ck.tier == "thorough"
    vlib.build_impl()
    ha = vlib.build_harness("c14_adfi", ["c14_adfi.c"])
    hs = vlib.build_harness("c14_h", ["c14_h.c"])
    ipso = ip.build_interposer()
    cres = vlib.coq_check_properties("C14")
    broken = ck.proof_result(cres, CHECKER)
    forb = [x for x in vlib.coq_forbidden_scan() if x.split(":")[0] in ("AdfIO.v", "AdfIOProofs.v", "Properties_C14.v", "Extract_c14.v")]
    ck.extra["forbidden_tokens"] = forb
    if forb:
        ck.violation({"broken_obligation": "forbidden tokens in the Coq development", "hits": forb}, nofail=True)
    ck.cov["trusted_base"] = [
        "Coq 8.16.1 kernel + vm_compute", "extraction (ExtrOcamlBasic), ocaml/eng_c14.ml", "harness/interpose.c (LD_PRELOAD fault injection and trace)",
        "harness/c14_adfi.c, harness/c14_h.c, harness/c15_dump.c, this driver (scenario generator, ideal-tree oracle)",
        "hand transcription of ADFI_write/read/fseek/write_file/read_file/flush_buffers/close_file, validated by the call-by-call correspondence"]
    ck.assumptions = ["one ADF file, no links, in_use = 1 in the model (multi-file link closes are tested only)", "write() never returns 0 for a non-empty request",
                      "hard read errors are outside the property (C14_read_error_swallowed_refuted documents what happens)",
                      "EINTR is injected into read/write family calls only (lseek/close/fsync are not restartable on Linux)",
                      "HDF5: property-level oracle only (libhdf5 does its own I/O)", "malloc never fails"]
    ck.cov["rule"] = ("ADFI level: seeded op scripts (small/large/cross-block writes, reads, flushes) run fault-free and with one fault at sampled "
                      "system-call positions, model vs implementation call by call; scenario level: cgio/MLL write, modify and compress sessions on "
                      "ADF and HDF5, one fault (EIO, ENOSPC, short, EINTR as applicable to the call) at each sampled position k "
                      "(all positions in thorough, plus sampled pairs). non-trivial = the fault was actually injected; distinct by scenario/position/kind")
    vlib.build_modelrun("c14") if cres["ok"] else None
    corr_broken, fails, observations = [], [], []
    stats = {"adfi_scripts": 0, "adfi_fault_cases": 0, "syscalls_compared": 0, "short_write_retries_compared": 0,
             "scenario_cases": 0, "per_scenario": {}, "known_hits": {}}
    work = ck.work
    pool = concurrent.futures.ThreadPoolExecutor(max_workers=WORKERS)

    # ---------------- (a) ADFI-level correspondence
    if cres["ok"]:
        scripts = list(CORPUS_ADFI) + [gen_adfi_script(ck.rng) for _ in range(60 if big else 14)]
        for si, (n0, seed0, ops) in enumerate(scripts):
            base = adfi_case(ha, ipso, work, "a%d" % si, n0, seed0, ops, [], [])
            stats["adfi_scripts"] += 1
            ck.cov["traces_validated_against_impl"] += 1
            jobs = [(si, [])]
            nf = len(base["trace"])
            cand = [(k, kind) for k in range(nf) for kind in kinds_for(base["trace"][k]) + (["eio"] if base["trace"][k]["name"] == "read" else [])]
            ck.rng.shuffle(cand)
            # always include a short write when the script has one to offer
            sw = [c for c in cand if c[1] == "short" and base["trace"][c[0]]["name"] == "write"]
            pick = list(dict.fromkeys(sw[:2] + cand[: (len(cand) if big else 6)]))
            futs = [pool.submit(adfi_case, ha, ipso, work, "a%d_%d%s" % (si, k, kind), n0, seed0, ops, [(k, kind)], base["trace"]) for k, kind in pick]
            results = [([], base)] + [([p], f.result()) for p, f in zip(pick, futs)]
            for flt, r in results:
                if flt:
                    stats["adfi_fault_cases"] += 1
                ck.case(hashlib.sha1(("adfi%d%s" % (si, flt)).encode()).hexdigest() if flt else None,
                        sample={"level": "adfi", "init": [n0, seed0], "ops": ops[:6], "fault": flt})
                stats["syscalls_compared"] += len(r["impl_log"])
                if flt and flt[0][1] == "short" and base["trace"][flt[0][0]]["name"] == "write":
                    stats["short_write_retries_compared"] += 1
                if r["outcome"] != "ok":
                    fails.append({"level": "adfi", "init": [n0, seed0], "ops": ops, "fault": flt, "problem": "crash", "outcome": r["outcome"], "stderr": r["stderr"]})
                    continue
                # property-level, model-free: all statuses NO_ERROR => same final file as the fault-free run
                st = [l.split()[1] for l in r["impl"] if l.startswith("s ")]
                if flt and all(s == "-1" for s in st) and r["impl"][-1:] != base["impl"][-1:]:
                    read_eio = flt[0][1] == "eio" and base["trace"][flt[0][0]]["name"] == "read"
                    (observations if read_eio else fails).append(
                        {"level": "adfi", "init": [n0, seed0], "ops": ops, "fault": flt, "problem": "silent",
                         "what": "every call including the close reported NO_ERROR but the file differs from the fault-free run",
                         "final": r["impl"][-1:], "fault_free": base["impl"][-1:]})
                if flt and flt[0][1] in ("short", "eintr") and r["impl"] != base["impl"]:
                    fails.append({"level": "adfi", "init": [n0, seed0], "ops": ops, "fault": flt, "problem": "not-transparent",
                                  "impl": r["impl"][-3:], "fault_free": base["impl"][-3:]})
                if r["impl"] != r["model"] or r["impl_log"] != r["model_log"]:
                    d1 = vlib.first_divergence(r["model"], r["impl"])
                    d2 = vlib.first_divergence(r["model_log"], r["impl_log"])
                    corr_broken.append({"level": "adfi", "init": [n0, seed0], "ops": ops, "fault": flt,
                                        "first_output_divergence": d1 and {"line": d1[0], "model": d1[1], "impl": d1[2]},
                                        "first_syscall_divergence": d2 and {"index": d2[0], "model": d2[1], "impl": d2[2]}})
            if len(corr_broken) >= 4 or len(fails) >= 3:
                break

    # ---------------- (b) scenario campaign
    scens = gen_scenarios(ck.rng, ck.tier)
    for sc in scens:
        if len([f for f in fails]) >= 3:
            break
        sw = os.path.join(work, sc["name"])
        shutil.rmtree(sw, ignore_errors=True)
        os.makedirs(sw)
        base = None
        if sc["prep"]:
            base = os.path.join(sw, "base")
            os.makedirs(base)
            st, oc, err, _ = run_session(hs, ipso, base, sc["prep"])
            if oc != "ok" or any(s != 0 for s in st):
                raise vlib.Infra("cannot prepare the base file of %s: %s %s" % (sc["name"], oc, st))
        d0 = os.path.join(sw, "ref")
        if base:
            shutil.copytree(base, d0)
        else:
            os.makedirs(d0)
        trf = os.path.join(sw, "trace")
        st, oc, err, _ = run_session(hs, ipso, d0, sc["script"], trace=trf)
        nops = len([l for l in sc["script"] if not l.startswith("zn ")])
        tr = [c for c in ip.read_trace(trf) if c["f"] is not None]
        opmap = op_of_position(trf, sc["script"])
        dst, doc = dump_clean(hs, d0)
        if oc != "ok" or len(st) != nops or any(s != 0 for s in st) or not dst[0].startswith("ok"):
            raise vlib.Infra("fault-free run of %s fails: %s %s %s %s" % (sc["name"], oc, st, dst[0], err[-300:]))
        ideal = sc["ideal"] if sc["ideal"] is not None else dst[2]
        if dst[2] != ideal:
            fails.append({"level": sc["level"], "scenario": sc["name"], "script": sc["script"], "prep": sc["prep"], "faults": [],
                          "problem": "silent", "what": "fault-free session: reopened content differs from the script's ideal content",
                          "diff": [l for l in ideal if l not in dst[2]][:3] + ["--- got:"] + [l for l in dst[2] if l not in ideal][:3]})
            continue
        ck.cov["traces_validated_against_impl"] += 1
        # the property quantifies over write, seek and close (hook: write/pwrite/lseek/close/fsync/ftruncate); faults on the
        # read family are run as well but only recorded as observations outside the property
        cand = [(k, kind) for k in range(len(tr)) for kind in kinds_for(tr[k])]
        byname = {}
        for k, kind in cand:
            byname.setdefault((tr[k]["name"], kind), []).append((k, kind))
        if big:
            pick = cand
        else:
            # a seeded sample that covers every (call, kind) class, the first and the last calls of the session
            ck.rng.shuffle(cand)
            pick = []
            for key in sorted(byname):
                v = byname[key]
                pick += [v[0], v[-1]] + ck.rng.sample(v, min(2, len(v)))
            pick += cand[:14]
            pick += [(k, kind) for k, kind in cand if kind in ("eio", "enospc") and
                     any((opmap(k) or "").startswith(pre) for pre in sc.get("exhaustive_ops", ()))]
            pick = sorted(set(pick))
        jobs = [[p] for p in pick]
        if big:
            for _ in range(40):
                a, b = sorted(ck.rng.sample(cand, 2))
                if a[0] != b[0] and [a, b] not in jobs:
                    jobs.append([a, b])
        futs = [pool.submit(fault_case, hs, ipso, sw, sc, base, j, nops, ideal, opmap) for j in jobs]
        ps = {"syscalls": len(tr), "cases": len(jobs), "reported": 0, "transparent": 0, "not_injected": 0, "problems": 0,
              "calls": {n: sum(1 for c in tr if c["name"] == n) for n in sorted(set(c["name"] for c in tr))}}
        for fu in futs:
            r = fu.result()
            stats["scenario_cases"] += 1
            ck.case(hashlib.sha1((sc["name"] + str(r["faults"])).encode()).hexdigest() if r["injected"] else None,
                    sample={"scenario": sc["name"], "faults": r["faults"], "statuses": r["statuses"][-4:]})
            if not r["injected"]:
                ps["not_injected"] += 1
            if r["problem"] is None:
                if any(s != 0 for s in r["statuses"]):
                    ps["reported"] += 1
                else:
                    ps["transparent"] += 1
                continue
            if any(n in ("read", "pread") for n, _, _ in r["injected"]):
                ps["read_family_observations"] = ps.get("read_family_observations", 0) + 1
                if len(observations) < 6:
                    observations.append({"scenario": sc["name"], "faults": r["faults"], "injected": r["injected"], "problem": r["problem"],
                                         "outcome": r["outcome"], "stderr": r["stderr"][-200:]})
                continue
            ps["problems"] += 1
            key = classify(sc, r, [(tr[k]["name"], kind) for k, kind in r["faults"] if k < len(tr)])
            rec = {"level": sc["level"], "scenario": sc["name"], "backend": sc["backend"], "prep": sc["prep"], "script": sc["script"],
                   "faults": r["faults"], "injected": r["injected"], "problem": r["problem"], "statuses": r["statuses"],
                   "outcome": r["outcome"], "reopen": r.get("reopen"), "reopen_outcome": r.get("reopen_outcome"),
                   "diff": r.get("diff"), "stderr": r["stderr"], "n_syscalls": len(tr), "fault_ops": r.get("fault_ops")}
            if key:
                stats["known_hits"][key] = stats["known_hits"].get(key, 0) + 1
                if ck.known_match(key):
                    ck.finding(key, rec)
                elif not any(f.get("finding_key") == key for f in fails):
                    fails.append(dict(rec, finding_key=key))
            else:
                fails.append(rec)
        stats["per_scenario"][sc["name"]] = ps
        shutil.rmtree(sw, ignore_errors=True)
    pool.shutdown()

    real = [f for f in fails if not f.get("finding_key")]
    for f in [x for x in fails if x.get("finding_key")]:
        ck.finding(f["finding_key"], dict(f, oracle="statuses + sanitizer + clean reopen vs ideal content"))
    for f in real[:3]:
        ck.violation(dict(f, oracle="statuses + sanitizer + clean reopen vs ideal content", replay_hint="./check C14 --replay <this file>"))
    if (broken or corr_broken) and not real:
        def on_read_path(c):
            d = c.get("first_syscall_divergence") or {}
            return any((x or [""])[0] == "read" for x in (d.get("model"), d.get("impl")))
        rd = [c for c in corr_broken if on_read_path(c)]
        rec = {"broken_obligations": broken, "broken_correspondence": corr_broken[:3],
               "note": "the model and the implementation differ call by call (or an obligation no longer checks) but no scenario "
                       "explored lost data silently, crashed, or failed to retry"}
        if rd:
            # the divergence is on the READ path: the library's ADFI_read does not behave as theorem C14_read_retry says (every
            # byte up to the requested count or end of file, short counts and EINTR retried).  Read-side faults are outside the
            # property's quantifier (write, seek, close): a concrete witness against the theorem, not against the property.
            rec["contradicts_theorem"] = "C14_read_retry (coq/Properties_C14.v)"
            rec["read_path_witness"] = {k: rd[0][k] for k in ("init", "ops", "fault", "first_syscall_divergence", "first_output_divergence")}
            rec["note"] += ("; the first divergence is a read() call: read-side behaviour is outside the property's quantifier "
                            "(write, seek, close) and is reported as a model/library divergence only")
        ck.violation(rec, nofail=True)
    ck.extra["observations_outside_the_property"] = observations[:3]
    ck.extra["input_distribution"] = stats
    # second layer: status-propagation table regenerated from the sources (translators/c14_errprop.py), generic
    # theorem C14_error_propagates, fault injection under every unchecked row (checks/C14b.py, notes/C14b.md)
    from checks import C14b
    C14b.run_extra(ck)


def replay(ck, path):
    r = json.load(open(path))
    if r.get("level") == "c14b":
        from checks import C14b
        return C14b.replay(ck, path)
    vlib.build_impl()
    ipso = ip.build_interposer()
    if r.get("level") == "adfi":
        ha = vlib.build_harness("c14_adfi", ["c14_adfi.c"])
        n0, seed0 = r["init"]
        flt = [tuple(x) for x in r["fault"]]
        base = adfi_case(ha, ipso, ck.work, "rb", n0, seed0, r["ops"], [], [])
        res = adfi_case(ha, ipso, ck.work, "rf", n0, seed0, r["ops"], flt, base["trace"])
        st = [l.split()[1] for l in res["impl"] if l.startswith("s ")]
        bad = res["outcome"] != "ok" or (all(s == "-1" for s in st) and res["impl"][-1:] != base["impl"][-1:])
        print("replay: statuses=%s final=%s fault-free=%s outcome=%s -> property %s" % (st, res["impl"][-1:], base["impl"][-1:], res["outcome"], "FAILS" if bad else "holds"))
        return 1 if bad else 0
    if "scenario" not in r:
        print("replay names a broken obligation/correspondence, no input to run:", json.dumps(r)[:800]); return 1
    hs = vlib.build_harness("c14_h", ["c14_h.c"])
    sw = os.path.join(ck.work, "replay")
    os.makedirs(sw, exist_ok=True)
    base = None
    if r.get("prep"):
        base = os.path.join(sw, "base"); os.makedirs(base)
        run_session(hs, ipso, base, r["prep"])
    sc = {"script": r["script"], "name": r["scenario"]}
    ideal = None
    if r["level"] == "cgio":
        t = Tree()
        for l in (r.get("prep") or []) + r["script"]:
            t.apply(l)
        ideal = t.dump()
    else:
        d0 = os.path.join(sw, "ref")
        shutil.copytree(base, d0) if base else os.makedirs(d0)
        run_session(hs, ipso, d0, r["script"])
        ideal = dump_clean(hs, d0)[0][2]
    res = fault_case(hs, ipso, sw, sc, base, [tuple(x) for x in r["faults"]], len([l for l in r["script"] if not l.startswith("zn ")]), ideal)
    print("replay: %s -> property %s" % (json.dumps(res)[:900], "FAILS" if res["problem"] else "holds"))
    return 1 if res["problem"] else 0
