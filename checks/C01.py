"""C01 -- data written through the mid-level API is read back identically after reopen.

Proof side : coq/Properties_C01.v.  coq/SidsCodec.v is a combinator library over node trees (payload codecs: MT, C1
             string, enumeration stored as its C name, blank padded unit names, I4 / cgsize_t integer arrays with a
             dimension pattern under the reader's context Cdim/Pdim/Idim/CurrentDim, typed arrays as raw bytes; the
             children combinator: select by label (+ name), cardinality, optional sort) with ONE ROW PER ENTITY KIND
             ([spec], [post_ok], [effect_of]) transcribed from the pair (cg_X_write, cgi_read_X).  Theorems (for ALL
             entities / call sequences): C01_roundtrip (dec (enc e) = Some (view e) under the boolean wf),
             C01_roundtrip_<kind>, C01_roundtrip_file, C01_index_designates, C01_index_after_reopen, C01_view_complete;
             kernel-evaluated obligations over the tables REGENERATED from the sources (coq/Gen_C01.v):
             C01_labels_closed, C01_schema_in_sources, C01_enum_tables.
Tie T      : translators/c01_templates.py (every cgi_new_node / cgi_new_node_partial template of every function, every
             cgi_get_nodes label of every reader, the enumeration name tables, constants).
Tie C      : seeded random call sequences (any mix and order of kinds, random legal names, all shapes incl. rind, all
             data types, extreme magnitudes, NaN bit patterns, +-0, denormals; every array kind ALSO written a second way:
             in slabs through the partial / general writers, long enough to span 4096-byte blocks at every alignment)
             run through harness/c01_rt.c on ADF and
             HDF5 (+ HDF5 configurations through cg_configure) and through the extracted model:
             (i) the cgio dump of the file equals the model's [enc]; (ii) what cg_n*/cg_*_info/cg_*_read report after
             close + cg_open(READ) equals the model's [api_fill (view ..)]; returned indices equal the model's.
Oracle (independent of the model): what the API reports after reopen equals what THIS generator passed to the write
             calls (its own expected tree), every write call succeeds, the returned index is the count of that kind
             under the parent, cg_open(READ) succeeds, no API read error, ADF and HDF5 agree, ASan/UBSan silent.
"""
import json, os, re, struct, sys
import vlib

sys.path.insert(0, os.path.join(vlib.ROOT, "translators"))
import c01_templates

CHECKER = ("make -C coq SidsCodec.vo SidsCodecProofs.vo Gen_C01.vo (coqc 8.16.1 kernel; vm_compute of schema_ok, "
           "labels_closed, schema_in_sources, enum tables on the regenerated Gen_C01.v) ; coqc Properties_C01.v "
           "(Print Assumptions)")
ORACLE = ("after cg_close + cg_open(CG_MODE_READ) every cg_n* / cg_*_info / cg_*_read result (names, counts, enumerated "
          "attributes, dimensions, declared data types, array bytes) equals what the generator passed to the write "
          "calls; every write call of a valid input succeeds and returns the position of the new entity; ADF and HDF5 "
          "(and the HDF5 configurations) report the same; no sanitizer report")


def pregen():
    c01_templates.write_gen(repo=vlib.REPO)


# ----------------------------------------------------------------------------------------------- values
def hx(b):
    if isinstance(b, str):
        b = b.encode("latin-1")
    return b.hex() if b else "-"


DT_SIZE = {"I4": 4, "I8": 8, "R4": 4, "R8": 8, "C1": 1, "X4": 8, "X8": 16}
R4_SPECIAL = [0x00000000, 0x80000000, 0x00000001, 0x807fffff, 0x7f7fffff, 0xff7fffff, 0x7f800000, 0xff800000,
              0x7fc00000, 0x7fa00001, 0xffc12345, 0x7f800001, 0x00800000, 0x3f800000, 0x33d6bf95]
R8_SPECIAL = [0x0000000000000000, 0x8000000000000000, 0x0000000000000001, 0x800fffffffffffff, 0x7fefffffffffffff,
              0xffefffffffffffff, 0x7ff0000000000000, 0xfff0000000000000, 0x7ff8000000000000, 0x7ff4000000000001,
              0xfff8dead0000beef, 0x7ff0000000000001, 0x0010000000000000, 0x3ff0000000000000]
I4_SPECIAL = [0, 1, -1, 2147483647, -2147483648, 255, 256, -256]
I8_SPECIAL = [0, 1, -1, 2 ** 63 - 1, -2 ** 63, 2 ** 31, -2 ** 31 - 1, 2 ** 32]


def rand_elems(rng, dt, n):
    """n elements of type dt as bytes: a mix of special bit patterns and random bits"""
    out = bytearray()
    for _ in range(n):
        r = rng.random()
        if dt == "R4":
            v = rng.choice(R4_SPECIAL) if r < 0.4 else rng.getrandbits(32)
            out += struct.pack("<I", v)
        elif dt == "R8":
            v = rng.choice(R8_SPECIAL) if r < 0.4 else rng.getrandbits(64)
            out += struct.pack("<Q", v)
        elif dt == "I4":
            v = rng.choice(I4_SPECIAL) if r < 0.4 else rng.getrandbits(32) - 2 ** 31
            out += struct.pack("<i", v)
        elif dt == "I8":
            v = rng.choice(I8_SPECIAL) if r < 0.4 else rng.getrandbits(64) - 2 ** 63
            out += struct.pack("<q", v)
        elif dt == "X4":
            out += struct.pack("<II", rng.choice(R4_SPECIAL) if r < 0.4 else rng.getrandbits(32), rng.getrandbits(32))
        elif dt == "X8":
            out += struct.pack("<QQ", rng.choice(R8_SPECIAL) if r < 0.4 else rng.getrandbits(64), rng.getrandbits(64))
        else:
            out += bytes([rng.randint(1, 255)])
    return bytes(out)


def slab_spec(rng, dims, lo, partial_ok=True, p=0.75):
    """a second way to produce the same array: written in 2..5 slabs along one axis, in random order, through the
    general (memory sub-range) or the partial (contiguous slab, last axis) writers.  None = one whole-array call"""
    axes = [a for a, d in enumerate(dims) if d >= 2]
    if not axes or rng.random() > p:
        return None
    axis = rng.choice(axes + [len(dims) - 1] * 2) if dims[-1] >= 2 else rng.choice(axes)
    n = dims[axis]
    k = rng.randint(1, min(4, n - 1))
    cuts = sorted(rng.sample(range(1, n), k))
    order = list(range(k + 1))
    if rng.random() < 0.6:
        rng.shuffle(order)
    mode = "p" if partial_ok and axis == len(dims) - 1 and rng.random() < 0.5 else "g"
    return "%d:%s:%s:%s:%s" % (axis, ",".join(map(str, cuts)), ",".join(map(str, order)), ",".join(map(str, lo)), mode)


def prod(l):
    p = 1
    for x in l:
        p *= x
    return p


NAME_CHARS = [c for c in range(33, 127) if c != 47]


class Names:
    def __init__(self, rng):
        self.rng, self.n = rng, 0

    def name(self, stem="n"):
        """a legal node name: 1..32 printable characters, no '/', no leading / trailing blank"""
        rng = self.rng
        self.n += 1
        r = rng.random()
        tag = "%d" % self.n
        if r < 0.15:
            s = (stem + tag + "_").ljust(32, "x")                                   # exactly 32 characters
        elif r < 0.45:
            k = rng.randint(0, 32 - len(tag) - 1)
            mid = "".join(chr(rng.choice(NAME_CHARS + [32, 32])) for _ in range(k))
            s = chr(rng.choice(NAME_CHARS)) + mid.strip() + tag if k else tag       # random printable characters
            s = s[:32]
            if s in (".", ".."):
                s = "d" + tag
        elif r < 0.5:
            s = tag[:1] if self.n < 10 else tag                                     # very short
        else:
            s = stem + tag
        return s.encode("latin-1")


def text(rng, lo=1, hi=120):
    n = rng.randint(lo, hi)
    if rng.random() < 0.7:
        return bytes(rng.choice(range(32, 127)) for _ in range(n))
    return bytes(rng.randint(1, 255) for _ in range(n))


# ----------------------------------------------------------------------------------------------- the generator's own tree
class Node:
    """an entity the generator wrote (its own record of what the file must report)"""
    def __init__(self, kind, name, payload, parent):
        self.kind, self.name, self.payload, self.parent = kind, name, payload, parent
        self.kids = []
        self.ctx = dict(parent.ctx) if parent is not None else {}
        if parent is not None:
            parent.kids.append(self)

    def index(self, session):
        sibs = [k for k in self.parent.kids if k.kind == self.kind]
        if self.kind in ("Zone_t", "ParticleZone_t") and not session:
            sibs = sorted(sibs, key=lambda k: k.name)          # cgi_read_base: qsort by strcmp
        return 1 + sibs.index(self)

    def path(self, session):
        if self.parent is None:
            return ""
        p = self.parent.path(session)
        return "%s/%s:%d" % (p, self.kind, self.index(session))

    def spath(self):
        return self.path(True)[1:] or "-"

    def count(self, kind):
        return len([k for k in self.kids if k.kind == kind])


def p_ints(dims, vals):
    return "ints:%s:%s" % (",".join(str(d) for d in dims), ",".join(str(v) for v in vals) if vals else "-")


def p_arr(dt, dims, data):
    return "arr:%s:%s:%s" % (dt, ",".join(str(d) for d in dims), hx(data))


# children the API reports with a default value when the file has none: parent kind -> [(kind, name, payload(ctx))]
D_LOC = ("GridLocation_t.GridLocation", b"GridLocation", lambda c: "enum:2")
D_RIND = ("Rind_t.Rind", b"Rind", lambda c: p_ints([2 * c["idim"]], [0] * (2 * c["idim"])))
D_ORD = ("Ordinal_t.Ordinal", b"Ordinal", lambda c: "ints:1:0")
D_DC = ("DataClass_t.DataClass", b"DataClass", lambda c: "enum:0")
DEFAULTS = {
    "CGNSBase_t": [D_DC], "Zone_t": [D_DC, D_ORD], "GridCoordinates_t": [D_RIND, D_DC], "DataArray_t": [D_DC],
    "Elements_t": [D_RIND], "FlowSolution_t": [D_LOC, D_RIND, D_DC], "ZoneBC_t.ZoneBC": [D_DC],
    "BC_t": [D_LOC, D_DC, D_ORD], "BCDataSet_t": [D_DC, D_LOC], "BCData_t.DirichletData": [D_DC],
    "BCData_t.NeumannData": [D_DC],
    "GridConnectivity1to1_t": [("\"int[IndexDimension]\".Transform", b"Transform",
                                lambda c: p_ints([c["idim"]], list(range(1, c["idim"] + 1)))), D_ORD],
    "GridConnectivity_t": [D_LOC, ("GridConnectivityType_t.GridConnectivityType", b"GridConnectivityType", lambda c: "enum:2"), D_ORD],
    "OversetHoles_t": [D_LOC], "Family_t": [D_ORD], "UserDefinedData_t": [D_DC, D_LOC, D_ORD],
    "DiscreteData_t": [D_LOC, D_RIND, D_DC], "IntegralData_t": [D_DC], "ReferenceState_t.ReferenceState": [D_DC],
    "ConvergenceHistory_t": [D_DC], "RigidGridMotion_t": [D_DC], "ArbitraryGridMotion_t": [D_LOC, D_RIND, D_DC],
    "BaseIterativeData_t": [D_DC], "ZoneIterativeData_t": [D_DC], "Gravity_t.Gravity": [D_DC],
    "Axisymmetry_t.Axisymmetry": [D_DC], "RotatingCoordinates_t.RotatingCoordinates": [D_DC],
    "FlowEquationSet_t.FlowEquationSet": [D_DC],
    "ParticleZone_t": [D_DC], "ParticleCoordinates_t": [D_DC], "ParticleSolution_t": [D_DC], "ParticleIterativeData_t": [D_DC],
    "ParticleEquationSet_t.ParticleEquationSet": [D_DC], "ZoneSubRegion_t": [D_DC, D_LOC, D_RIND], "Periodic_t.Periodic": [D_DC],
    "FamilyBCDataSet_t": [D_DC],
}
MODEL_LABELS = ["GasModel_t", "ViscosityModel_t", "ThermalConductivityModel_t", "TurbulenceClosure_t", "TurbulenceModel_t",
                "ThermalRelaxationModel_t", "ChemicalKineticsModel_t", "EMElectricFieldModel_t", "EMMagneticFieldModel_t",
                "EMConductivityModel_t"]
PMODEL_LABELS = ["ParticleCollisionModel_t", "ParticleBreakupModel_t", "ParticleForceModel_t", "ParticleWallInteractionModel_t",
                 "ParticlePhaseChangeModel_t"]
for _l in MODEL_LABELS + PMODEL_LABELS:
    DEFAULTS["%s.%s" % (_l, _l[:-2])] = [D_DC]
# the model types cg_model_write / cg_particle_model_write accept per label (indices into ModelTypeName /
# ParticleModelTypeName; Null and UserDefined are always accepted)
MODEL_TYPES = {0: [2, 3, 19, 20, 21, 22], 1: [4, 5, 6], 2: [5, 6, 7], 3: [8, 9, 10], 4: [11, 12, 13, 14, 15, 16, 17, 18],
               5: [23, 24, 25], 6: [23, 26, 27, 28], 7: [23, 32, 33, 4], 8: [23, 33, 4], 9: [23, 4, 34, 35]}
PMODEL_TYPES = {0: list(range(2, 14)), 1: list(range(14, 25)), 2: list(range(25, 41)), 3: list(range(2, 11)) + [42, 41, 13],
                4: [43, 47, 48, 49]}


def expected_lines(root):
    out = []

    def go(n):
        if n.parent is not None:
            out.append("R %s %s %s" % (n.path(False), hx(n.name), n.payload))
        for dk, dn, dp in DEFAULTS.get(n.kind, []):
            if not any(k.kind == dk for k in n.kids):
                out.append("R %s/%s:1 %s %s" % (n.path(False), dk, hx(dn), dp(n.ctx)))
        for k in n.kids:
            go(k)
    go(root)
    return out


# ----------------------------------------------------------------------------------------------- plans
class Plan:
    """one planned API call: fn(gen, parent node, plan) -> node that receives the sub-plans; `pre` sub-plans are issued
    in order right after the call, `kids` in any order interleaved with everything else"""
    def __init__(self, what, fn, **kw):
        self.what, self.fn, self.kw = what, fn, kw
        self.pre, self.kids = [], []
        self.removed = False

    def walk(self):
        yield self
        for p in self.pre + self.kids:
            yield from p.walk()


class Gen:
    def __init__(self, rng, big):
        self.rng, self.big = rng, big
        self.names = Names(rng)
        self.root = Node("<root>", b"", "", None)
        Node("CGNSLibraryVersion_t.CGNSLibraryVersion", b"CGNSLibraryVersion", "arr:R4:1:33339340", self.root)
        self.calls = []            # (line, expected "i ..." answer, plan)
        self.kinds = set()
        self.avoid_complex = True
        self.avoid = frozenset()        # keys of the reported defects that still fail (see Planner)
        self.opts = []                  # harness options of this file (read paths that a reported defect closes today)
        self.nslab = 0

    # -- emission
    def call(self, fn, at, name=b"", ints=(), strs=(), arrs=(), ret=None, plan=None, slab=None):
        if slab:
            self.nslab += 1
        line = "%s %s %s %s %s %s" % ("callp " + slab if slab else "call", fn, at.spath() if at is not None else "-", hx(name),
                                        ",".join(str(i) for i in ints) if ints else "-",
                                        ";".join(hx(s) for s in strs) if strs else "-")
        for dt, dims, data in arrs:
            line += " %s:%s:%s" % (dt, ",".join(str(d) for d in dims), hx(data))
        self.calls.append([line, None, plan, fn])
        self.kinds.add(fn)
        return len(self.calls) - 1

    def expect_index(self, ci, node_or_none):
        self.calls[ci][1] = "i %d" % node_or_none.index(True) if node_or_none is not None else "i -"

    def uname(self, parent, stem):
        for _ in range(50):
            n = self.names.name(stem)
            if all(k.name != n for k in parent.kids) and n not in RESERVED:
                return n
        return ("%s_%d" % (stem, self.names.n)).encode()

    # -- scheduling: random interleaving that respects parent-before-child and the `pre` sequences
    def schedule(self, tops):
        rng = self.rng
        ready = [(p, self.root) for p in tops]
        while ready:
            i = rng.randrange(len(ready)) if rng.random() < 0.7 else 0
            p, par = ready.pop(i)
            if p.removed:
                continue
            node = p.fn(self, par, p)
            if node is None:
                continue
            for q in p.pre:
                self.run_now(q, node)
            for q in p.kids:
                ready.append((q, node))

    def run_now(self, p, par):
        if p.removed:
            return
        node = p.fn(self, par, p)
        if node is None:
            return
        for q in p.pre + p.kids:
            self.run_now(q, node)


RESERVED = {b"ZoneType", b"GridCoordinates", b"ZoneBC", b"ZoneGridConnectivity", b"GridLocation", b"Rind", b"PointList",
            b"PointRange", b"ElementRange", b"ElementConnectivity", b"ElementStartOffset", b"ParentElements",
            b"ParentElementsPosition", b"InwardNormalList", b"InwardNormalIndex", b"DirichletData", b"NeumannData",
            b"Transform", b"PointRangeDonor", b"GridConnectivityType", b"PointListDonor", b"CellListDonor",
            b"InterpolantsDonor", b"FamilyName", b"GeometryFile", b"GeometryFormat", b"DataClass", b"DimensionalUnits",
            b"AdditionalUnits", b"DimensionalExponents", b"AdditionalExponents", b"DataConversion", b"Ordinal",
            b"ReferenceState", b"Gravity", b"Axisymmetry", b"RotatingCoordinates", b"FlowEquationSet",
            b"GoverningEquations", b"SimulationType", b"GlobalConvergenceHistory", b"ZoneConvergenceHistory",
            b"ReferenceStateDescription", b"NormDefinitions", b"GravityVector", b"AxisymmetryReferencePoint",
            b"AxisymmetryAxisVector", b"RotationCenter", b"RotationRateVector", b"EquationDimension",
            b"CGNSLibraryVersion"}

# ---- emitters ------------------------------------------------------------------------------------------------------
def e_base(g, par, p):
    kw = p.kw
    ci = g.call("base", None, kw["name"], [kw["cell"], kw["phys"]], plan=p)
    n = Node("CGNSBase_t", kw["name"], p_ints([2], [kw["cell"], kw["phys"]]), g.root)
    n.ctx = {"cell": kw["cell"], "phys": kw["phys"], "idim": 0}
    g.expect_index(ci, n)
    return n


def e_zone(g, par, p):
    kw = p.kw
    idim = par.ctx["cell"] if kw["zt"] == 2 else 1
    ci = g.call("zone", par, kw["name"], [kw["zt"]] + kw["sizes"], plan=p)
    n = Node("Zone_t", kw["name"], p_ints([idim, 3], kw["sizes"]), par)
    n.ctx.update(idim=idim, zsize=kw["sizes"], zt=kw["zt"], zone=n)
    Node("ZoneType_t.ZoneType", b"ZoneType", "enum:%d" % kw["zt"], n)
    g.expect_index(ci, n)
    return n


def datasize(ctx, loc, rind):
    idim, zs = ctx["idim"], ctx["zsize"]
    if loc == 2:
        return [zs[j] + rind[2 * j] + rind[2 * j + 1] for j in range(idim)]
    if loc == 3:
        return [zs[j + idim] + rind[2 * j] + rind[2 * j + 1] for j in range(idim)]
    return [zs[j] + rind[2 * j] + rind[2 * j + 1] - (0 if j == loc - 5 else 1) for j in range(idim)]


def rind_of(node):
    for k in node.kids:
        if k.kind == "Rind_t.Rind":
            return k.rind
    return [0] * (2 * node.ctx["idim"])


def e_simple(fn, kind, payload="none", ints=None, ret=True, fixed=None):
    """a call that creates one node of `kind` under the parent"""
    def f(g, par, p):
        name = fixed if fixed is not None else p.kw["name"]
        ci = g.call(fn, par, b"" if fixed is not None else name, ints(p) if ints else [], plan=p)
        n = Node(kind, name, payload(p) if callable(payload) else payload, par)
        g.expect_index(ci, n if ret else None)
        return n
    return f


def e_grid(g, par, p):
    return e_simple("grid", "GridCoordinates_t")(g, par, p)


def e_rind(g, par, p):
    idim = par.ctx["idim"]
    r = g.rng.random()
    if r < 0.1:
        rind = [0] * (2 * idim)                                   # the default: no node is written
    elif r < 0.55:
        rind = [0] * (2 * idim)                                   # a single plane, at every position over time
        rind[g.rng.randrange(2 * idim)] = g.rng.choice([1, 2, 3])
    else:
        rind = [g.rng.choice([0, 0, 1, 2]) for _ in range(2 * idim)]
    if p.kw.get("force"):
        rind = p.kw["force"]
    ci = g.call("rind", par, ints=rind, plan=p)
    g.expect_index(ci, None)
    if not any(rind):
        return None                      # cgi_write_rind: "write Rind only if different from the default (6*0)"
    n = Node("Rind_t.Rind", b"Rind", p_ints([2 * idim], rind), par)
    n.rind = rind
    return n


def e_coord(g, par, p):
    """cg_coord_write: par is the zone; GridCoordinates is created on demand"""
    gc = [k for k in par.kids if k.kind == "GridCoordinates_t" and k.name == b"GridCoordinates"]
    gc = gc[0] if gc else Node("GridCoordinates_t", b"GridCoordinates", "none", par)
    dims = datasize(par.ctx, 2, rind_of(gc))
    dt = p.kw["dt"]
    data = rand_elems(g.rng, dt, prod(dims))
    name = p.kw["name"]
    if any(k.name == name for k in gc.kids):
        return None
    rind = rind_of(gc)
    ci = g.call("coord", par, name, arrs=[(dt, dims, data)], plan=p,
                slab=p.kw["slab"] if "slab" in p.kw else slab_spec(g.rng, dims, [1 - rind[2 * j] for j in range(len(dims))]))
    n = Node("DataArray_t", name, p_arr(dt, dims, data), gc)
    g.expect_index(ci, n)
    return n


def e_gridarray(g, par, p):
    """a coordinate array of a GridCoordinates_t node other than the default one: cg_goto + cg_array_write"""
    dims = datasize(par.ctx, 2, rind_of(par))
    dt = p.kw["dt"]
    data = rand_elems(g.rng, dt, prod(dims))
    ci = g.call("array", par, p.kw["name"], arrs=[(dt, dims, data)], plan=p)
    n = Node("DataArray_t", p.kw["name"], p_arr(dt, dims, data), par)
    g.expect_index(ci, None)
    return n


NPE = {2: 1, 3: 2, 5: 3, 7: 4, 10: 4, 12: 5, 14: 6, 17: 8, 4: 3, 6: 6, 8: 8, 9: 9, 11: 10}


def e_section(g, par, p):
    rng = g.rng
    kw = p.kw
    et, n = kw["et"], kw["n"]
    nvert = max(1, par.ctx["zsize"][0])
    start = 1 + sum(k.nelem for k in par.kids if k.kind == "Elements_t")
    end = start + n - 1
    nb = rng.choice([0, 0, rng.randint(0, n)])
    if et in NPE:
        conn = [rng.randint(1, nvert) for _ in range(n * NPE[et])]
        off = None
    elif et == 20:                                                    # MIXED: type, nodes ...
        conn, off = [], [0]
        for _ in range(n):
            t = rng.choice([5, 7, 10, 3, 17])
            conn += [t] + [rng.randint(1, nvert) for _ in range(NPE[t])]
            off.append(len(conn))
    else:                                                             # NGON_n / NFACE_n
        conn, off = [], [0]
        for _ in range(n):
            k = rng.randint(3, 6)
            conn += [rng.randint(1, nvert) * (rng.choice([1, 1, -1]) if et == 23 else 1) for _ in range(k)]
            off.append(len(conn))
    cb = struct.pack("<%dq" % len(conn), *conn)
    arrs = [("I8", [len(conn)], cb)]
    if off is not None:
        arrs.append(("I8", [n + 1], struct.pack("<%dq" % (n + 1), *off)))
    ci = g.call("section" if off is None else "poly_section", par, kw["name"], [et, start, end, nb], arrs=arrs, plan=p,
                slab=slab_spec(rng, [n], [1]) if off is None else None)
    s = Node("Elements_t", kw["name"], p_ints([2], [et, nb]), par)
    s.nelem = n
    Node("IndexRange_t.ElementRange", b"ElementRange", p_ints([2], [start, end]), s)
    if off is not None:
        Node("DataArray_t.ElementStartOffset", b"ElementStartOffset", p_arr("I8", [n + 1], arrs[1][2]), s)
    Node("DataArray_t.ElementConnectivity", b"ElementConnectivity", p_arr("I8", [len(conn)], cb), s)
    g.expect_index(ci, s)
    return s


def e_parent_data(g, par, p):
    n = par.nelem
    pe = rand_elems(g.rng, "I8", 2 * n)
    pf = rand_elems(g.rng, "I8", 2 * n)
    ci = g.call("parent_data", par, arrs=[("I8", [n, 2], pe), ("I8", [n, 2], pf)], plan=p)
    Node("DataArray_t.ParentElements", b"ParentElements", p_arr("I8", [n, 2], pe), par)
    Node("DataArray_t.ParentElementsPosition", b"ParentElementsPosition", p_arr("I8", [n, 2], pf), par)
    g.expect_index(ci, None)
    return None


def e_sol(g, par, p):
    loc = p.kw["loc"]
    ci = g.call("sol", par, p.kw["name"], [loc], plan=p)
    n = Node("FlowSolution_t", p.kw["name"], "none", par)
    n.loc = loc
    if loc != 2:
        Node("GridLocation_t.GridLocation", b"GridLocation", "enum:%d" % loc, n)
    g.expect_index(ci, n)
    return n


def e_field(g, par, p):
    dims = [par.patch] if getattr(par, "patch", None) else datasize(par.ctx, par.loc, rind_of(par))
    if min(dims) < 1:
        return None
    dt = p.kw["dt"]
    data = rand_elems(g.rng, dt, prod(dims))
    rind = rind_of(par) if not getattr(par, "patch", None) else [0, 0]
    ci = g.call("field", par, p.kw["name"], arrs=[(dt, dims, data)], plan=p,
                slab=p.kw["slab"] if "slab" in p.kw else slab_spec(g.rng, dims, [1 - rind[2 * j] for j in range(len(dims))]))
    n = Node("DataArray_t", p.kw["name"], p_arr(dt, dims, data), par)
    g.expect_index(ci, n)
    return n


def rand_ptset(g, ctx, allow_range=True, limit=6):
    """(ptset type, npnts, flat points, size of patch)"""
    rng = g.rng
    idim, zs = ctx["idim"], ctx["zsize"]
    if allow_range and limit >= 2 and rng.random() < 0.5:
        lo = [rng.randint(1, max(1, zs[j])) for j in range(idim)]
        hi = [rng.randint(lo[j], max(lo[j], zs[j])) for j in range(idim)]
        r = rng.random()
        if r < 0.25:            # a range that covers ONE point: the patch is smaller than the two points the node holds
            hi = list(lo)
        elif r < 0.45:          # the whole zone: the patch is far larger than the two points
            lo = [1] * idim; hi = [max(1, zs[j]) for j in range(idim)]
        return 4, 2, lo + hi, prod(h - l + 1 for l, h in zip(lo, hi))
    n = rng.randint(1, max(1, min(6, limit)))
    pts = [rng.randint(1, max(1, zs[j % idim])) for j in range(n * idim)]
    return 2, n, pts, n


def ptset_node(par, ptype, idim, npnts, pts):
    if ptype == 4:
        return Node("IndexRange_t.PointRange", b"PointRange", p_ints([idim, npnts], pts), par)
    return Node("IndexArray_t.PointList", b"PointList", p_ints([idim, npnts], pts), par)


def zonebc(par):
    zb = [k for k in par.kids if k.kind == "ZoneBC_t.ZoneBC"]
    return zb[0] if zb else Node("ZoneBC_t.ZoneBC", b"ZoneBC", "none", par)


def zgc(par):
    z = [k for k in par.kids if k.kind == "ZoneGridConnectivity_t"]
    return z[0] if z else Node("ZoneGridConnectivity_t", b"ZoneGridConnectivity", "none", par)


def e_boco(g, par, p):
    ptype, npnts, pts, patch = rand_ptset(g, par.ctx)
    bct = g.rng.randint(0, 25)
    ci = g.call("boco", par, p.kw["name"], [bct, ptype, npnts] + pts, plan=p)
    zb = zonebc(par)
    n = Node("BC_t", p.kw["name"], "enum:%d" % bct, zb)
    n.patch = patch
    ptset_node(n, ptype, par.ctx["idim"], npnts, pts)
    g.expect_index(ci, n)
    return n


def e_boco_loc(g, par, p):
    c = par.ctx
    locs = [2]
    if c["cell"] >= 2:
        locs.append(8)
    if c["cell"] >= 3:
        locs.append(4)
        if c["zt"] == 2:
            locs += [5, 6, 7]
    loc = g.rng.choice(locs)
    ci = g.call("boco_gridlocation", par, ints=[loc], plan=p)
    Node("GridLocation_t.GridLocation", b"GridLocation", "enum:%d" % loc, par)       # written also for Vertex
    g.expect_index(ci, None)
    return None


def e_boco_normal(g, par, p):
    rng, c = g.rng, par.ctx
    flag = rng.choice([0, 1])
    nidx = []
    if c["zt"] == 2:
        nidx = [0] * c["idim"]
        nidx[rng.randrange(c["idim"])] = rng.choice([1, -1])
    arrs = []
    if flag:
        dt = rng.choice(["R4", "R8"])
        dims = [c["phys"], par.patch]
        arrs = [(dt, dims, rand_elems(rng, dt, prod(dims)))]
    if not flag and not nidx:
        return None
    ci = g.call("boco_normal", par, ints=[flag] + nidx, arrs=arrs, plan=p)
    if flag:
        Node("IndexArray_t.InwardNormalList", b"InwardNormalList", p_arr(*arrs[0]), par)
    if nidx:
        Node("\"int[IndexDimension]\".InwardNormalIndex", b"InwardNormalIndex", p_ints([c["idim"]], nidx), par)
    g.expect_index(ci, None)
    return None


def e_dataset(g, par, p):
    bct = g.rng.randint(0, 25)
    ci = g.call("dataset", par, p.kw["name"], [bct], plan=p)
    n = Node("BCDataSet_t", p.kw["name"], "enum:%d" % bct, par)
    n.patch = par.patch
    g.expect_index(ci, n)
    return n


def e_bcdata(g, par, p):
    ty = p.kw["ty"]
    kind = "BCData_t.DirichletData" if ty == 2 else "BCData_t.NeumannData"
    if any(k.kind == kind for k in par.kids):
        return None
    ci = g.call("bcdata", par, ints=[ty], plan=p)
    n = Node(kind, b"DirichletData" if ty == 2 else b"NeumannData", "none", par)
    n.patch = par.patch
    g.expect_index(ci, None)
    return n


def e_1to1(g, par, p):
    rng, c = g.rng, par.ctx
    idim, zs = c["idim"], c["zsize"]
    lo = [rng.randint(1, zs[j]) for j in range(idim)]
    hi = [rng.randint(lo[j], zs[j]) for j in range(idim)]
    perm = list(range(1, idim + 1))
    rng.shuffle(perm)
    tr = [x * rng.choice([1, -1]) for x in perm]
    dlo = [rng.randint(1, 9) for _ in range(idim)]
    dhi = list(dlo)
    for i in range(idim):                  # the donor extent along |transform[i]| equals the receiver extent along i
        j = abs(tr[i]) - 1
        dhi[j] = dlo[j] + (hi[i] - lo[i])
    donor = p.kw["donor"]
    ci = g.call("1to1", par, p.kw["name"], lo + hi + dlo + dhi + tr, [donor], plan=p)
    z = zgc(par)
    n = Node("GridConnectivity1to1_t", p.kw["name"], "str:" + hx(donor), z)
    Node("\"int[IndexDimension]\".Transform", b"Transform", p_ints([idim], tr), n)
    Node("IndexRange_t.PointRange", b"PointRange", p_ints([idim, 2], lo + hi), n)
    Node("IndexRange_t.PointRangeDonor", b"PointRangeDonor", p_ints([idim, 2], dlo + dhi), n)
    g.expect_index(ci, n)
    return n


def e_conn(g, par, p):
    rng, c = g.rng, par.ctx
    idim = c["idim"]
    loc = rng.choice([2, 3])
    cty = rng.choice([2, 3, 4])
    zs = c["zsize"]
    limit = min(prod(zs[:idim]), max(1, prod(zs[idim:2 * idim])))      # "Inconsistent number of points in point set"
    ptype, npnts, pts, patch = rand_ptset(g, c, limit=limit)
    dz = p.kw["donor"]                       # (name, zone type) of a zone of the same base
    dzt = dz[1]
    ddim = c["cell"] if dzt == 2 else 1
    ndonor = rng.choice([0, patch, patch]) if cty == 4 else rng.choice([0, rng.randint(1, 5)])
    if p.kw.get("ndonor"):
        cty, ndonor = 2, p.kw["ndonor"]
    dptype = rng.choice([3, 8]) if dzt == 3 else 3
    dpts = [rng.randint(1, 50) for _ in range(ndonor * ddim)]
    ci = g.call("conn", par, p.kw["name"], [loc, cty, ptype, npnts, dptype, dzt, ndonor] + pts + dpts, [dz[0]], plan=p)
    z = zgc(par)
    n = Node("GridConnectivity_t", p.kw["name"], "str:" + hx(dz[0]), z)
    Node("GridConnectivityType_t.GridConnectivityType", b"GridConnectivityType", "enum:%d" % cty, n)
    if loc != 2:
        Node("GridLocation_t.GridLocation", b"GridLocation", "enum:%d" % loc, n)
    ptset_node(n, ptype, idim, npnts, pts)
    if ndonor:
        if dptype == 8:
            Node("IndexArray_t.CellListDonor", b"CellListDonor", p_ints([ddim, ndonor], dpts), n)
        else:
            Node("IndexArray_t.PointListDonor", b"PointListDonor", p_ints([ddim, ndonor], dpts), n)
    g.expect_index(ci, n)
    return n


def e_hole(g, par, p):
    rng, c = g.rng, par.ctx
    idim, zs = c["idim"], c["zsize"]
    loc = rng.choice([2, 3])
    z = None
    if rng.random() < 0.5:
        nps = rng.randint(1, 3)
        pts, subs = [], []
        for _ in range(nps):
            lo = [rng.randint(1, zs[j]) for j in range(idim)]
            hi = [rng.randint(lo[j], zs[j]) for j in range(idim)]
            pts += lo + hi
            subs.append(lo + hi)
        ci = g.call("hole", par, p.kw["name"], [loc, 4, nps, 2 * nps] + pts, plan=p)
        z = zgc(par)
        n = Node("OversetHoles_t", p.kw["name"], "none", z)
        if loc != 2:
            Node("GridLocation_t.GridLocation", b"GridLocation", "enum:%d" % loc, n)
        for i, s_ in enumerate(subs):
            Node("IndexRange_t", b"PointRange%d" % (i + 1), p_ints([idim, 2], s_), n)
    else:
        npnts = rng.randint(1, 6)
        pts = [rng.randint(1, max(1, zs[j % idim])) for j in range(npnts * idim)]
        ci = g.call("hole", par, p.kw["name"], [loc, 2, 1, npnts] + pts, plan=p)
        z = zgc(par)
        n = Node("OversetHoles_t", p.kw["name"], "none", z)
        if loc != 2:
            Node("GridLocation_t.GridLocation", b"GridLocation", "enum:%d" % loc, n)
        Node("IndexArray_t.PointList", b"PointList", p_ints([idim, npnts], pts), n)
    g.expect_index(ci, n)
    return n


def e_fambc(g, par, p):
    bct = g.rng.randint(0, 25)
    ci = g.call("fambc", par, p.kw["name"], [bct], plan=p)
    n = Node("FamilyBC_t", p.kw["name"], "enum:%d" % bct, par)
    g.expect_index(ci, n)
    return n


def e_geo(g, par, p):
    f, cad = text(g.rng, 1, 60), text(g.rng, 1, 32)
    ci = g.call("geo", par, p.kw["name"], strs=[f, cad], plan=p)
    n = Node("GeometryReference_t", p.kw["name"], "none", par)
    Node("GeometryFile_t.GeometryFile", b"GeometryFile", "str:" + hx(f), n)
    Node("GeometryFormat_t.GeometryFormat", b"GeometryFormat", "str:" + hx(cad), n)
    g.expect_index(ci, n)
    return n


def e_family_name(g, par, p):
    fam = text(g.rng, 1, 60).replace(b";", b":")
    ci = g.call("family_name", par, p.kw["name"], strs=[fam], plan=p)
    Node("FamilyName_t", p.kw["name"], "str:" + hx(fam), par)
    g.expect_index(ci, None)
    return None


# ---- node-context writers
def e_descr(g, par, p):
    t = text(g.rng, 1, 200).replace(b";", b":")
    ci = g.call("descriptor", par, p.kw["name"], strs=[t], plan=p)
    Node("Descriptor_t", p.kw["name"], "str:" + hx(t), par)
    g.expect_index(ci, None)


def single(kind):
    def deco(f):
        def w(g, par, p):
            if any(k.kind == kind for k in par.kids):
                return None
            return f(g, par, p)
        return w
    return deco


@single("DataClass_t.DataClass")
def e_dataclass(g, par, p):
    dc = g.rng.randint(0, 6)
    ci = g.call("dataclass", par, ints=[dc], plan=p)
    Node("DataClass_t.DataClass", b"DataClass", "enum:%d" % dc, par)
    g.expect_index(ci, None)


NUNITS = [6, 7, 3, 6, 4, 7, 6, 7]


@single("DimensionalUnits_t.DimensionalUnits")
def e_units(g, par, p):
    u = [g.rng.randrange(n) for n in NUNITS]
    if g.rng.random() < 0.5:
        ci = g.call("units", par, ints=u[:5], plan=p)
        Node("DimensionalUnits_t.DimensionalUnits", b"DimensionalUnits", "enums:" + ",".join(map(str, u[:5])), par)
    else:
        ci = g.call("unitsfull", par, ints=u, plan=p)
        n = Node("DimensionalUnits_t.DimensionalUnits", b"DimensionalUnits", "enums:" + ",".join(map(str, u[:5])), par)
        Node("AdditionalUnits_t.AdditionalUnits", b"AdditionalUnits", "enums:" + ",".join(map(str, u[5:])), n)
    g.expect_index(ci, None)


@single("DimensionalExponents_t.DimensionalExponents")
def e_exponents(g, par, p):
    dt = g.rng.choice(["R4", "R8"])
    a = rand_elems(g.rng, dt, 5)
    if g.rng.random() < 0.5:
        ci = g.call("exponents", par, arrs=[(dt, [5], a)], plan=p)
        Node("DimensionalExponents_t.DimensionalExponents", b"DimensionalExponents", p_arr(dt, [5], a), par)
    else:
        b = rand_elems(g.rng, dt, 3)
        ci = g.call("expfull", par, arrs=[(dt, [5], a), (dt, [3], b)], plan=p)
        n = Node("DimensionalExponents_t.DimensionalExponents", b"DimensionalExponents", p_arr(dt, [5], a), par)
        Node("AdditionalExponents_t.AdditionalExponents", b"AdditionalExponents", p_arr(dt, [3], b), n)
    g.expect_index(ci, None)


@single("DataConversion_t.DataConversion")
def e_conversion(g, par, p):
    dt = g.rng.choice(["R4", "R8"])
    a = rand_elems(g.rng, dt, 2)
    ci = g.call("conversion", par, arrs=[(dt, [2], a)], plan=p)
    Node("DataConversion_t.DataConversion", b"DataConversion", p_arr(dt, [2], a), par)
    g.expect_index(ci, None)


@single("Ordinal_t.Ordinal")
def e_ordinal(g, par, p):
    o = g.rng.choice([0, 1, 7, -3, 2147483647, -2147483648, g.rng.randint(-10 ** 6, 10 ** 6)])
    ci = g.call("ordinal", par, ints=[o], plan=p)
    Node("Ordinal_t.Ordinal", b"Ordinal", p_ints([1], [o]), par)
    g.expect_index(ci, None)


@single("FamilyName_t.FamilyName")
def e_famname(g, par, p):
    fam = text(g.rng, 1, 32).replace(b";", b":")
    ci = g.call("famname", par, strs=[fam], plan=p)
    Node("FamilyName_t.FamilyName", b"FamilyName", "str:" + hx(fam), par)
    g.expect_index(ci, None)


@single("GridLocation_t.GridLocation")
def e_gridlocation(g, par, p):
    loc = g.rng.choice([2, 3])
    ci = g.call("gridlocation", par, ints=[loc], plan=p)
    Node("GridLocation_t.GridLocation", b"GridLocation", "enum:%d" % loc, par)
    g.expect_index(ci, None)


def loc_of(node):
    for k in node.kids:
        if k.kind == "GridLocation_t.GridLocation":
            return int(k.payload.split(":")[1])
    return 2


def e_user_data(g, par, p):
    ci = g.call("user_data", par, p.kw["name"], plan=p)
    n = Node("UserDefinedData_t", p.kw["name"], "none", par)
    g.expect_index(ci, None)
    return n


LOADED = {"BCData_t.DirichletData", "BCData_t.NeumannData", "IntegralData_t", "ReferenceState_t.ReferenceState",
          "ConvergenceHistory_t", "RigidGridMotion_t", "ArbitraryGridMotion_t", "BaseIterativeData_t", "ZoneIterativeData_t",
          "Gravity_t.Gravity", "Axisymmetry_t.Axisymmetry", "RotatingCoordinates_t.RotatingCoordinates"}


def e_array(g, par, p):
    rng = g.rng
    dts = ["I4", "I8", "R4", "R8", "C1", "X4", "X8"]
    if par.kind in LOADED and g.avoid_complex:
        dts = ["I4", "I8", "R4", "R8", "C1"]          # see the witness complex-array-unreadable
    dt = p.kw.get("dt") or rng.choice(dts)
    if p.kw.get("nbytes"):                              # a long vector of about that many bytes
        p.kw["dims"] = [max(2, p.kw["nbytes"] // DT_SIZE[dt])]
    if par.kind == "ReferenceState_t.ReferenceState" and not p.kw.get("dims"):
        p.kw["dims"] = [1]                               # cgi_read_state: "Wrong data dimension in Reference State definition"
    if p.kw.get("sized"):                               # an array that must have the zone's data size
        p.kw["dims"] = datasize(par.ctx, loc_of(par), rind_of(par))
    dims = p.kw.get("dims") or [rng.randint(1, 4) for _ in range(rng.choice([1, 1, 2, 3, 4]))]
    if p.kw.get("patch_of"):
        dims = [par.patch if p.kw["patch_of"] == "exact" else rng.choice([1, par.patch])]
    if not p.kw.get("dims") and not p.kw.get("patch_of") and rng.random() < 0.2:
        dims = [rng.randint(300, 1500)] if rng.random() < 0.5 else [rng.randint(20, 60), rng.randint(8, 30)]   # spans 4096-byte blocks
    data = rand_elems(rng, dt, prod(dims))
    sl = slab_spec(rng, dims, [1] * len(dims), partial_ok=False, p=p.kw.get("slab_p", 0.6)) if par.kind in SLAB_PARENTS else None
    ci = g.call("array", par, p.kw["name"], arrs=[(dt, dims, data)], plan=p, slab=sl)
    n = Node("DataArray_t", p.kw["name"], p_arr(dt, dims, data), par)
    g.expect_index(ci, None)
    return n


# parents under which cg_array_general_write has no rind planes to consider
SLAB_PARENTS = {"UserDefinedData_t", "IntegralData_t", "ConvergenceHistory_t", "BaseIterativeData_t", "ZoneIterativeData_t",
                "BCData_t.DirichletData", "BCData_t.NeumannData", "RigidGridMotion_t"}


# ---- tranche 2
def e_named(fn, kind, payload=lambda g, p: "none", ints=lambda g, p: [], ret=False):
    def f(g, par, p):
        ci = g.call(fn, par, p.kw["name"], ints(g, p), plan=p)
        n = Node(kind, p.kw["name"], payload(g, p), par)
        g.expect_index(ci, n if ret else None)
        return n
    return f


e_discrete = e_named("discrete", "DiscreteData_t", ret=True)
e_integral = e_named("integral", "IntegralData_t")
e_ziter = e_named("ziter", "ZoneIterativeData_t")


def e_enum_named(fn, kind, hi, ret=True):
    def f(g, par, p):
        ty = p.kw.setdefault("ty", g.rng.randint(0, hi))
        ci = g.call(fn, par, p.kw["name"], [ty], plan=p)
        n = Node(kind, p.kw["name"], "enum:%d" % ty, par)
        g.expect_index(ci, n if ret else None)
        return n
    return f


e_rigid = e_enum_named("rigid_motion", "RigidGridMotion_t", 3)
e_arbitrary = e_enum_named("arbitrary_motion", "ArbitraryGridMotion_t", 3)


def e_origin(g, par, p):
    p.kw["dims"] = [par.ctx["phys"], 2]
    p.kw["dt"] = g.rng.choice(["R4", "R8"])
    p.kw["name"] = b"OriginLocation"
    return e_array(g, par, p)


@single("ReferenceState_t.ReferenceState")
def e_state(g, par, p):
    d = text(g.rng, 1, 80).replace(b";", b":")
    ci = g.call("state", par, strs=[d], plan=p)
    n = Node("ReferenceState_t.ReferenceState", b"ReferenceState", "none", par)
    Node("Descriptor_t", b"ReferenceStateDescription", "str:" + hx(d), n)
    g.expect_index(ci, None)
    return n


@single("ConvergenceHistory_t")
def e_converg(g, par, p):
    d = text(g.rng, 1, 80).replace(b";", b":")
    it = g.rng.choice([0, 1, 100, 2147483647])
    name = b"GlobalConvergenceHistory" if par.kind == "CGNSBase_t" else b"ZoneConvergenceHistory"
    ci = g.call("convergence", par, name, [it], [d], plan=p)
    n = Node("ConvergenceHistory_t", name, p_ints([1], [it]), par)
    Node("Descriptor_t", b"NormDefinitions", "str:" + hx(d), n)
    g.expect_index(ci, None)
    return n


@single("BaseIterativeData_t")
def e_biter(g, par, p):
    ns = p.kw["nsteps"]
    ci = g.call("biter", par, p.kw["name"], [ns], plan=p)
    n = Node("BaseIterativeData_t", p.kw["name"], p_ints([1], [ns]), par)
    g.expect_index(ci, None)
    return n


@single("SimulationType_t.SimulationType")
def e_simtype(g, par, p):
    ty = g.rng.choice([1, 2, 3])
    ci = g.call("simulation_type", par, ints=[ty], plan=p)
    Node("SimulationType_t.SimulationType", b"SimulationType", "enum:%d" % ty, par)
    g.expect_index(ci, None)


def vec_node(par, name, data, n):
    return Node("DataArray_t", name, p_arr("R4", [n], data), par)


@single("Gravity_t.Gravity")
def e_gravity(g, par, p):
    ph = par.ctx["phys"]
    v = rand_elems(g.rng, "R4", ph)
    ci = g.call("gravity", par, arrs=[("R4", [ph], v)], plan=p)
    n = Node("Gravity_t.Gravity", b"Gravity", "none", par)
    vec_node(n, b"GravityVector", v, ph)
    g.expect_index(ci, None)
    return n


@single("Axisymmetry_t.Axisymmetry")
def e_axisym(g, par, p):
    ph = par.ctx["phys"]
    if ph != 2:
        return None
    a, b = rand_elems(g.rng, "R4", ph), rand_elems(g.rng, "R4", ph)
    ci = g.call("axisym", par, arrs=[("R4", [ph], a), ("R4", [ph], b)], plan=p)
    n = Node("Axisymmetry_t.Axisymmetry", b"Axisymmetry", "none", par)
    vec_node(n, b"AxisymmetryReferencePoint", a, ph)
    vec_node(n, b"AxisymmetryAxisVector", b, ph)
    g.expect_index(ci, None)
    return n


@single("RotatingCoordinates_t.RotatingCoordinates")
def e_rotating(g, par, p):
    ph = par.ctx["phys"]
    c, r = rand_elems(g.rng, "R4", ph), rand_elems(g.rng, "R4", ph)
    ci = g.call("rotating", par, arrs=[("R4", [ph], c), ("R4", [ph], r)], plan=p)
    n = Node("RotatingCoordinates_t.RotatingCoordinates", b"RotatingCoordinates", "none", par)
    vec_node(n, b"RotationCenter", c, ph)
    vec_node(n, b"RotationRateVector", r, ph)
    g.expect_index(ci, None)
    return n


@single("FlowEquationSet_t.FlowEquationSet")
def e_eqset(g, par, p):
    dim = g.rng.choice([0, 1, 2, 3])
    ci = g.call("equationset", par, ints=[dim], plan=p)
    n = Node("FlowEquationSet_t.FlowEquationSet", b"FlowEquationSet", "none", par)
    if dim:
        Node("\"int\".EquationDimension", b"EquationDimension", p_ints([1], [dim]), n)
    g.expect_index(ci, None)
    return n


@single("GoverningEquations_t.GoverningEquations")
def e_governing(g, par, p):
    ty = g.rng.randint(0, 8)
    ci = g.call("governing", par, ints=[ty], plan=p)
    n = Node("GoverningEquations_t.GoverningEquations", b"GoverningEquations", "enum:%d" % ty, par)
    g.expect_index(ci, None)
    return n


# ---- calls that the current sources do not read back (witnesses of reported defects)
def e_bc_normal_array(g, par, p):
    """cg_goto (BC_t) + cg_array_write ("InwardNormalList"): the node the reader looks for is an IndexArray_t"""
    dims = [par.ctx["phys"], par.patch]
    data = rand_elems(g.rng, "R8", prod(dims))
    ci = g.call("array", par, b"InwardNormalList", arrs=[("R8", dims, data)], plan=p)
    Node("IndexArray_t.InwardNormalList", b"InwardNormalList", p_arr("R8", dims, data), par)
    g.expect_index(ci, None)


def e_multifam(g, par, p):
    fam = p.kw.get("fam") or b"SomeFamily"
    ci = g.call("multifam", par, p.kw["name"], strs=[fam], plan=p)
    Node("AdditionalFamilyName_t", p.kw["name"], "str:" + hx(fam), par)
    g.expect_index(ci, None)


# ---- tranche 3 ---------------------------------------------------------------------------------------------------------
def e_particle(g, par, p):
    n = p.kw["n"]
    ci = g.call("particle", par, p.kw["name"], [n], plan=p)
    z = Node("ParticleZone_t", p.kw["name"], p_ints([1], [n]), par)
    z.ctx.update(idim=1, zsize=[n, n, 0], zt=3, zone=z, np=n)
    g.expect_index(ci, z)
    return z


e_pcoord_node = e_simple("particle_coord_node", "ParticleCoordinates_t")
e_psol = e_simple("particle_sol", "ParticleSolution_t")
e_piter = e_named("piter", "ParticleIterativeData_t")


def e_pcoord(g, par, p):
    """cg_particle_coord_write: par is the particle zone; ParticleCoordinates is created while there is no such node"""
    pcs = [k for k in par.kids if k.kind == "ParticleCoordinates_t"]
    pc = [k for k in pcs if k.name == b"ParticleCoordinates"]
    if pcs and not pc:
        return None
    n = par.ctx["np"]
    if n < 1:
        return None
    pc = pc[0] if pc else Node("ParticleCoordinates_t", b"ParticleCoordinates", "none", par)
    if any(k.name == p.kw["name"] for k in pc.kids):
        return None
    dt = p.kw["dt"]
    data = rand_elems(g.rng, dt, n)
    ci = g.call("particle_coord", par, p.kw["name"], arrs=[(dt, [n], data)], plan=p, slab=slab_spec(g.rng, [n], [1]))
    a = Node("DataArray_t", p.kw["name"], p_arr(dt, [n], data), pc)
    g.expect_index(ci, a)
    return a


def e_psol_ptset(g, par, p):
    rng, n = g.rng, par.ctx["np"]
    if n < 1:
        return None
    if rng.random() < 0.5:
        lo = rng.randint(1, n); hi = rng.randint(lo, n)
        ptype, npnts, pts, patch = 4, 2, [lo, hi], hi - lo + 1
    else:
        npnts = rng.randint(1, min(6, n)); pts = [rng.randint(1, n) for _ in range(npnts)]
        ptype, patch = 2, npnts
    ci = g.call("particle_sol_ptset", par, p.kw["name"], [ptype, npnts] + pts, plan=p)
    s_ = Node("ParticleSolution_t", p.kw["name"], "none", par)
    s_.patch = patch
    ptset_node(s_, ptype, 1, npnts, pts)
    g.expect_index(ci, s_)
    return s_


def e_pfield(g, par, p):
    n = getattr(par, "patch", None) or par.ctx["np"]
    if n < 1:
        return None
    dt = p.kw["dt"]
    data = rand_elems(g.rng, dt, n)
    ci = g.call("particle_field", par, p.kw["name"], arrs=[(dt, [n], data)], plan=p, slab=slab_spec(g.rng, [n], [1]))
    a = Node("DataArray_t", p.kw["name"], p_arr(dt, [n], data), par)
    g.expect_index(ci, a)
    return a


@single("ParticleEquationSet_t.ParticleEquationSet")
def e_peqset(g, par, p):
    dim = g.rng.choice([0, 1, 2, 3])
    ci = g.call("particle_equationset", par, ints=[dim], plan=p)
    n = Node("ParticleEquationSet_t.ParticleEquationSet", b"ParticleEquationSet", "none", par)
    if dim:
        Node("\"int\".EquationDimension", b"EquationDimension", p_ints([1], [dim]), n)
    g.expect_index(ci, None)
    return n


@single("ParticleGoverningEquations_t.ParticleGoverningEquations")
def e_pgoverning(g, par, p):
    ty = g.rng.randint(0, 4)
    ci = g.call("particle_governing", par, ints=[ty], plan=p)
    n = Node("ParticleGoverningEquations_t.ParticleGoverningEquations", b"ParticleGoverningEquations", "enum:%d" % ty, par)
    g.expect_index(ci, None)
    return n


def e_model_of(fn, labels, types):
    def f(g, par, p):
        w = p.kw["which"]
        kind = "%s.%s" % (labels[w], labels[w][:-2])
        if any(k.kind == kind for k in par.kids):
            return None
        ty = g.rng.choice([0, 1] + types[w] * 3)
        ci = g.call(fn, par, ints=[w, ty], plan=p)
        n = Node(kind, labels[w][:-2].encode(), "enum:%d" % ty, par)
        g.expect_index(ci, None)
        return n
    return f


e_model = e_model_of("model", MODEL_LABELS, MODEL_TYPES)
e_pmodel = e_model_of("particle_model", PMODEL_LABELS, PMODEL_TYPES)


@single("\"int[1+...+IndexDimension]\".DiffusionModel")
def e_diffusion(g, par, p):
    d = par.ctx["idim"] or par.ctx["cell"]
    n = {1: 1, 2: 3, 3: 6}[d]
    vals = [g.rng.choice([0, 1]) for _ in range(n)]
    ci = g.call("diffusion", par, ints=vals, plan=p)
    Node("\"int[1+...+IndexDimension]\".DiffusionModel", b"DiffusionModel", p_ints([n], vals), par)
    g.expect_index(ci, None)


def subreg_locs(ctx, dimension):
    locs = [2, 3]
    if dimension + 1 >= 2:
        locs.append(8)
    if dimension + 1 >= 3:
        locs.append(4)
        if ctx["zt"] == 2:
            locs += [5, 6, 7]
    return locs


def e_subreg(g, par, p):
    rng, c = g.rng, par.ctx
    dimension = rng.randint(1, c["cell"])
    var = p.kw["var"]
    if var == "ptset":
        loc = rng.choice(subreg_locs(c, dimension))
        ptype, npnts, pts, patch = rand_ptset(g, c)
        ci = g.call("subreg_ptset", par, p.kw["name"], [dimension, loc, ptype, npnts] + pts, plan=p)
        n = Node("ZoneSubRegion_t", p.kw["name"], p_ints([1], [dimension]), par)
        ptset_node(n, ptype, c["idim"], npnts, pts)
        if loc != 2:
            Node("GridLocation_t.GridLocation", b"GridLocation", "enum:%d" % loc, n)
    else:
        txt = text(rng, 1, 32).replace(b";", b":")
        ci = g.call("subreg_bcname" if var == "bc" else "subreg_gcname", par, p.kw["name"], [dimension], [txt], plan=p)
        n = Node("ZoneSubRegion_t", p.kw["name"], p_ints([1], [dimension]), par)
        Node("Descriptor_t", b"BCRegionName" if var == "bc" else b"GridConnectivityRegionName", "str:" + hx(txt), n)
    g.expect_index(ci, n)
    return n


def bprop(par):
    b = [k for k in par.kids if k.kind == "BCProperty_t.BCProperty"]
    return b[0] if b else Node("BCProperty_t.BCProperty", b"BCProperty", "none", par)


def cprop(par):
    b = [k for k in par.kids if k.kind == "GridConnectivityProperty_t.GridConnectivityProperty"]
    return b[0] if b else Node("GridConnectivityProperty_t.GridConnectivityProperty", b"GridConnectivityProperty", "none", par)


def e_wallfunction(g, par, p):
    if any(k.kind == "WallFunction_t.WallFunction" for b in par.kids if b.kind == "BCProperty_t.BCProperty" for k in b.kids):
        return None
    ty = g.rng.randint(0, 2)
    ci = g.call("bc_wallfunction", par, ints=[ty], plan=p)
    n = Node("WallFunction_t.WallFunction", b"WallFunction", "none", bprop(par))
    Node("WallFunctionType_t.WallFunctionType", b"WallFunctionType", "enum:%d" % ty, n)
    g.expect_index(ci, None)
    return n


def e_area(g, par, p):
    if any(k.kind == "Area_t.Area" for b in par.kids if b.kind == "BCProperty_t.BCProperty" for k in b.kids):
        return None
    rng = g.rng
    ty = rng.randint(0, 3)
    sa = rand_elems(rng, "R4", 1)
    region = (b"R" + text(rng, 0, 31).replace(b";", b":")).rstrip() if rng.random() < 0.8 else b"R" * 32
    region = bytes(ch for ch in region if 32 <= ch < 127)[:32] or b"R"
    ci = g.call("bc_area", par, ints=[ty], strs=[region], arrs=[("R4", [1], sa)], plan=p)
    n = Node("Area_t.Area", b"Area", "none", bprop(par))
    Node("AreaType_t.AreaType", b"AreaType", "enum:%d" % ty, n)
    Node("DataArray_t", b"SurfaceArea", p_arr("R4", [1], sa), n)
    Node("DataArray_t", b"RegionName", p_arr("C1", [32], region.ljust(32)), n)
    g.expect_index(ci, None)
    return n


def e_periodic(g, par, p):
    if any(k.kind == "Periodic_t.Periodic" for b in par.kids if b.kind.startswith("GridConnectivityProperty_t") for k in b.kids):
        return None
    ph = par.ctx["phys"]
    vs = [rand_elems(g.rng, "R4", ph) for _ in range(3)]
    ci = g.call("periodic", par, arrs=[("R4", [ph], v) for v in vs], plan=p)
    n = Node("Periodic_t.Periodic", b"Periodic", "none", cprop(par))
    for nm, v in zip((b"RotationCenter", b"RotationAngle", b"Translation"), vs):
        Node("DataArray_t", nm, p_arr("R4", [ph], v), n)
    g.expect_index(ci, None)
    return n


def e_average(g, par, p):
    if any(k.kind == "AverageInterface_t.AverageInterface" for b in par.kids if b.kind.startswith("GridConnectivityProperty_t") for k in b.kids):
        return None
    ty = g.rng.randint(0, 7)
    ci = g.call("average", par, ints=[ty], plan=p)
    n = Node("AverageInterface_t.AverageInterface", b"AverageInterface", "none", cprop(par))
    Node("AverageInterfaceType_t.AverageInterfaceType", b"AverageInterfaceType", "enum:%d" % ty, n)
    g.expect_index(ci, None)
    return n


def e_bcdataset(g, par, p):
    bct, ty = g.rng.randint(0, 25), p.kw["ty"]
    ci = g.call("bcdataset", par, p.kw["name"], [bct, ty], plan=p)
    n = Node("FamilyBCDataSet_t", p.kw["name"], "enum:%d" % bct, par)
    n.patch = 1
    b = Node("BCData_t.DirichletData" if ty == 2 else "BCData_t.NeumannData", b"DirichletData" if ty == 2 else b"NeumannData", "none", n)
    b.patch = 1
    g.expect_index(ci, None)
    return n


def e_node_family(g, par, p):
    ci = g.call("node_family", par, p.kw["name"], plan=p)
    n = Node("Family_t", p.kw["name"], "none", par)
    g.expect_index(ci, n)
    return n


def ptset_locs(c):
    locs = [2, 3]
    if c["cell"] >= 2:
        locs.append(8)
    if c["cell"] >= 3:
        locs.append(4)
        if c["zt"] == 2:
            locs += [5, 6, 7]
    return locs


def e_ptset_container(fn, kind):
    """cg_sol_ptset_write / cg_discrete_ptset_write: the node, its point set, the location (if not Vertex)"""
    def f(g, par, p):
        c = par.ctx
        locs = p.kw.get("locs") or ptset_locs(c)
        if "ptset-solution-location-unreadable" in g.avoid:        # cgi_datasize knows neither (3-D) FaceCenter nor (2/3-D) EdgeCenter
            locs = [l for l in locs if l not in (4, 8)]
        loc = g.rng.choice(locs)
        ptype, npnts, pts, patch = rand_ptset(g, c)
        ci = g.call(fn, par, p.kw["name"], [loc, ptype, npnts] + pts, plan=p)
        n = Node(kind, p.kw["name"], "none", par)
        n.patch, n.loc = patch, loc
        ptset_node(n, ptype, c["idim"], npnts, pts)
        if loc != 2:
            Node("GridLocation_t.GridLocation", b"GridLocation", "enum:%d" % loc, n)
        g.expect_index(ci, n)
        return n
    return f


e_sol_ptset = e_ptset_container("sol_ptset", "FlowSolution_t")
e_discrete_ptset = e_ptset_container("discrete_ptset", "DiscreteData_t")


# ----------------------------------------------------------------------------------------------- building a plan
CTX = {      # node-context children that may be attached under a kind (what harness/c01_rt.c reads back there)
    "CGNSBase_t": "d c u U", "Zone_t": "d c u U o f", "GridCoordinates_t": "d c u U", "DataArray_t": "d c u v x",
    "Elements_t": "d U", "FlowSolution_t": "d c u U", "ZoneBC_t.ZoneBC": "d c u U", "BC_t": "d c u U o f",
    "BCDataSet_t": "d c u U", "BCData_t.DirichletData": "d c u U A", "BCData_t.NeumannData": "d c u U A",
    "ZoneGridConnectivity_t": "d U", "GridConnectivity1to1_t": "d U o", "GridConnectivity_t": "d U o",
    "OversetHoles_t": "d U", "Family_t": "d U o", "GeometryReference_t": "d U",
    "UserDefinedData_t": "d c u a l f o U",
    "DiscreteData_t": "d c u U", "IntegralData_t": "d c u U a", "ReferenceState_t.ReferenceState": "d c u U a",
    "ConvergenceHistory_t": "d c u U a", "RigidGridMotion_t": "d c u U", "ArbitraryGridMotion_t": "d c u U",
    "BaseIterativeData_t": "d c u U a", "ZoneIterativeData_t": "d c u U a", "Gravity_t.Gravity": "d c u U",
    "Axisymmetry_t.Axisymmetry": "d c u U", "RotatingCoordinates_t.RotatingCoordinates": "d c u U",
    "FlowEquationSet_t.FlowEquationSet": "d c u U", "GoverningEquations_t.GoverningEquations": "d U",
    "ParticleZone_t": "d c u U f", "ParticleCoordinates_t": "d c u U", "ParticleSolution_t": "d c u U",
    "ParticleIterativeData_t": "d c u U a", "ParticleEquationSet_t.ParticleEquationSet": "d c u U",
    "ParticleGoverningEquations_t.ParticleGoverningEquations": "d U", "ZoneSubRegion_t": "d c u U f m a",
    "BCProperty_t.BCProperty": "d U", "WallFunction_t.WallFunction": "d U", "Area_t.Area": "d U",
    "GridConnectivityProperty_t.GridConnectivityProperty": "d U", "Periodic_t.Periodic": "d c u U",
    "AverageInterface_t.AverageInterface": "d U", "FamilyBCDataSet_t": "d c u U",
}
for _l in MODEL_LABELS + PMODEL_LABELS:
    CTX["%s.%s" % (_l, _l[:-2])] = "d c u U 1"
for _k in ("Zone_t", "BC_t", "UserDefinedData_t"):
    CTX[_k] += " m"


class Planner:
    def __init__(self, rng, names, big, avoid=()):
        self.rng, self.names, self.big = rng, names, big
        self.avoid = frozenset(avoid)           # keys of reported defects that still fail: their triggers stay out of the random files
        self.bases_done = []                    # (base name, zones) of the bases planned so far: donors of cross-base connectivities

    def nm(self, stem):
        return self.names.name(stem)

    def ctx_plans(self, kind, depth=0, density=0.35):
        """random node-context children for a node of `kind`"""
        rng = self.rng
        out = []
        for code in CTX.get(kind, "").split():
            if rng.random() > density:
                continue
            if code == "d":
                for _ in range(rng.choice([1, 1, 2])):
                    out.append(Plan("descriptor", e_descr, name=self.nm("D")))
            elif code == "c":
                out.append(Plan("dataclass", e_dataclass))
            elif code == "u":
                out.append(Plan("units", e_units))
            elif code == "o":
                out.append(Plan("ordinal", e_ordinal))
            elif code == "f":
                out.append(Plan("famname", e_famname))
            elif code == "l":
                out.append(Plan("gridlocation", e_gridlocation))
            elif code == "m":
                for _ in range(rng.choice([1, 1, 2])):
                    out.append(Plan("multifam", e_multifam, name=self.nm("AF"), fam=text(rng, 1, 40).replace(b";", b":")))
            elif code == "1":                      # arrays of one element (model nodes)
                for _ in range(rng.choice([1, 2])):
                    a = Plan("array", e_array, name=self.nm("A"), dims=[1])
                    a.kids = self.ctx_plans("DataArray_t", depth + 1, 0.25)
                    out.append(a)
            elif code == "v":
                out.append(Plan("conversion", e_conversion))
            elif code == "x":
                out.append(Plan("exponents", e_exponents))
            elif code in ("a", "A"):
                for _ in range(rng.choice([1, 2, 3])):
                    a = Plan("array", e_array, name=self.nm("A"), patch_of=(code == "A"))
                    a.kids = self.ctx_plans("DataArray_t", depth + 1, 0.25)
                    out.append(a)
            elif code == "U" and depth < 2:
                for _ in range(rng.choice([1, 1, 2])):
                    u = Plan("user_data", e_user_data, name=self.nm("U"))
                    u.kids = self.ctx_plans("UserDefinedData_t", depth + 1, 0.4)
                    out.append(u)
        return out

    def base(self):
        rng = self.rng
        cell = rng.choice([1, 2, 3, 3])
        phys = rng.randint(cell, 3)
        b = Plan("base", e_base, name=self.nm("Base"), cell=cell, phys=phys)
        b.kids += self.ctx_plans("CGNSBase_t")
        # long vectors of every element size, each behind a descriptor of random length (so that their data start at
        # every alignment relative to the 4096-byte blocks of the file), written in slabs: every one spans a block boundary
        sw = Plan("user_data", e_user_data, name=self.nm("Long"))
        for dt in ["C1", rng.choice(["I4", "R4"]), rng.choice(["I4", "R4"]), rng.choice(["I8", "R8"]), rng.choice(["I8", "R8"]),
                   rng.choice(["X4", "X8"])]:
            sw.pre.append(Plan("descriptor", e_descr, name=self.nm("Pad")))
            sw.pre.append(Plan("array", e_array, name=self.nm("V"), dt=dt, nbytes=rng.randint(4200, 9000), slab_p=0.9))
        b.kids.append(sw)
        zones = []
        # the zones of a base share a prefix of varying length: the reader sorts them by name (strcmp)
        zprefix = bytes(rng.choice(NAME_CHARS) for _ in range(rng.choice([0, 0, 4, 9, 17, 26])))
        for _ in range(rng.randint(1, 4 if self.big else 3)):
            zt = rng.choice([2, 3])
            large = rng.random() < 0.5            # arrays of a large zone span several 4096-byte blocks of the file
            if zt == 2:
                hi = {1: 900, 2: 30, 3: 10}[cell] if large else 4
                nv = [rng.randint(2, hi) for _ in range(cell)]
                sizes = nv + [x - 1 for x in nv] + [0] * cell
            else:
                nvt = rng.randint(300, 900) if large else rng.randint(4, 16)
                sizes = [nvt, rng.randint(1, 9), rng.randint(0, nvt)]
            zn = (zprefix + self.nm("Z")[:32 - len(zprefix)]).strip()            # no leading / trailing blank (assumption)
            while any(zn == z[0] for z in zones) or not zn:
                zn = (zn[:24] + b"_%d" % self.names.n)[:32]
                self.names.n += 1
            zones.append((zn, zt, sizes))
        for zn, zt, sizes in zones:
            z = Plan("zone", e_zone, name=zn, zt=zt, sizes=sizes)
            self.zone(z, zt, cell, zones)
            b.kids.append(z)
        self.bases_done.append((b.kw["name"], zones))
        has_biter = rng.random() < 0.5
        if has_biter:
            ns = rng.randint(1, 4)
            bi = Plan("biter", e_biter, name=self.nm("BIter"), nsteps=ns)
            bi.pre.append(Plan("array", e_array, name=b"TimeValues", dt="R8", dims=[ns]))
            bi.kids += self.ctx_plans("BaseIterativeData_t")
            b.kids.append(bi)
        for zp in [k for k in b.kids if k.what == "zone"]:
            if has_biter and rng.random() < 0.6:        # a ZoneIterativeData_t is only read when the base has BaseIterativeData_t
                zi = Plan("ziter", e_ziter, name=self.nm("ZIter"))
                zi.kids += self.ctx_plans("ZoneIterativeData_t")
                zp.kids.append(zi)
        b.kids += self.common_t2("CGNSBase_t")
        for _ in range(rng.choice([0, 1, 1, 2])):
            b.kids.append(self.pzone(has_biter))
        if rng.random() < 0.3:
            eq = self.peqset()
            if "particle-eqset-under-base-not-written" not in self.avoid:
                b.kids.append(eq)
        if rng.random() < 0.4:
            b.kids.append(Plan("simulation_type", e_simtype))
        if rng.random() < 0.4:
            gv = Plan("gravity", e_gravity)
            gv.kids += self.ctx_plans("Gravity_t.Gravity")
            b.kids.append(gv)
        if phys == 2 and rng.random() < 0.6:
            ax = Plan("axisym", e_axisym)
            ax.kids += self.ctx_plans("Axisymmetry_t.Axisymmetry")
            b.kids.append(ax)
        for _ in range(rng.choice([0, 1, 2])):
            f = Plan("family", e_simple("family", "Family_t"), name=self.nm("Fam"))
            for _ in range(rng.choice([0, 1, 2])):
                fb = Plan("fambc", e_fambc, name=self.nm("FBC"))
                for _ in range(rng.choice([0, 1, 2])):
                    ds = Plan("bcdataset", e_bcdataset, name=self.nm("FDS"), ty=rng.choice([2, 3]))
                    ds.kids += self.ctx_plans("FamilyBCDataSet_t")
                    fb.kids.append(ds)
                f.kids.append(fb)
            par_f = f
            for _ in range(rng.choice([0, 0, 1, 2])):             # nested families (family tree)
                nf = Plan("node_family", e_node_family, name=self.nm("SubFam"))
                nf.kids += self.ctx_plans("Family_t")
                par_f.kids.append(nf)
                if rng.random() < 0.5:
                    par_f = nf
            for _ in range(rng.choice([0, 1])):
                ge = Plan("geo", e_geo, name=self.nm("Geo"))
                for _ in range(rng.choice([0, 1, 2])):
                    ge.kids.append(Plan("part", e_simple("part", "GeometryEntity_t"), name=self.nm("Part")))
                ge.kids += self.ctx_plans("GeometryReference_t")
                f.kids.append(ge)
            for _ in range(rng.choice([0, 0, 1, 2])):
                f.kids.append(Plan("family_name", e_family_name, name=self.nm("FN")))
            f.kids += self.ctx_plans("Family_t")
            b.kids.append(f)
        return b

    def common_t2(self, kind):
        """ReferenceState_t, ConvergenceHistory_t, IntegralData_t, FlowEquationSet_t, RotatingCoordinates_t (bases and zones)"""
        rng = self.rng
        out = []
        if rng.random() < 0.35:
            st = Plan("state", e_state)
            st.kids += self.ctx_plans("ReferenceState_t.ReferenceState")
            out.append(st)
        if rng.random() < 0.35:
            cv = Plan("convergence", e_converg)
            cv.kids += self.ctx_plans("ConvergenceHistory_t")
            out.append(cv)
        for _ in range(rng.choice([0, 0, 1, 2])):
            it = Plan("integral", e_integral, name=self.nm("Int"))
            it.kids += self.ctx_plans("IntegralData_t", 0, 0.5)
            out.append(it)
        if rng.random() < 0.35:
            eq = Plan("equationset", e_eqset)
            if rng.random() < 0.7:
                gv = Plan("governing", e_governing)
                gv.kids += self.ctx_plans("GoverningEquations_t.GoverningEquations")
                if rng.random() < 0.5:
                    gv.kids.append(Plan("diffusion", e_diffusion))
                eq.kids.append(gv)
            for w in rng.sample(range(10), rng.choice([0, 1, 2, 4, 10])):
                m = Plan("model", e_model, which=w)
                m.kids += self.ctx_plans("%s.%s" % (MODEL_LABELS[w], MODEL_LABELS[w][:-2]), 1, 0.3)
                if w == 4 and rng.random() < 0.6:
                    m.kids.append(Plan("diffusion", e_diffusion))
                eq.kids.append(m)
            eq.kids += self.ctx_plans("FlowEquationSet_t.FlowEquationSet")
            out.append(eq)
        if rng.random() < 0.3:
            ro = Plan("rotating", e_rotating)
            ro.kids += self.ctx_plans("RotatingCoordinates_t.RotatingCoordinates")
            out.append(ro)
        return out

    def cprops(self):
        rng, out = self.rng, []
        if rng.random() < 0.35:
            pe = Plan("periodic", e_periodic)
            pe.kids += self.ctx_plans("Periodic_t.Periodic")
            out.append(pe)
        if rng.random() < 0.35:
            av = Plan("average", e_average)
            av.kids += self.ctx_plans("AverageInterface_t.AverageInterface")
            out.append(av)
        return out

    def peqset(self):
        rng = self.rng
        eq = Plan("particle_equationset", e_peqset)
        if rng.random() < 0.7:
            gv = Plan("particle_governing", e_pgoverning)
            gv.kids += self.ctx_plans("ParticleGoverningEquations_t.ParticleGoverningEquations")
            eq.kids.append(gv)
        for w in rng.sample(range(5), rng.choice([0, 1, 2, 5])):
            m = Plan("particle_model", e_pmodel, which=w)
            m.kids += self.ctx_plans("%s.%s" % (PMODEL_LABELS[w], PMODEL_LABELS[w][:-2]), 1, 0.3)
            eq.kids.append(m)
        eq.kids += self.ctx_plans("ParticleEquationSet_t.ParticleEquationSet")
        return eq

    def pzone(self, has_biter):
        """a particle zone: coordinates (default node on demand or explicit, further nodes), solutions (whole / point set)
        and fields, equation set, integral data, reference state, iterative data"""
        rng = self.rng
        n = rng.choice([0, rng.randint(1, 6), rng.randint(1, 6), rng.randint(300, 900)])
        z = Plan("particle", e_particle, name=self.nm("PZ"), n=n)
        z.kids += self.ctx_plans("ParticleZone_t")
        coords = [Plan("particle_coord", e_pcoord, name=cn, dt=rng.choice(["R4", "R8"]))
                  for cn in rng.sample([b"CoordinateX", b"CoordinateY", b"CoordinateZ", self.nm("PC")], rng.randint(0, 3))]
        for c in coords:
            c.kids += self.ctx_plans("DataArray_t", 1, 0.25)
        first = None
        if rng.random() < 0.5:
            first = Plan("particle_coord_node", e_pcoord_node, name=b"ParticleCoordinates")
            first.kids += [c_after(c) for c in coords] + self.ctx_plans("ParticleCoordinates_t")
            z.kids.append(first)
        else:
            z.kids += coords
            first = coords[0] if coords and n else None
        if rng.random() < 0.4:
            pc = Plan("particle_coord_node", e_pcoord_node, name=self.nm("PCN"))
            if n:
                for _ in range(rng.choice([0, 1, 2])):
                    pc.kids.append(Plan("array", e_array, name=self.nm("PA"), dt=rng.choice(["R4", "R8"]), dims=[n]))
            pc.kids += self.ctx_plans("ParticleCoordinates_t")
            (first.kids if first is not None else z.kids).append(c_after(pc) if first is not None else pc)
        for _ in range(rng.choice([0, 1, 2, 3])):
            ps = Plan("particle_sol_ptset", e_psol_ptset, name=self.nm("PS")) if rng.random() < 0.4 else \
                Plan("particle_sol", e_psol, name=self.nm("PS"))
            for _ in range(rng.choice([0, 1, 2, 3])):
                f = Plan("particle_field", e_pfield, name=self.nm("PF"), dt=rng.choice(["R4", "R8", "R8", "I4", "I8", "X4", "X8"]))
                f.kids += self.ctx_plans("DataArray_t", 1, 0.25)
                ps.kids.append(f)
            ps.kids += self.ctx_plans("ParticleSolution_t")
            z.kids.append(ps)
        if rng.random() < 0.5:
            z.kids.append(self.peqset())
        for _ in range(rng.choice([0, 0, 1])):
            it = Plan("integral", e_integral, name=self.nm("Int"))
            it.kids += self.ctx_plans("IntegralData_t", 0, 0.5)
            if "particle-zone-integrals-not-countable" not in self.avoid:
                z.kids.append(it)
        for _ in range(rng.choice([0, 0, 1, 2])):
            mf = Plan("multifam", e_multifam, name=self.nm("AddFam"))
            if "particle-zone-multifam-not-countable" not in self.avoid:
                z.kids.append(mf)
        if rng.random() < 0.3:
            st = Plan("state", e_state)
            st.kids += self.ctx_plans("ReferenceState_t.ReferenceState")
            z.kids.append(st)
        if has_biter and rng.random() < 0.6:        # like ZoneIterativeData_t: only read when the base has BaseIterativeData_t
            pi = Plan("piter", e_piter, name=self.nm("PIter"))
            pi.kids += self.ctx_plans("ParticleIterativeData_t")
            z.kids.append(pi)
        return z

    def zone(self, z, zt, cell, zones):
        rng = self.rng
        z.kids += self.ctx_plans("Zone_t")
        # zone sub-regions (point set / BC name / connectivity name)
        for _ in range(rng.choice([0, 0, 1, 2])):
            sr = Plan("subreg", e_subreg, name=self.nm("Reg"), var=rng.choice(["ptset", "ptset", "bc", "gc"]))
            if rng.random() < 0.3:
                sr.pre.append(Plan("rind", e_rind))
            sr.kids += self.ctx_plans("ZoneSubRegion_t")
            z.kids.append(sr)
        # point-set solutions and discrete data
        for _ in range(rng.choice([0, 0, 1])):
            s_ = Plan("sol_ptset", e_sol_ptset, name=self.nm("SolP"))
            for _ in range(rng.choice([0, 1, 2])):
                f = Plan("field", e_field, name=self.nm("Fld"), dt=rng.choice(["R4", "R8", "I4", "I8", "X4", "X8"]))
                s_.kids.append(f)
            s_.kids += self.ctx_plans("FlowSolution_t")
            z.kids.append(s_)
        for _ in range(rng.choice([0, 0, 1])):
            d_ = Plan("discrete_ptset", e_discrete_ptset, name=self.nm("DiscP"))
            for _ in range(rng.choice([0, 1, 2])):
                d_.kids.append(Plan("array", e_array, name=self.nm("DA"), dt=rng.choice(["R4", "R8", "I4", "I8"]), patch_of="exact"))
            d_.kids += self.ctx_plans("DiscreteData_t")
            z.kids.append(d_)
        z.kids += self.common_t2("Zone_t")
        for _ in range(rng.choice([0, 0, 1, 2])):
            d = Plan("discrete", e_discrete, name=self.nm("Disc"))
            if rng.random() < 0.5:
                d.pre.append(Plan("gridlocation", e_gridlocation))
            if rng.random() < 0.5:
                d.pre.append(Plan("rind", e_rind))
            for _ in range(rng.choice([0, 1, 2])):
                d.kids.append(Plan("array", e_array, name=self.nm("DA"), dt=rng.choice(["R4", "R8", "I4", "I8"]), sized=True))
            d.kids += self.ctx_plans("DiscreteData_t")
            z.kids.append(d)
        for _ in range(rng.choice([0, 0, 1])):
            r = Plan("rigid_motion", e_rigid, name=self.nm("Rigid"))
            r.pre.append(Plan("array", e_origin))
            r.kids += self.ctx_plans("RigidGridMotion_t")
            z.kids.append(r)
        for _ in range(rng.choice([0, 0, 1])):
            a = Plan("arbitrary_motion", e_arbitrary, name=self.nm("Arb"))
            if rng.random() < 0.5:
                a.pre.append(Plan("gridlocation", e_gridlocation))
            if rng.random() < 0.5:
                a.pre.append(Plan("rind", e_rind))
            for _ in range(rng.choice([0, 1, 2])):
                a.kids.append(Plan("array", e_array, name=self.nm("GV"), dt=rng.choice(["R4", "R8"]), sized=True))
            a.kids += self.ctx_plans("ArbitraryGridMotion_t")
            z.kids.append(a)
        # grid coordinates: the default node (created explicitly first when it gets rind planes) and others
        r = rng.random()
        coords = []
        for cn in rng.sample([b"CoordinateX", b"CoordinateY", b"CoordinateZ", self.nm("Coord")], rng.randint(0, 3)):
            coords.append(Plan("coord", e_coord, name=cn, dt=rng.choice(["R4", "R8"])))
        if r < 0.5:
            gr = Plan("grid", e_grid, name=b"GridCoordinates")
            if rng.random() < 0.7:
                gr.pre.append(Plan("rind", e_rind))
            for c in coords:                      # the coordinate arrays come after the rind planes
                c.kids += self.ctx_plans("DataArray_t", 1, 0.25)
                gr.kids.append(c_after(c))
            gr.kids += self.ctx_plans("GridCoordinates_t")
            z.kids.append(gr)
        else:
            for c in coords:
                c.kids += self.ctx_plans("DataArray_t", 1, 0.25)
                z.kids.append(c)
        first = (z.kids[-1] if r < 0.5 else (coords[0] if coords else None))
        for _ in range(rng.choice([0, 0, 1])):
            gr = Plan("grid", e_grid, name=self.nm("Grid"))
            if rng.random() < 0.5:
                gr.pre.append(Plan("rind", e_rind))
            for _ in range(rng.choice([0, 1, 2])):
                gr.pre.append(Plan("gridarray", e_gridarray, name=self.nm("GC"), dt=rng.choice(["R4", "R8"])))
            gr.kids += self.ctx_plans("GridCoordinates_t")
            # cg_coord_write creates "GridCoordinates" only while the zone has no GridCoordinates_t node at all: another
            # grid may only be written once the default one exists (or when no coordinate is written at all)
            if first is not None:
                first.kids.append(c_after(gr))
            else:
                z.kids.append(gr)
        # element sections (chained: the ranges follow one another)
        if zt == 3:
            prev = None
            for _ in range(rng.choice([0, 1, 2, 3])):
                et = rng.choice([5, 7, 10, 17, 3, 2, 20, 22, 23, 12, 14])
                s = Plan("section", e_section, name=self.nm("Sec"), et=et, n=rng.choice([rng.randint(1, 6), rng.randint(1, 6), rng.randint(100, 400)]))
                if rng.random() < 0.4:
                    s.kids.append(Plan("parent_data", e_parent_data))
                s.kids += self.ctx_plans("Elements_t")
                z.kids.append(s)
        # solutions
        for _ in range(rng.choice([0, 1, 2, 3])):
            locs = [2, 3, 3]
            if zt == 2:
                locs += [5, 6, 7][:cell]
            s = Plan("sol", e_sol, name=self.nm("Sol"), loc=rng.choice(locs))
            if rng.random() < 0.5:
                s.pre.append(Plan("rind", e_rind))
            for _ in range(rng.choice([0, 1, 2, 3])):
                f = Plan("field", e_field, name=self.nm("Fld"), dt=rng.choice(["R4", "R8", "R8", "I4", "I8", "X4", "X8"]))
                f.kids += self.ctx_plans("DataArray_t", 1, 0.25)
                s.kids.append(f)
            s.kids += self.ctx_plans("FlowSolution_t")
            z.kids.append(s)
        # boundary conditions
        zbc_ctx = self.ctx_plans("ZoneBC_t.ZoneBC")
        for i in range(rng.choice([0, 1, 2, 3])):
            bc = Plan("boco", e_boco, name=self.nm("BC"))
            if rng.random() < 0.5:
                bc.kids.append(Plan("boco_gridlocation", e_boco_loc))
            if rng.random() < 0.5:
                bc.kids.append(Plan("boco_normal", e_boco_normal))
            if rng.random() < 0.35:
                w_ = Plan("bc_wallfunction", e_wallfunction)
                w_.kids += self.ctx_plans("WallFunction_t.WallFunction")
                bc.kids.append(w_)
            if rng.random() < 0.35:
                a_ = Plan("bc_area", e_area)
                a_.kids += self.ctx_plans("Area_t.Area")
                bc.kids.append(a_)
            for _ in range(rng.choice([0, 1, 2])):
                ds = Plan("dataset", e_dataset, name=self.nm("DS"))
                for ty in rng.sample([2, 3], rng.randint(0, 2)):
                    bd = Plan("bcdata", e_bcdata, ty=ty)
                    bd.kids += self.ctx_plans("BCData_t.DirichletData")
                    ds.kids.append(bd)
                ds.kids += self.ctx_plans("BCDataSet_t")
                bc.kids.append(ds)
            bc.kids += self.ctx_plans("BC_t")
            if i == 0:
                for q in zbc_ctx:
                    bc.kids.append(c_at_parent(q))
            z.kids.append(bc)
        # connectivities
        zgc_ctx = self.ctx_plans("ZoneGridConnectivity_t")
        made = []
        if zt == 2:
            for _ in range(rng.choice([0, 1, 2])):
                o = Plan("1to1", e_1to1, name=self.nm("One"), donor=rng.choice(zones)[0] if rng.random() < 0.7 else self.nm("Donor"))
                o.kids += self.ctx_plans("GridConnectivity1to1_t") + self.cprops()
                made.append(o)
        for _ in range(rng.choice([0, 1, 2])):
            d = rng.choice(zones)
            donor = (d[0], d[1])
            fits = [(ob, od) for ob, ozs in self.bases_done for od in ozs if len(ob) + 1 + len(od[0]) <= 32]   # cgi_check_strlen
            if fits and rng.random() < 0.6:                      # a donor zone of another base, named BaseName/ZoneName
                ob, od = rng.choice(fits)
                if "conn-donor-in-other-base-unreadable" not in self.avoid:
                    donor = (ob + b"/" + od[0], od[1])
            c = Plan("conn", e_conn, name=self.nm("Conn"), donor=donor)
            c.kids += self.ctx_plans("GridConnectivity_t") + self.cprops()
            made.append(c)
        for _ in range(rng.choice([0, 1])):
            h = Plan("hole", e_hole, name=self.nm("Hole"))
            h.kids += self.ctx_plans("OversetHoles_t")
            made.append(h)
        if made:
            for q in zgc_ctx:
                made[0].kids.append(c_at_parent(q))
        z.kids += made


def c_at_parent(q):
    """run plan q at the PARENT of the node it is scheduled under (ZoneBC / ZoneGridConnectivity exist once a child does)"""
    w = Plan(q.what, lambda g, par, p: q.fn(g, par.parent, q), **q.kw)
    w.inner = q
    w.pre, w.kids = q.pre, q.kids
    return w


def c_after(c):
    """a coordinate written after the GridCoordinates node (and its rind planes) exists: runs at the zone"""
    w = Plan(c.what, lambda g, par, p: c.fn(g, par.ctx["zone"], c), **c.kw)
    w.pre, w.kids = c.pre, c.kids
    return w


# read paths of the harness that a reported defect closes today: switched on (and their entities planned) once the witness of
# the defect no longer fails
OPT_OF_DEFECT = [("multifam-under-family-not-read-back", "multifam"),
                 ("particle-zone-multifam-not-countable", "pzone_multifam"),
                 ("particle-zone-integrals-not-countable", "pzone_integrals"),
                 ("slab-write-index-not-returned", "slab_index")]


def gen_scenario(rng, big, removed=(), avoid_complex=True, avoid=()):
    """-> (Gen with calls and expected tree, list of all plans)"""
    state = rng.getstate()
    names = Names(rng)
    pl = Planner(rng, names, big, avoid)
    tops = [pl.base() for _ in range(rng.choice([1, 1, 2]))]
    plans = [p for t in tops for p in t.walk()]
    for i in removed:
        if i < len(plans):
            plans[i].removed = True
    g = Gen(rng, big)
    g.names = names
    g.avoid_complex = avoid_complex
    g.avoid = pl.avoid
    g.opts = ["opt %s 1" % o for k, o in OPT_OF_DEFECT if k not in pl.avoid]
    g.schedule(tops)
    return g, plans, state


# ----------------------------------------------------------------------------------------------- running
CONFIGS = {        # name -> (cg_configure calls before the write session, before the read session)
    "adf": (["ft adf"], []),
    "hdf5": (["ft hdf5", "cfg reset 0", "cfg diskless_write 0"], []),
    # core VFD with write-through; read back through the core VFD (the write-through flag is refused for a read-only open)
    "hdf5-core": (["ft hdf5", "cfg reset 0", "cfg diskless 1", "cfg diskless_write 1", "cfg diskless_incr 65536"],
                  ["cfg diskless_write 0"]),
    # written through the core VFD, read with the default driver
    # (CG_CONFIG_RESET does not clear the write-through flag: it is cleared explicitly)
    "hdf5-core-w": (["ft hdf5", "cfg reset 0", "cfg diskless 1", "cfg diskless_write 1"], ["cfg diskless_write 0", "cfg diskless 0"]),
    "hdf5-align": (["ft hdf5", "cfg reset 0", "cfg diskless_write 0", "cfg alignment 1 4096", "cfg md_block 8192"], []),
    "hdf5-buffers": (["ft hdf5", "cfg reset 0", "cfg diskless_write 0", "cfg buffer 4096", "cfg sieve 1024", "cfg alignment 512 512"],
                     ["cfg reset 0"]),
}
# CG_CONFIG_HDF5_COMPRESS is not exercised: ADFH sets a deflate filter on datasets that are never chunked, so every
# H5Dcreate2 -- i.e. every write call, starting with cg_open (CG_MODE_WRITE) -- fails (notes/C01.md, side findings)


def impl_script(g, config, fname):
    pre, mid = CONFIGS[config]
    lines = list(pre) + list(g.opts) + ["open w " + fname] + [c[0] for c in g.calls] + ["close"] + list(mid) + ["dump " + fname, "read " + fname]
    return "\n".join(lines) + "\n"


def model_script(g):
    return "\n".join(["open w x"] + [c[0] for c in g.calls] + ["dump", "read"]) + "\n"


def canon_kind(path, last=0):
    """the path of an R line without indices (optionally only its last components): a stable description of where a
    mismatch is"""
    parts = [re.sub(r":\d+$", "", s) for s in path.split("/") if s]
    return "/".join(parts[-last:] if last else parts)


def judge(g, il, outcome, config):
    """model-independent oracle.  -> list of failures (dicts with a stable 'key')"""
    fails = []
    npre = len(CONFIGS[config][0]) + len(g.opts) + 1
    nmid = len(CONFIGS[config][1])
    pre = il[:npre]
    if outcome != "ok":
        fails.append({"key": "run-ended:" + outcome.split("@")[0], "what": "run ended: " + outcome, "last": il[-2:]})
    if any(l != "c 0" for l in pre):
        fails.append({"key": "setup-failed", "what": "configure / open failed", "got": pre})
        return fails
    ans = il[npre:npre + len(g.calls)]
    for i, c in enumerate(g.calls):
        got = ans[i] if i < len(ans) else None
        if got is None:
            break
        if got != c[1]:
            kind = "write-call-failed" if got.startswith("i fail") else "wrong-index"
            fails.append({"key": "%s:%s" % (kind, c[3]), "what": "a write call with valid arguments failed" if kind == "write-call-failed"
                          else "the index returned by a write call is not the position of the new entity",
                          "call": c[0][:300], "got": got, "expected": c[1], "at": i})
            if kind == "write-call-failed":
                return fails
    rest = il[npre + len(g.calls):]
    if not rest or rest[0] != "c 0":
        fails.append({"key": "close-failed", "what": "cg_close failed", "got": rest[:1]})
        return fails
    if any(l != "c 0" for l in rest[1:1 + nmid]):
        fails.append({"key": "setup-failed", "what": "configure before the read session failed", "got": rest[1:1 + nmid]})
        return fails
    ends = [l for l in rest if l.startswith("E read")]
    if not ends or not ends[0].startswith("E read ok:0"):
        msg = ends[0].split(None, 3)[3] if ends and len(ends[0].split(None, 3)) > 3 else ""
        msg = re.sub(r"\.+$", "", re.sub(r"\.{2,}.*$", "", msg))[:44]
        fails.append({"key": "reopen-failed:" + msg, "what": "cg_open(CG_MODE_READ) of the file just written failed", "got": ends})
        return fails
    for l in rest:
        if l.startswith("X "):
            w = l.split()
            fails.append({"key": "read-api-error:%s:%s" % (canon_kind(w[1], 2), w[2].split("(")[0]), "what": "a read call failed after reopen", "line": l[:300]})
    got = sorted(l for l in rest if l.startswith("R "))
    exp = sorted(expected_lines(g.root))
    if got != exp:
        gs, es = set(got), set(exp)
        gp = {l.split()[1]: l for l in got}
        ep = {l.split()[1]: l for l in exp}
        for pth in sorted(set(gp) | set(ep)):
            a, b = gp.get(pth), ep.get(pth)
            if a == b:
                continue
            if a is None:
                fails.append({"key": "missing-after-reopen:" + canon_kind(pth, 2), "what": "an entity that was written is not reported after reopen", "expected": b[:400]})
            elif b is None:
                fails.append({"key": "extra-after-reopen:" + canon_kind(pth, 2), "what": "an entity is reported that was not written", "got": a[:400]})
            else:
                wa, wb = a.split(), b.split()
                part = "name" if wa[2] != wb[2] else "value"
                fails.append({"key": "differs-after-reopen:%s:%s" % (canon_kind(pth, 2), part), "what": "what is reported after reopen differs from what was written",
                              "got": a[:400], "expected": b[:400]})
            if len(fails) > 8:
                break
    return fails


def correspond(il, ml, g, config):
    """model vs implementation: tree dump (tie i), reader's report (tie ii), indices, acceptance"""
    divs = []
    npre = len(CONFIGS[config][0]) + len(g.opts) + 1
    ians = il[npre:npre + len(g.calls)]
    mans = ml[:len(g.calls)]
    for i, (a, b) in enumerate(zip(ians, mans)):
        a2 = "i fail" if a.startswith("i fail") else a
        if a2 != b:
            divs.append({"what": "index / acceptance", "call": g.calls[i][0][:200], "impl": a, "model": b})
            break
    iN = [l for l in il if l.startswith("N ")]
    mN = [l for l in ml if l.startswith("N ")]
    if iN != mN:
        d = vlib.first_divergence(iN, mN)
        divs.append({"what": "tree written (cgio dump) vs enc", "impl": (d[1] or "")[:300], "model": (d[2] or "")[:300]})
    iR = sorted(l for l in il if l.startswith("R "))
    mR = sorted(l for l in ml if l.startswith("R "))
    if iR != mR:
        d = vlib.first_divergence(iR, mR)
        divs.append({"what": "reported after reopen vs api_fill (view ..)", "impl": (d[1] or "")[:300], "model": (d[2] or "")[:300]})
    me = [l for l in ml if l.startswith("E read")]
    if not me or me[0] != "E read wf=true dec=same":
        divs.append({"what": "the model rejects (wf) a call sequence the generator considers valid", "model": me})
    return divs


def run_case(exe, g, config, work, tag):
    fname = "c01_%s_%s.cgns" % (tag, config)
    p = os.path.join(work, fname)
    if os.path.exists(p):
        os.unlink(p)
    il, outcome = vlib.run_impl(exe, impl_script(g, config, fname), cwd=work, timeout=300)
    try:
        os.unlink(p)
    except OSError:
        pass
    return il, outcome


def shrink(exe, rng_state, big, config, work, key, budget=60, avoid_complex=True, avoid=()):
    """remove planned entities while the same failure key reproduces; -> (removed indices, calls)"""
    import random
    def build(removed):
        r = random.Random()
        r.setstate(rng_state)
        g, plans, _ = gen_scenario(r, big, removed, avoid_complex, avoid)
        return g, plans
    g, plans = build(())
    removed = []
    tests = 0
    order = sorted(range(len(plans)), key=lambda i: -len(list(plans[i].walk())))
    for i in order:
        if tests >= budget:
            break
        if any(i == j for j in removed) or plans[i].what == "base":
            continue
        cand = removed + [i]
        g2, _ = build(cand)
        il, outcome = run_case(exe, g2, config, work, "shrink")
        tests += 1
        if any(f["key"] == key for f in judge(g2, il, outcome, config)):
            removed = cand
    g2, _ = build(removed)
    return removed, g2


def witness_plans():
    """(finding key, what fails, plan tree, extra harness lines) for every defect reported in notes/C01.md"""
    def chain(*ps):
        for a, b in zip(ps, ps[1:]):
            a.kids.append(b)
        return ps[0]
    def base():
        return Plan("base", e_base, name=b"Base", cell=3, phys=3)
    def uzone():
        return Plan("zone", e_zone, name=b"Zone", zt=3, sizes=[8, 1, 0])
    out = []
    out.append(("complex-array-unreadable",
                "a ComplexSingle / ComplexDouble DataArray_t accepted by cg_array_write under a node whose arrays are loaded by cg_open "
                "(IntegralData_t, ReferenceState_t, ...) makes cg_open(CG_MODE_READ) fail: cgi_read_node allocates no buffer for X4 / X8",
                chain(base(), Plan("integral", e_integral, name=b"Int"), Plan("array", e_array, name=b"A", dt="X4", dims=[1])), []))
    out.append(("complex-array-children-lost",
                "the same under BCData_t, where cgi_read_bcdata ignores the status of cgi_read_array: the file opens, but the "
                "descriptors / units / exponents / conversion of the complex array are not reported",
                chain(base(), uzone(), Plan("boco", e_boco, name=b"BC"), Plan("dataset", e_dataset, name=b"DS"), Plan("bcdata", e_bcdata, ty=2),
                      Plan("array", e_array, name=b"A", dt="X8", dims=[1]), Plan("descriptor", e_descr, name=b"D")), []))
    out.append(("bc-array-not-read-back",
                "cg_array_write at a BC_t position (cgi_array_address hands out boco->normal) creates a DataArray_t node; cgi_read_boco "
                "only looks for an IndexArray_t named InwardNormalList, so the array is gone after reopen",
                chain(base(), uzone(), Plan("boco", e_boco, name=b"BC"), Plan("array", e_bc_normal_array)), []))
    out.append(("multifam-under-family-not-read-back",
                "cg_multifam_write is accepted at a Family_t position and writes an AdditionalFamilyName_t node; cgi_read_family collects "
                "FamilyName_t only and cg_nmultifam refuses a Family_t position",
                chain(base(), Plan("family", e_simple("family", "Family_t"), name=b"Fam"), Plan("multifam", e_multifam, name=b"Add")),
                ["opt multifam 1"]))
    out.append(("refstate-array-shape-unreadable",
                "cg_array_write accepts any shape under ReferenceState_t; cgi_read_state demands rank 1, size 1 and makes "
                "cg_open(CG_MODE_READ) fail otherwise",
                chain(base(), Plan("state", e_state), Plan("array", e_array, name=b"A", dt="R8", dims=[2])), []))
    out.append(("ziter-without-biter-dropped",
                "cg_ziter_write succeeds in a base without BaseIterativeData_t; cgi_read_zone skips ZoneIterativeData_t unless the base has "
                "one, so the node (and everything below it) is not reported after reopen",
                chain(base(), uzone(), Plan("ziter", e_ziter, name=b"ZIter")), []))
    out.append(("name-blanks-trimmed",
                "a node name with a leading or trailing blank (legal for cgi_check_strlen: 1..32 characters) is stored without it by "
                "both back ends: the entity is reported under another name than the one written (and the session mirror keeps the "
                "written one)",
                Plan("base", e_base, name=b" lead", cell=3, phys=3), []))
    out.append(("particle-eqset-under-base-not-written",
                "cg_particle_equationset_write at a CGNSBase_t position returns CG_OK without writing a node: cgi_particle_equations_address "
                "hands the address to a local variable that shadows nothing useful (`cgns_pequations *pequations = equations; "
                "ADDRESS4SINGLE(cgns_base, pequations, ...)`) and returns the untouched null pointer with *ier == 0; the in-memory "
                "base->pequations (id 0) then makes every later write below it fail, and cg_particle_equationset_read at a base reports "
                "CG_NODE_NOT_FOUND even for a file that has the node",
                chain(base(), Plan("particle_equationset", e_peqset)), []))
    def pzone():
        return Plan("particle", e_particle, name=b"PZone", n=3)
    out.append(("conn-donor-in-other-base-unreadable",
                "cg_conn_write accepts a donor zone of another base given as BaseName/ZoneName and cg_conn_info resolves such a "
                "name, but cg_conn_read looks the donor up by plain name among the zones of base B only: the donor points that "
                "were written cannot be read ('donor zone B1/ZoneB does not exist')",
                [chain(Plan("base", e_base, name=b"B1", cell=3, phys=3), Plan("zone", e_zone, name=b"ZoneB", zt=3, sizes=[8, 1, 0])),
                 chain(Plan("base", e_base, name=b"B2", cell=3, phys=3), Plan("zone", e_zone, name=b"ZoneA", zt=3, sizes=[8, 1, 0]),
                       Plan("conn", e_conn, name=b"Conn", donor=(b"B1/ZoneB", 3), ndonor=2))], []))
    out.append(("slab-write-index-not-returned",
                "cg_coord_partial_write / cg_coord_general_write / cg_field_partial_write / cg_field_general_write (and the particle "
                "variants) return the index of the array only from the call that CREATES it: cgi_array_general_write sets *A in "
                "the append branch only, so every further slab written into the same array leaves the caller's C / F output "
                "variable untouched -- the returned index does not designate the entity just written",
                chain(base(), uzone(), Plan("coord", e_coord, name=b"CoordinateX", dt="R8", slab="0:4:0,1:1:p")), ["opt slab_index 1"]))
    out.append(("ptset-solution-location-unreadable",
                "cg_sol_ptset_write / cg_discrete_ptset_write accept every location cgi_check_location allows (FaceCenter in a 3-D "
                "base, EdgeCenter in a 2-D / 3-D base); cgi_read_sol / cgi_read_discrete call cgi_datasize for the location before "
                "they look for the point set, and cgi_datasize fails with 'Location not yet supported': cg_open(CG_MODE_READ) of the "
                "file fails",
                chain(base(), uzone(), Plan("sol_ptset", e_sol_ptset, name=b"FaceSol", locs=[4])), []))
    out.append(("particle-zone-integrals-not-countable",
                "cg_integral_write is accepted at a ParticleZone_t position (cgi_integral_address) and cgi_read_particle loads the "
                "IntegralData_t nodes, but cg_nintegrals knows only CGNSBase_t and Zone_t: at a particle zone it returns "
                "CG_INCORRECT_PATH, so a reader cannot learn how many there are",
                chain(base(), pzone(), Plan("integral", e_integral, name=b"Int")), ["opt pzone_integrals 1"]))
    out.append(("particle-zone-multifam-not-countable",
                "cg_multifam_write is accepted at a ParticleZone_t position (cgi_multfam_address) and cgi_read_particle loads the "
                "AdditionalFamilyName_t nodes, but cg_nmultifam refuses a ParticleZone_t position (CG_INCORRECT_PATH)",
                chain(base(), pzone(), Plan("multifam", e_multifam, name=b"Add")), ["opt pzone_multifam 1"]))
    return out


def run_witnesses(ck, exe, work):
    """-> {key: witness} for the reported defects that still fail on the library under test"""
    import random
    active = {}
    for key, what, top, extra in witness_plans():
        for cf in ("adf", "hdf5"):
            g = Gen(random.Random(7), False)
            g.avoid_complex = False
            g.opts = list(extra)
            g.schedule(top if isinstance(top, list) else [top])
            fname = "c01_w_%s_%s.cgns" % (key[:20], cf)
            script = impl_script(g, cf, fname)
            il, outcome = vlib.run_impl(exe, script, cwd=work, timeout=120)
            try:
                os.unlink(os.path.join(work, fname))
            except OSError:
                pass
            fs = judge(g, il, outcome, cf)
            if fs and all(f["key"].startswith("write-call-failed") for f in fs):
                fs = []              # the call is refused cleanly: nothing was written that could get lost
            ck.cov["evaluations"] += 1
            ck.cov["traces_validated_against_impl"] += 1
            if fs and key not in active:
                active[key] = {"what": what, "config": cf, "script": script.split("\n"), "failure": fs[0]}
    return active


UNMODELLED = ["family-tree writers below a nested Family_t (cg_node_fambc_write, cg_node_geo_write, cg_node_part_write, "
              "cg_node_family_name_write); nested Family_t nodes themselves (cg_node_family_write) are modelled",
              "bounding boxes stored in the payload of GridCoordinates_t / ParticleCoordinates_t (cg_grid_bounding_box_write, "
              "cg_particle_bounding_box_write)",
              "further ZoneGridConnectivity_t nodes (cg_zconn_write / cg_zconn_set), cg_conn_write_short",
              "cg_ptset_write / cg_ptset_read at a ParticleSolution_t position (the particle API cg_particle_sol_ptset_* is used)",
              "partial / general writes as entities of their own (cg_*_partial_write, cg_*_general_write: property C05/C06/C10; "
              "here they only serve as a second way to produce the same array)",
              "links (cg_link_write: property C08)", "modify-mode overwrite and deletion (property C04)",
              "32-bit cgsize_t build and cross-build files"]


def run(ck):
    big = ck.tier == "thorough"
    vlib.build_impl()
    info = c01_templates.write_gen(repo=vlib.REPO)
    exe = vlib.build_harness("c01_rt", ["c01_rt.c"])
    res = vlib.coq_check_properties("C01")
    broken = ck.proof_result(res, CHECKER)
    forb = vlib.coq_forbidden_scan("C01")
    ck.extra["forbidden_tokens"] = forb
    if forb:
        ck.violation({"broken_obligation": "forbidden tokens in the C01 Coq files", "hits": forb}, nofail=True)
    ck.extra["translator"] = info
    engine_ok = True
    try:
        vlib.build_modelrun("c01")
    except vlib.Infra as e:
        if not broken:
            raise
        engine_ok = False
        ck.extra["engine_unavailable"] = str(e)[-400:]
    ck.cov["trusted_base"] = [
        "Coq 8.16.1 kernel + vm_compute (no native_compute)",
        "translators/c01_templates.py (token-level matcher of cgi_new_node / cgi_new_node_partial calls, cgi_get_nodes "
        "labels, data-type tests and the enumeration name tables; what it cannot classify becomes an Unparsed row)",
        "the hand transcription of each (cg_X_write, cgi_read_X) pair into a row of SidsCodec.spec / post_ok / effect_of "
        "(validated on every run by the correspondence: tree dump = enc, API report = api_fill (view ..))",
        "the node-tree abstraction: a file is the tree of (name, label, type, dims, bytes, ordered children) that a cgio walk "
        "shows (properties C02/C03 are about the back ends keeping that tree)",
        "extraction: ExtrOcamlBasic only; OCaml 4.13.1; ocaml/eng_c01.ml",
        "harness/c01_rt.c (API walker and cgio dumper), this generator's own expected tree, ASan/UBSan",
    ]
    ck.assumptions = [
        "64-bit build (cgsize_t = I8), little-endian host; file version = library version (no pre-4.0 upgrade paths)",
        "CG_MODE_WRITE sessions: sibling names are distinct, nothing is overwritten or deleted (property C04), no links (C08)",
        "names without leading / trailing blanks (ADF pads names with blanks), no '/', not '.' / '..'",
        "strings (descriptor text, donor and family names) contain no NUL byte and are not empty",
        "deprecated ElementList / ElementRange arguments of cg_boco_write (converted by design to PointList / PointRange + "
        "location) are not generated",
        "cross-node checks of the readers that the model does not transcribe (BCData array length vs patch size, "
        "InwardNormalList size, ParentElements length) are exercised by the correspondence only",
        "malloc never fails",
    ]
    ck.extra["unmodelled"] = UNMODELLED
    ck.extra["side_findings"] = [
        "cg_configure(CG_CONFIG_HDF5_COMPRESS, n >= 0): ADFH sets a deflate filter on datasets it never chunks, so every H5Dcreate2 "
        "fails -- cg_open(CG_MODE_WRITE) itself fails on HDF5 (configuration not exercised)",
        "cg_configure(CG_CONFIG_RESET, CG_CONFIG_RESET_HDF5) does not clear the core-VFD write-through flag "
        "(CG_CONFIG_HDF5_DISKLESS_WRITE): a later read-only open fails with 'invalid configuration option'",
        "a FAILED cg_descriptor_write (name, \"\") leaves a Descriptor_t node of type MT behind; the file can then not be opened "
        "any more ('Invalid datatype for character data: MT') -- the effect precedes the validation",
        "cgi_write_particle (reachable only from the unused cgi_write) writes ParticleIterativeData with cgi_write_ziter, i.e. "
        "under the label ZoneIterativeData_t",
        "cg_coord_write creates 'GridCoordinates' only while the zone has no GridCoordinates_t node at all: after "
        "cg_grid_write (.., 'OtherGrid') every cg_coord_write of that zone fails (order dependence of valid calls)",
        "cg_conn_write compares npnts (= 2 for a PointRange) with the zone size: a CellCenter PointRange on a one-cell zone is refused",
    ]
    ck.cov["rule"] = ("seeded random files: 1-2 bases (cell/phys dimension 1..3), 1-4 zones each (structured / unstructured), grid "
                      "coordinates (+ rind planes, extra GridCoordinates_t nodes), element sections (fixed size, MIXED, NGON_n, NFACE_n "
                      "with start offsets, parent data), flow solutions (+ location incl. I/J/KFaceCenter, rind) and fields (I4 I8 R4 "
                      "R8 X4 X8), BCs (+ PointRange / PointList, location, normal index / list, datasets, BCData arrays), 1to1 and "
                      "general connectivities (+ donor lists), overset holes (list / ranges), families (+ FamilyBC, geometry "
                      "references, parts, family names), descriptors, data class, units (5 / 8), exponents (5 / 8), conversion, "
                      "ordinal, family name, user-defined data nested to depth 3 with arrays of every type and rank 1..4; calls are "
                      "issued in a random interleaving that only respects parent-before-child; array elements mix random bits with "
                      "special patterns (NaN payloads, +-0, denormals, +-inf, extreme magnitudes); names 1..32 printable characters.  About three quarters of the coordinate / field / "
                      "section / general arrays are produced a second way -- written in 2..5 slabs along a random axis in random order "
                      "through cg_*_general_write (memory sub-range) / cg_*_partial_write / cg_section_partial_write + "
                      "cg_elements_partial_write -- with the same expected entity; half of the zones are large and every base holds six long "
                      "vectors (1-, 4-, 8-, 16-byte elements) behind descriptors of random length so that slab-written data span 4096-byte "
                      "blocks at every alignment.  "
                      "Tranche 2: discrete data, integral data, reference state, convergence history, rigid / arbitrary grid motion, base / zone "
                      "iterative data, simulation type, gravity, axisymmetry, rotating coordinates, equation set + governing equations.  "
                      "Tranche 3: particle zones (coordinates nodes and arrays, whole / point-set solutions and fields, iterative data, "
                      "equation set + governing equations + the five particle models, integral data, reference state), zone sub-regions "
                      "(point set / BC name / connectivity name, + location, rind, arrays), BC properties (wall function, area), "
                      "connectivity properties under 1to1 and general connectivities (periodic, average interface), the ten equation-set "
                      "models + diffusion model, FamilyBCDataSet_t + BCData, nested Family_t, AdditionalFamilyName_t under zone / BC / "
                      "sub-region / user data, point-set flow solutions and discrete data at every location cgi_check_location allows.  "
                      "Entities whose read path a reported, still failing defect closes are left out of the random files and come back by "
                      "themselves once the defect's witness passes (the harness option that opens the read path is then switched on).  "
                      "The first file of a run is written and read on ADF, HDF5 and four HDF5 configurations made through cg_configure (core "
                      "VFD read back through the core VFD and through the default driver, alignment + metadata block size, buffer / sieve "
                      "sizes), the others on ADF and HDF5 (thorough: all six for every file).  "
                      "non-trivial = an entity reported after reopen; distinct by (configuration, kind path without indices)")
    # ---- the defects already reported: still there?  (their triggers are then kept out of the random files, so that
    #      the correspondence and the oracle stay sharp for everything else)
    active = run_witnesses(ck, exe, ck.work)
    ck.extra["reported_defects_still_failing"] = sorted(active)
    for key, wit in sorted(active.items()):
        ck.finding(key, {"oracle": ORACLE, "witness": wit, "replay_hint": ".build/h/c01_rt < script (one command per line)"})
    avoid_complex = "complex-array-unreadable" in active or "complex-array-children-lost" in active
    avoid = frozenset(active)
    nsc = 60 if big else 3
    configs_all = list(CONFIGS)
    dist = {"files": 0, "calls": 0, "entities": 0, "functions": set(), "kinds": set(), "configs": {}}
    fails_seen, divs_seen = {}, []
    nslab = [0]

    def one(j, label, configs):
        import random
        rng = random.Random(ck.rng.getrandbits(64))
        g, plans, state = gen_scenario(rng, big, avoid_complex=avoid_complex, avoid=avoid)
        ml = vlib.run_model("c01", model_script(g)) if engine_ok else None
        exp = expected_lines(g.root)
        dist["calls"] += len(g.calls)
        nslab[0] += g.nslab
        dist["entities"] += len(exp)
        dist["functions"] |= g.kinds
        for l in exp:
            dist["kinds"].add(canon_kind(l.split()[1]).split("/")[-1])
        outs = {}
        for cf in configs:
            il, outcome = run_case(exe, g, cf, ck.work, "%s%d" % (label, j))
            outs[cf] = [l for l in il if l.startswith("R ")]
            dist["files"] += 1
            dist["configs"][cf] = dist["configs"].get(cf, 0) + 1
            ck.cov["traces_validated_against_impl"] += 1
            fs = judge(g, il, outcome, cf)
            for l in exp:
                ck.case((cf, canon_kind(l.split()[1])), sample={"config": cf, "reported": l[:160]} if len(ck.cov["samples"]) < 5 and "arr:" in l else None)
            for f in fs:
                if f["key"] not in fails_seen:
                    fails_seen[f["key"]] = {"failure": f, "config": cf, "state": state, "ncalls": len(g.calls)}
            if ml is not None and not fs:
                for d in correspond(il, ml, g, cf):
                    d["config"] = cf
                    divs_seen.append(d)
        base_cf = configs[0]
        for cf in configs[1:]:
            if sorted(outs[cf]) != sorted(outs[base_cf]) and "backend-disagree" not in fails_seen:
                d = vlib.first_divergence(sorted(outs[cf]), sorted(outs[base_cf]))
                fails_seen["backend-disagree"] = {"failure": {"key": "backend-disagree", "what": "two storage configurations report different data",
                                                              base_cf: (d[2] or "")[:300], cf: (d[1] or "")[:300]}, "config": cf, "state": state, "ncalls": len(g.calls)}

    for j in range(nsc):
        one(j, "s", configs_all if big or j == 0 else ["adf", "hdf5"])
    if (broken or divs_seen) and not fails_seen:
        for j in range(12 if not big else 20):          # widen the search
            one(j, "w", ["adf", "hdf5"])
            if fails_seen:
                break
    # ---- verdicts
    ck.extra["failure_keys"] = sorted(fails_seen)
    for n_rep, (key, w) in enumerate(sorted(fails_seen.items())):
        if n_rep >= 6:
            break
        wit = {"failure": w["failure"], "config": w["config"]}
        try:
            removed, g2 = shrink(exe, w["state"], big, w["config"], ck.work, key, budget=40 if n_rep < 3 else 0, avoid_complex=avoid_complex, avoid=avoid) \
                if key != "backend-disagree" else ([], None)
            if g2 is not None:
                wit["script"] = impl_script(g2, w["config"], "replay.cgns").split("\n")
                wit["calls_before_shrinking"] = w["ncalls"]
        except Exception as e:                          # shrinking is best effort
            wit["shrink_error"] = repr(e)[:200]
        ck.finding(key, {"oracle": ORACLE, "witness": wit, "broken_obligations": broken,
                         "replay_hint": ".build/h/c01_rt < script (one command per line)"})
    if not fails_seen and (broken or divs_seen):
        ck.violation({"broken_obligations": broken, "model_vs_implementation": divs_seen[:5],
                      "note": "an obligation over the regenerated writer / reader tables no longer checks, or the extracted model and the "
                              "library differ (tree written, report after reopen, returned index), but on every file explored the API "
                              "reported after reopen exactly what had been written, on every configuration, without sanitizer reports"},
                     nofail=True)
    dist["functions"] = sorted(dist["functions"])
    dist["kinds"] = sorted(dist["kinds"])
    dist["kinds_count"] = len(dist["kinds"])
    ck.extra["input_distribution"] = dist
    ck.extra["covered_entity_kinds"] = dist["kinds"]
    dist["arrays_written_in_slabs"] = nslab[0]
    ck.extra["model_vs_impl_divergences"] = len(divs_seen)


def replay(ck, path):
    r = json.load(open(path))
    vlib.build_impl()
    exe = vlib.build_harness("c01_rt", ["c01_rt.c"])
    w = r.get("witness") or {}
    script = w.get("script")
    if not script:
        print("replay names a broken obligation/correspondence, no input to run:", json.dumps(r)[:800])
        return 1
    il, outcome = vlib.run_impl(exe, "\n".join(script) + "\n", cwd=ck.work, timeout=300)
    f = w.get("failure", {})
    bad = outcome != "ok" or any(l.startswith("i fail") or l.startswith("X ") for l in il) or \
        not any(l.startswith("E read ok:0") for l in il)
    if f.get("got") and f["got"] in il:
        bad = True
    if f.get("expected") and f["expected"].startswith("R ") and f["expected"] not in il:
        bad = True
    print("replay: property C01 on this input: %s %s" % ("FAILS" if bad else "holds",
          json.dumps({"outcome": outcome, "key": r.get("finding_key"), "what": f.get("what")})))
    return 1 if bad else 0
