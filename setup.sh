#!/bin/sh
# setup.sh -- build the framework from files on disk only (offline): sanitizer build of the library under
# test, regenerated translator tables, full .vo build of the Coq development (which also extracts the models),
# the OCaml model runners.
set -e
cd "$(dirname "$0")"
python3 - <<'PY'
import sys, os, importlib, glob
sys.path.insert(0, os.getcwd())
import vlib
vlib.build_impl()
print("implementation built")
for f in sorted(glob.glob("checks/C*.py")):
    mod = importlib.import_module("checks." + os.path.basename(f)[:-3])
    if hasattr(mod, "pregen"):
        mod.pregen()
        print("regenerated tables for", os.path.basename(f)[:-3])
vlib.coq_setup()
print("coq development built")
for f in sorted(os.listdir("coq")):
    if f.startswith("Extract_") and f.endswith(".v"):
        print(vlib.build_modelrun(f[len("Extract_"):-2]))
PY
