#!/bin/sh
# setup.sh -- build the framework from files on disk only (offline): sanitizer build of the library under
# test, regenerated translator tables, full .vo build of the Coq development (which also extracts the models),
# the OCaml model runners.
set -e
cd "$(dirname "$0")"
python3 - <<'PY'
import sys, os, importlib, json
sys.path.insert(0, os.getcwd())
import vlib
claimed = [c["property_id"] for c in json.load(open("MANIFEST.json"))["checks"]]
vlib.build_impl()
print("implementation built")
for pid in claimed:
    mod = importlib.import_module("checks." + pid)
    if hasattr(mod, "pregen"):
        mod.pregen()
        print("regenerated tables for", pid)
# full .vo build of everything the claimed properties depend on (files of properties that are still being
# built are compiled too, but only a failure inside a claimed property's dependency closure fails the setup)
try:
    vlib.coq_setup()
    print("coq development built (all files)")
except vlib.Infra as e:
    print("note: some files outside the claimed properties do not build yet:", str(e)[:300])
for pid in claimed:
    res = vlib.coq_check_properties(pid)
    if not res["ok"]:
        print(res["log"][-3000:])
        sys.exit("Properties_%s.v does not check" % pid)
    print("Properties_%s.vo checked" % pid)
    if os.path.exists("coq/Extract_%s.v" % pid.lower()):
        print(vlib.build_modelrun(pid.lower()))
    if hasattr(importlib.import_module("checks." + pid), "presetup"):
        importlib.import_module("checks." + pid).presetup()
# second layers (C02b, C02c, C14b, C16b ...) and any other engine: prebuilt so that the first check run does not pay
# for it; a failure here is not fatal (the check that needs the engine builds it itself and reports)
import glob
for f in sorted(glob.glob("coq/Extract_*.v")):
    eng = os.path.basename(f)[8:-2]
    if eng.upper() in claimed:
        continue
    try:
        pf = "coq/Properties_%s.v" % (eng[0].upper() + eng[1:])
        if os.path.exists(pf):
            r = vlib.coq_check_properties(eng[0].upper() + eng[1:])
            print("Properties_%s.vo %s" % (eng, "checked" if r["ok"] else "DOES NOT CHECK (not a claimed property file)"))
        print(vlib.build_modelrun(eng))
    except Exception as e:
        print("note: engine %s not prebuilt: %s" % (eng, str(e)[:200]))
PY
