#!/bin/sh
# setup.sh -- build the framework from files on disk only (offline): sanitizer build of the library under
# test, regenerated translator tables, full .vo build of the Coq development (which also extracts the models),
# the OCaml model runners.
set -e
cd "$(dirname "$0")"
python3 - <<'PY'
import sys, os, importlib, json
sys.path.insert(0, os.getcwd())
import vlib
claimed = [c["property_id"] for c in json.load(open("MANIFEST.json"))["checks"]]
vlib.build_impl()
print("implementation built")
for pid in claimed:
    mod = importlib.import_module("checks." + pid)
    if hasattr(mod, "pregen"):
        mod.pregen()
        print("regenerated tables for", pid)
# full .vo build of everything the claimed properties depend on (files of properties that are still being
# built are compiled too, but only a failure inside a claimed property's dependency closure fails the setup)
try:
    vlib.coq_setup()
    print("coq development built (all files)")
except vlib.Infra as e:
    print("note: some files outside the claimed properties do not build yet:", str(e)[:300])
for pid in claimed:
    res = vlib.coq_check_properties(pid)
    if not res["ok"]:
        print(res["log"][-3000:])
        sys.exit("Properties_%s.v does not check" % pid)
    print("Properties_%s.vo checked" % pid)
    if os.path.exists("coq/Extract_%s.v" % pid.lower()):
        print(vlib.build_modelrun(pid.lower()))
    if hasattr(importlib.import_module("checks." + pid), "presetup"):
        importlib.import_module("checks." + pid).presetup()
PY
