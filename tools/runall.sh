#!/bin/bash
cd /verif
run() { ./check $1 --tier quick > /tmp/all_$1.log 2>&1; echo "$1 exit=$? $(grep -v '^KNOWN' /tmp/all_$1.log | tail -n 1)"; }
for grp in "C01 C02 C03 C04" "C05 C06 C07 C08" "C09 C10 C11 C12" "C14 C15 C16 C18" "C19 C20 C13" "C17"; do
  for c in $grp; do run $c & done; wait
done
