#!/usr/bin/env python3
"""keep_seed.py <worktree> <n> <id> <property> -- copy a confirmed seeded change into /verif/seeded/<id>/ with a meta.json skeleton"""
import json, os, shutil, sys
wt, n, sid, prop = sys.argv[1:5]
src = os.path.join(wt, "OUT", n); dst = os.path.join("/verif/seeded", sid)
os.makedirs(dst, exist_ok=True)
for f in os.listdir(src):
    if f.endswith((".diff", ".c", ".sh", ".md", ".h", ".py")) and os.path.getsize(os.path.join(src, f)) < 200000:
        shutil.copy(os.path.join(src, f), dst)
mp = os.path.join(dst, "meta.json")
meta = json.load(open(mp)) if os.path.exists(mp) else {}
meta.setdefault("property", prop)
meta.setdefault("change", ""); meta.setdefault("needs", "")
meta.setdefault("confirmed", "tools/verify_seed.sh in the author's scratch worktree: unchanged tree demo exit 0; with patch: builds, 24/24 ctest entries (= the 28 baseline results) pass, demo exits non-zero")
meta.setdefault("caught_by", "not run yet")
json.dump(meta, open(mp, "w"), indent=1)
print(dst, os.listdir(dst))
