#!/bin/bash
# try_seeded.sh <patch.diff> <tag> <Cxx> [<Cyy> ...] : run checks against a scratch copy of /repo with the patch
# applied (VERIF_REPO), without touching /repo.  Removes the scratch copy and its build dirs afterwards.
set -u
P=$(readlink -f $1); TAG=$2; shift 2
S=/tmp/mut_$TAG
rm -rf $S; mkdir -p $S
rsync -a --exclude _build --exclude .git /repo/ $S/
( cd $S && patch -p1 -s < $P ) || { echo "patch failed"; exit 2; }
cd /verif
mkdir -p /verif/.build
for c in "$@"; do
  # one mutant run per check at a time: the translator tables coq/Gen_<check>.v are shared files
  (
    flock -x 9
    VERIF_REPO=$S timeout 3000 ./check $c --tier ${TIER:-quick} > /tmp/mut_${TAG}_$c.log 2>&1; rc=$?
    echo "== $TAG $c exit=$rc"; grep -E "^VIOLATION|^KNOWN-FINDING|INFRA| ok | FAIL " /tmp/mut_${TAG}_$c.log | grep -v "^KNOWN-FINDING" | head -5
    # the translator tables were regenerated from the scratch copy: regenerate them from /repo
    python3 -c "
import sys; sys.path.insert(0,'/verif')
import importlib; m = importlib.import_module('checks.$c')
if hasattr(m, 'pregen'): m.pregen()
" >/dev/null 2>&1
  ) 9>/verif/.build/mutlock_$c
done
H=$(python3 -c "import hashlib,sys; print(hashlib.sha1(sys.argv[1].encode()).hexdigest()[:8])" $S)
rm -rf $S /verif/.build/cgns_$H /verif/.build/h_$H /verif/.build/cgns_f_$H /verif/.work/out_$H /verif/.work/*_$H
