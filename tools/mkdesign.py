#!/usr/bin/env python3
"""Assemble /verif/DESIGN.md from notes/design/ fragments, KNOWN_FINDINGS.txt, seeded/*/meta.json and MANIFEST.json."""
import glob, json, os, re
ROOT = os.path.dirname(os.path.dirname(os.path.abspath(__file__)))
D = os.path.join(ROOT, "notes", "design")
rd = lambda p: open(p).read() if os.path.exists(p) else ""
props = [json.loads(l) for l in open(os.path.join(ROOT, "properties.jsonl"))]
man = json.load(open(os.path.join(ROOT, "MANIFEST.json")))
claimed = [c["property_id"] for c in man["checks"]]

a3 = []
for p in props:
    f = os.path.join(D, "A3", p["id"] + ".md")
    body = rd(f).strip() or "*(check in construction; not claimed in MANIFEST.json yet — see A8)*"
    for extra in sorted(x for x in os.listdir(os.path.join(D, "A3")) if re.match(re.escape(p["id"]) + r"[a-z]\.md$", x)):
        body += "\n" + rd(os.path.join(D, "A3", extra)).strip()      # further layers of the same property (C02d.md, ...)
    a3.append("### %s — %s  [%s]\n\n%s\n" % (p["id"], p["title"], "claimed" if p["id"] in claimed else "not claimed", body))

# A6 from KNOWN_FINDINGS
fixed, known = [], []
for l in open(os.path.join(ROOT, "KNOWN_FINDINGS.txt")):
    m = re.match(r"fixed: property=(\S+) (\S+) (.*)", l)
    if m:
        fixed.append(m.groups())
    m = re.match(r"known: property=(\S+) key=(\S+) (.*)", l)
    if m:
        known.append(m.groups())
def short(t, n=230):
    t = t.strip()
    return t if len(t) <= n else t[:n].rsplit(" ", 1)[0] + " …"
a6 = ["**Repaired in /repo (%d `fix:` commits; each minimal, unguarded, the 28 tests still pass; the witness of each is a corpus / regression input of the check named):**\n" % len(fixed),
      "| property | commit | what failed |", "|---|---|---|"]
a6 += ["| %s | `%s` | %s |" % (p, c, short(w).replace("|", "\\|")) for p, c, w in fixed]
a6 += ["", "**Known findings (genuine, not repaired; the check prints `KNOWN-FINDING` for exactly this key and still reports any other violation):**\n",
       "| property | key | what fails / why not repaired |", "|---|---|---|"]
a6 += ["| %s | `%s` | %s |" % (p, k, short(w, 330).replace("|", "\\|")) for p, k, w in known]
a6.append("\n" + rd(os.path.join(D, "A6_false_alarms.md")).strip())

# A7 from seeded/*/meta.json
rows = []
for f in sorted(glob.glob(os.path.join(ROOT, "seeded", "*", "meta.json"))):
    m = json.load(open(f))
    fin = "-"
    ff = os.path.join(os.path.dirname(f), "final.json")
    if os.path.exists(ff):
        fj = json.load(open(ff))
        def word(r):
            if r["exit"] == 1 and r["violations"]:
                return "VIOLATION" + (" (no-failing-input-found)" if r["no_failing_input_found"] >= r["violations"] else "")
            return {0: "passes"}.get(r["exit"], "exit %d" % r["exit"])
        fin = "; ".join("%s %s" % (c, word(r)) for c, r in fj["results"].items()) + " @%s" % fj.get("repo_head", "?")
    rows.append("| `%s` | %s | %s | %s | %s | %s |" % (os.path.basename(os.path.dirname(f)), m.get("property"), short(m.get("change", ""), 200).replace("|", "\\|"),
                                            short(m.get("needs", ""), 200).replace("|", "\\|"), short(m.get("caught_by", "not run yet"), 260).replace("|", "\\|"), fin))
a7 = ["| seeded change | breaks | the change | needs, to manifest | caught by (check: how it reports; as recorded when the change was taken in) | last re-run of the quick tier (tools/final_seeds.py, seed 1) |", "|---|---|---|---|---|---|"] + rows
a7.append("\n" + rd(os.path.join(D, "A7_notes.md")).strip())

a8 = ["| property | reason it is not claimed |", "|---|---|"] + ["| %s | %s |" % (n["property_id"], n["reason"]) for n in man.get("not_applicable", [])]
if not man.get("not_applicable"):
    a8 = ["Every property is claimed."]

out = rd(os.path.join(D, "partA.md"))
out = out.replace("@@A3@@", "\n".join(a3)).replace("@@A5@@", rd(os.path.join(D, "A5.md")).strip())
out = out.replace("@@A6@@", "\n".join(a6)).replace("@@A7@@", "\n".join(a7)).replace("@@A8@@", "\n".join(a8))
out += rd(os.path.join(D, "partB.md"))
open(os.path.join(ROOT, "DESIGN.md"), "w").write(out)
print("DESIGN.md: %d lines" % out.count("\n"))
