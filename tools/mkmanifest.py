#!/usr/bin/env python3
"""Assemble /verif/MANIFEST.json from checks/Cxx.manifest.json fragments (one per claimed property)."""
import glob, json, os
ROOT = os.path.dirname(os.path.dirname(os.path.abspath(__file__)))
props = [json.loads(l)["id"] for l in open(os.path.join(ROOT, "properties.jsonl"))]
checks, served = [], []
ready = [l.strip() for l in open(os.path.join(ROOT, "checks", "READY")) if l.strip() and not l.startswith("#")]
for f in sorted(glob.glob(os.path.join(ROOT, "checks", "C*.manifest.json"))):
    c = json.load(open(f))
    pid = c["property_id"]
    if pid not in ready:          # fragment exists but the check is not yet accepted by the lead
        continue
    c.setdefault("quick_cmd", "./check %s --tier quick" % pid)
    c.setdefault("thorough_cmd", "./check %s --tier thorough" % pid)
    c.setdefault("evidence_file", "evidence/%s.json" % pid)
    c.setdefault("replay_cmd_template", "./check %s --replay {path}" % pid)
    c.setdefault("engine", "coq+correspondence")
    checks.append(c); served.append(pid)
na_file = os.path.join(ROOT, "checks", "not_applicable.json")
na_reasons = json.load(open(na_file)) if os.path.exists(na_file) else {}
hooks = json.load(open(os.path.join(ROOT, "checks", "hooks.json")))
m = {"version": 1, "setup_cmd": "./setup.sh", "hooks": hooks,
     "engines": [
         {"name": "coq", "path": "coq/", "serves_properties": served,
          "kind_free_text": "Coq 8.16.1 development: executable Gallina models, theorems (Properties_Cxx.v), extraction to OCaml"},
         {"name": "coq+correspondence", "path": "check", "serves_properties": served,
          "kind_free_text": "./check Cxx: rebuilds the library from /repo (ASan/UBSan), re-checks the Coq obligations, regenerates "
                            "translator tables, runs the extracted model against the implementation, searches for a failing input "
                            "with model-independent oracles"}],
     "checks": checks,
     "not_applicable": [{"property_id": p, "reason": na_reasons.get(p, "check not built yet (work in progress, DESIGN.md 7)")}
                        for p in props if p not in served],
     "notes": "DESIGN.md explains approach, trusted base, known findings and which seeded changes each check catches."}
json.dump(m, open(os.path.join(ROOT, "MANIFEST.json"), "w"), indent=1)
print("MANIFEST.json: %d checks, %d not claimed" % (len(checks), len(m["not_applicable"])))
