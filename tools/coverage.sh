#!/bin/bash
# coverage.sh : run every check (quick) against a scratch copy of /repo built with --coverage and report, per anchored
# source file, the functions of the library that no check executes.  A measurement for DESIGN.md (A9), not a check.
set -u
S=/tmp/cov_repo
rm -rf $S; mkdir -p $S; rsync -a --exclude _build --exclude .git /repo/ $S/
cd /verif
H=$(python3 -c "import hashlib; print(hashlib.sha1(b'$S').hexdigest()[:8])")
run() { VERIF_COV=1 VERIF_REPO=$S timeout 3000 ./check $1 --tier quick > /tmp/cov_$1.log 2>&1; echo "$1 exit=$?"; }
if [ -n "${COV_CHECKS:-}" ]; then for c in $COV_CHECKS; do run $c; done; else
for grp in "C01 C02 C03 C04" "C05 C06 C07 C08" "C09 C10 C11 C12" "C13 C14 C15 C16" "C17 C18 C19 C20"; do
  for c in $grp; do run $c & done; wait
done; fi
OBJ=/verif/.build/cgns_$H/src/CMakeFiles/cgns_static.dir
out=/verif/notes/coverage_functions.txt
: > $out
for f in cgnslib.c cgns_internals.c cgns_io.c cgns_error.c cg_hashmap.c adf/ADF_interface.c adf/ADF_internals.c adfh/ADFH.c; do
  o=$(find /verif/.build/cgns_$H -name "$(basename $f).gcda" | head -1)
  [ -z "$o" ] && { echo "## $f: no coverage notes found" >> $out; continue; }
  ( cd $(dirname $o) && gcov -f $(basename $o) 2>/dev/null ) | python3 -c "
import sys,re
fn=None; tot=0; zero=[]; filecov=''
for l in sys.stdin:
    m=re.match(r\"Function '(.*)'\", l)
    if m: fn=m.group(1); continue
    if l.startswith('File '): fn='#file'; continue
    m=re.match(r'Lines executed:([0-9.]+)% of (\d+)', l)
    if m and fn=='#file':
        if not filecov: filecov='%s%% of %s lines' % (m.group(1), m.group(2))
        fn=None; continue
    if m and fn:
        tot+=1
        if float(m.group(1))==0.0: zero.append((fn,int(m.group(2))))
        fn=None
print('## $f: %s executed; %d functions, %d never executed by any quick check' % (filecov, tot, len(zero)))
for n,k in sorted(zero): print('   %s (%d lines)' % (n,k))
" >> $out
done
python3 -c "
for c in ['C%02d'%i for i in range(1,21)]:
    import importlib,sys; sys.path.insert(0,'/verif')
    m=importlib.import_module('checks.'+c)
    if hasattr(m,'pregen'):
        try: m.pregen()
        except Exception as e: print(c,'pregen failed',e)
" > /dev/null 2>&1
[ -n "${COV_KEEP:-}" ] && { echo "kept /verif/.build/cgns_$H"; exit 0; }
rm -rf $S /verif/.build/cgns_$H /verif/.build/h_$H /verif/.build/cgns_f_$H /verif/.work/out_$H
echo COVERAGE-DONE; head -3 $out
