#!/bin/bash
# verify_seed.sh <worktree> <n> : confirm a seeded change in its scratch worktree:
#   unchanged: demo passes; changed: builds, 28/28 ctest pass, demo fails.  Prints a JSON summary line.
set -u
WT=$1; N=$2; OUT=$WT/OUT/$N; B=$WT/_build
cd "$WT" || exit 2
git checkout -q -- src 2>/dev/null
[ -f $B/build.ninja ] || cmake -G Ninja -S . -B _build -DCGNS_ENABLE_HDF5=ON -DCGNS_ENABLE_64BIT=ON -DCGNS_ENABLE_TESTS=ON -DCGNS_BUILD_CGNSTOOLS=OFF -DCMAKE_C_FLAGS=-Wno-error >/dev/null 2>&1
build() { cmake --build _build -j8 >/tmp/vs_build.$$ 2>&1; }
demo() {   # returns demo exit status
  if [ -f $OUT/demo.sh ]; then ( cd $OUT && WT=$WT bash ./demo.sh ) >/tmp/vs_demo.$$ 2>&1; return $?; fi
  H5=$(grep -o '[^ ]*libhdf5[^ ]*\.so' _build/build.ninja | head -1)
  cc -O1 -I$B/src -I$WT/src $OUT/demo.c -o /tmp/vs_demo_bin.$$ -L$B/src -lcgns ${H5:--lhdf5_serial} -lm >/tmp/vs_demo.$$ 2>&1 || return 99
  ( cd $OUT && LD_LIBRARY_PATH=$B/src timeout 300 /tmp/vs_demo_bin.$$ ) >>/tmp/vs_demo.$$ 2>&1
}
build || { echo '{"error":"unchanged build failed"}'; exit 2; }
demo; base=$?
git apply $OUT/patch.diff || { echo '{"error":"patch does not apply"}'; exit 2; }
if build; then bok=true; else bok=false; fi
ct=$(ctest --test-dir _build -j8 --timeout 900 2>&1 | grep -E "tests passed|tests failed" | tail -1)
demo; mut=$?
tail -n 5 /tmp/vs_demo.$$ > /tmp/vs_demo_tail.$$
git checkout -q -- src; build
printf '{"unchanged_demo_exit":%d,"changed_builds":%s,"changed_ctest":"%s","changed_demo_exit":%d}\n' $base $bok "$ct" $mut
echo "--- demo output with the change:"; cat /tmp/vs_demo_tail.$$
rm -f /tmp/vs_*.$$ /tmp/vs_demo_bin.$$
