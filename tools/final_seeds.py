#!/usr/bin/env python3
"""final_seeds.py [-j N] [ids...] : run every seeded change against the check of its own property (and the neighbouring
checks its meta.json names as catching it) on the CURRENT /repo and /verif, and record the outcome in
seeded/<id>/final.json.  Uses tools/try_seeded.sh (scratch copy of /repo, never /repo itself)."""
import json, os, re, subprocess, sys, concurrent.futures as cf
ROOT = os.path.dirname(os.path.dirname(os.path.abspath(__file__)))
def plan(sid):
    m = json.load(open(os.path.join(ROOT, "seeded", sid, "meta.json")))
    own = m["property"]
    cb = m.get("caught_by", "")
    others = []
    for c in re.findall(r"(C\d\d)[bcdf]? (?:quick|\()[^.;]*?(?:VIOLATION|obligation)", cb):
        if c != own and c not in others:
            others.append(c)
    skip = set(filter(None, os.environ.get("FINAL_SKIP", "").split(",")))
    return [c for c in [own] + others[:2] if c not in skip]
def run(sid):
    checks = plan(sid)
    if not checks:
        return sid, {"skipped": True}
    tag = "f" + sid.replace("-", "_")
    p = subprocess.run([os.path.join(ROOT, "tools", "try_seeded.sh"), os.path.join(ROOT, "seeded", sid, "patch.diff"), tag] + checks,
                       stdout=subprocess.PIPE, stderr=subprocess.STDOUT, text=True, cwd=ROOT, timeout=7200)
    res = {}
    cur = None
    for l in p.stdout.split("\n"):
        mm = re.match(r"== \S+ (C\d\d) exit=(\d+)", l)
        if mm:
            cur = mm.group(1); res[cur] = {"exit": int(mm.group(2)), "violations": 0, "no_failing_input_found": 0}
        elif l.startswith("VIOLATION") and cur:
            res[cur]["violations"] += 1
            if l.rstrip().endswith("no-failing-input-found"):
                res[cur]["no_failing_input_found"] += 1
        elif l.startswith("patch failed"):
            res["patch"] = "failed"
    head = subprocess.check_output(["git", "-C", "/repo", "rev-parse", "--short", "HEAD"], text=True).strip()
    fp = os.path.join(ROOT, "seeded", sid, "final.json")
    old = json.load(open(fp)) if os.path.exists(fp) else {"results": {}}
    old["results"].update(res); old["repo_head"] = head
    json.dump(old, open(fp, "w"), indent=1)
    return sid, res
if __name__ == "__main__":
    args = sys.argv[1:]; j = 5
    if args[:1] == ["-j"]:
        j = int(args[1]); args = args[2:]
    ids = args or sorted(d for d in os.listdir(os.path.join(ROOT, "seeded")) if os.path.exists(os.path.join(ROOT, "seeded", d, "patch.diff")))
    # interleave the properties: runs of one check are serialised by try_seeded.sh's lock, so neighbours in the queue
    # should belong to different checks
    by = {}
    for i in ids:
        by.setdefault(i.split("-")[0], []).append(i)
    ids = []
    while any(by.values()):
        for k in sorted(by):
            if by[k]:
                ids.append(by[k].pop(0))
    with cf.ThreadPoolExecutor(max_workers=j) as ex:
        for sid, res in ex.map(run, ids):
            print(sid, json.dumps(res), flush=True)
