#!/bin/bash
# proc_seed.sh <worktree> <n> <id> <prop> <checks...>
WT=$1; N=$2; ID=$3; P=$4; shift 4
cd /verif
echo "## $ID"; tools/verify_seed.sh $WT $N 2>&1 | grep -v "^WARNING" | head -2
tools/keep_seed.py $WT $N $ID $P > /dev/null; cp $WT/OUT/$N/*.sh $WT/OUT/$N/*.c seeded/$ID/ 2>/dev/null
tools/try_seeded.sh seeded/$ID/patch.diff t$ID "$@" 2>&1 | grep -v WARNING
