#!/usr/bin/env python3
"""c20_ftoc.py -- tie (T) of property C20: re-extract, from /repo's CURRENT sources, one table row per
Fortran-callable wrapper of src/cg_ftoc.c and src/cgio_ftoc.c and write coq/Gen_C20.v.

Method: both files are run through `cc -E` with the flags of the verification build (so FMNAME, STR_PSTR,
STR_PLEN, CGIO_MAX_* ... are expanded exactly as the compiler sees them); the text that originates from the file
itself (line markers) is tokenised; every external function definition is split into parameters and a small
statement tree; the facts below are read off the tree.  Nothing is decided here: the decision (row_ok) is a Gallina
function in coq/Ftoc.v evaluated by the Coq kernel.  Whatever cannot be classified becomes an `Unparsed` row or an
`Unknown` field, both of which make row_ok false -- nothing is skipped silently.

Per wrapper: parameter classes, hidden lengths (names, order), the library calls made (in order), the call of the
target function (argument by argument: dereference/cast/pass-through/&local/buffer, and the wrapper parameter it
comes from), how the status reaches the caller (*ier = ..., return, or dropped), for every Fortran string
parameter its direction, the C-side buffer (fixed size / heap sized from the hidden length / heap sized from a
queried length / allocated by the library), the max_len or length handed to the string helper, where the buffer
sits in the target call, whether a copy-back runs only after a zero status, and the &local -> *param copy-backs.
The prototypes of the target functions are read from the same preprocessed text (cgnslib.h, cgns_io.h).
"""
import os, re, subprocess, sys, hashlib, json

ROOT = os.path.dirname(os.path.dirname(os.path.abspath(__file__)))
FILES = ["cg_ftoc.c", "cgio_ftoc.c"]

TOK = re.compile(r"""
    (?P<ws>\s+)
  | (?P<str>"(?:\\.|[^"\\])*")
  | (?P<chr>'(?:\\.|[^'\\])*')
  | (?P<num>0[xX][0-9a-fA-F]+[uUlL]*|\d+\.?\d*(?:[eE][-+]?\d+)?[uUlLfF]*)
  | (?P<id>[A-Za-z_]\w*)
  | (?P<op>->|\+\+|--|<<=|>>=|<<|>>|<=|>=|==|!=|&&|\|\||\+=|-=|\*=|/=|%=|&=|\|=|\^=|\.\.\.|[-+*/%&|^~!<>=?:;,.()\[\]{}\#])
""", re.X)


def preprocess(repo, impl, fname):
    src = os.path.join(repo, "src", fname)
    cmd = ["cc", "-E", "-DCGNS_VERIF", "-I" + os.path.join(repo, "src"), "-I" + os.path.join(impl, "src"),
           "-I" + os.path.join(repo, "src", "adf"), "-I" + os.path.join(repo, "src", "adfh"),
           "-I/usr/include/hdf5/serial", src]
    p = subprocess.run(cmd, stdout=subprocess.PIPE, stderr=subprocess.PIPE, text=True, errors="replace")
    if p.returncode != 0:
        raise RuntimeError("cc -E %s failed: %s" % (fname, p.stderr[-1500:]))
    own, other, cur = [], [], None
    for l in p.stdout.split("\n"):
        m = re.match(r'# (\d+) "([^"]*)"', l)
        if m:
            cur = m.group(2)
            continue
        if cur is not None and os.path.abspath(cur) == os.path.abspath(src):
            own.append(l)
        else:
            other.append(l)
    return "\n".join(own), "\n".join(other)


def tokenize(text):
    out, i = [], 0
    while i < len(text):
        m = TOK.match(text, i)
        if not m:
            out.append(("op", text[i])); i += 1; continue
        i = m.end()
        k = m.lastgroup
        if k != "ws":
            out.append((k, m.group(k)))
    return out


def tv(toks):
    return [t[1] for t in toks]


def match_close(toks, i, open_, close):
    """toks[i] == open_ ; index of the matching close"""
    d = 0
    for j in range(i, len(toks)):
        if toks[j][1] == open_:
            d += 1
        elif toks[j][1] == close:
            d -= 1
            if d == 0:
                return j
    raise ValueError("unbalanced " + open_)


def split_top(toks, sep=","):
    parts, cur, d = [], [], 0
    for t in toks:
        if t[1] in "([{":
            d += 1
        elif t[1] in ")]}":
            d -= 1
        if t[1] == sep and d == 0:
            parts.append(cur); cur = []
        else:
            cur.append(t)
    if cur or parts:
        parts.append(cur)
    return parts


def const_eval(toks, env=None):
    """integer value of a constant expression (numbers, + - * parentheses, known int locals) or None"""
    s = []
    for k, v in toks:
        if k == "num" and re.fullmatch(r"\d+[uUlL]*", v):
            s.append(re.sub(r"[uUlL]", "", v))
        elif v in ("+", "-", "*", "(", ")"):
            s.append(v)
        elif k == "id" and env and v in env and env[v] is not None:
            s.append(str(env[v]))
        else:
            return None
    if not s:
        return None
    try:
        return int(eval(" ".join(s), {"__builtins__": {}}, {}))
    except Exception:
        return None


# ---------------------------------------------------------------------------- top level: function definitions
def top_functions(toks):
    """yield (header_tokens, body_tokens) of every function definition at brace depth 0"""
    i, start = 0, 0
    while i < len(toks):
        v = toks[i][1]
        if v == ";":
            start = i + 1
        elif v == "{":
            j = match_close(toks, i, "{", "}")
            hdr = toks[start:i]
            if hdr and hdr[-1][1] == ")":
                yield hdr, toks[i + 1:j]
            i = j
            start = j + 1
        i += 1


ENUMS = set()
TYPE_WORDS = {"char", "int", "double", "float", "void", "long", "short", "unsigned", "signed", "const", "size_t",
              "cgsize_t", "cgint_f", "cglong_t", "cgulong_t", "struct", "enum", "va_list", "MPI_Fint", "MPI_Comm",
              "MPI_Info", "hid_t"}


def type_class(ttoks):
    """class of a parameter / local type given its tokens without the declared name"""
    v = [x for x in tv(ttoks) if x not in ("const", "extern", "register", "volatile")]
    stars = v.count("*")
    base = [x for x in v if x != "*"]
    b = " ".join(base)
    if base and base[0] == "enum":
        b = "enum"
    if b in ENUMS:
        b = "enum"
    table = {("int", 0): "TInt", ("int", 1): "TIntP", ("cgint_f", 1): "TFIntP", ("cgint_f", 0): "TFInt",
             ("cgsize_t", 0): "TSize", ("cgsize_t", 1): "TSizeP", ("enum", 0): "TEnum", ("enum", 1): "TEnumP",
             ("double", 0): "TDouble", ("double", 1): "TDoubleP", ("float", 0): "TFloat", ("float", 1): "TFloatP",
             ("char", 1): "TStr", ("char", 2): "TStrP", ("void", 1): "TVoidP", ("size_t", 0): "THidden",
             ("cglong_t", 1): "TLongP", ("cgsize_t", 2): "TSizePP", ("int", 2): "TIntPP", ("void", 0): "TVoid"}
    return table.get((b, stars), "TOther")


def parse_param(ptoks):
    """-> (name, class) ; the declared name is the last identifier"""
    v = tv(ptoks)
    if v == ["void"] or not v:
        return None
    if v == ["..."]:
        return ("...", "TOther")
    arr = 0
    while ptoks and ptoks[-1][1] == "]":
        k = len(ptoks) - 1
        while ptoks[k][1] != "[":
            k -= 1
        ptoks = ptoks[:k]; arr += 1
    name = ptoks[-1][1] if ptoks[-1][0] == "id" and len(ptoks) > 1 else ""
    ttoks = ptoks[:-1] if name else ptoks
    ttoks = list(ttoks) + [("op", "*")] * arr
    return (name, type_class(ttoks))


# ---------------------------------------------------------------------------- statements
def parse_stmts(toks):
    out, i = [], 0
    while i < len(toks):
        s, i = parse_stmt(toks, i)
        if s is not None:
            out.append(s)
    return out


def parse_stmt(toks, i):
    k, v = toks[i]
    if v == ";":
        return None, i + 1
    if v == "{":
        j = match_close(toks, i, "{", "}")
        return ("block", parse_stmts(toks[i + 1:j])), j + 1
    if v == "if":
        j = match_close(toks, i + 1, "(", ")")
        cond = toks[i + 2:j]
        th, n = parse_stmt(toks, j + 1)
        el = None
        if n < len(toks) and toks[n][1] == "else":
            el, n = parse_stmt(toks, n + 1)
        return ("if", cond, th, el), n
    if v in ("for", "while"):
        j = match_close(toks, i + 1, "(", ")")
        body, n = parse_stmt(toks, j + 1)
        return (v, toks[i + 2:j], body), n
    if v == "do":
        body, n = parse_stmt(toks, i + 1)
        j = match_close(toks, n + 1, "(", ")")
        return ("while", toks[n + 2:j], body), j + 2
    if v in ("return", "goto", "break", "continue"):
        j = i
        while toks[j][1] != ";":
            j += 1
        return (v, toks[i + 1:j]), j + 1
    if k == "id" and i + 1 < len(toks) and toks[i + 1][1] == ":" :
        return ("label", v), i + 2
    # declaration or expression statement: up to the ';' at depth 0
    j, d = i, 0
    while True:
        if toks[j][1] in "([{":
            d += 1
        elif toks[j][1] in ")]}":
            d -= 1
        elif toks[j][1] == ";" and d == 0:
            break
        j += 1
    st = toks[i:j]
    is_decl = (k == "id" and (v in TYPE_WORDS or v in ENUMS) ) or \
              (k == "id" and len(st) > 1 and st[1][0] == "id")
    return (("decl" if is_decl else "expr"), st), j + 1


def find_calls(toks):
    """[(callee, [arg token lists], index of callee token)] for every call in an expression (nested included)"""
    res = []
    for i in range(len(toks) - 1):
        if toks[i][0] == "id" and toks[i + 1][1] == "(" and toks[i][1] not in ("sizeof", "if", "for", "while", "return") \
                and toks[i][1] not in TYPE_WORDS:
            j = match_close(toks, i + 1, "(", ")")
            res.append((toks[i][1], split_top(toks[i + 2:j]), i))
    return res


HELPERS_C = {"string_2_C_string": (0, 1, 2, 3), "to_c_string": (0, 1, 2, 3)}     # fptr, flen, buf, max
HELPERS_F = {"string_2_F_string": (0, 1, 2), "to_f_string": (0, 1, 2)}            # buf, fptr, flen
LIBC = {"strlen", "strncmp", "strcmp", "strcpy", "printf", "fprintf", "exit", "malloc", "free", "cgi_malloc",
        "cgi_error", "va_start", "va_end", "va_arg", "__builtin_va_start", "__builtin_va_end", "__builtin_va_arg",
        "new_c_string", "string_2_C_string", "string_2_F_string", "to_c_string", "to_f_string", "exit_on_error"}


def is_lib(name):
    return bool(re.match(r"(cg_|cgio_|cgp_|cgi_set_posit|cgi_update_posit|cgi_posit_index_dim)", name)) and name not in LIBC


def strip_cast(toks):
    """remove leading casts "(type)" and redundant outer parentheses; returns (tokens, [cast strings])"""
    casts = []
    while True:
        if toks and toks[0][1] == "(":
            j = match_close(toks, 0, "(", ")")
            inner = toks[1:j]
            iv = tv(inner)
            if j == len(toks) - 1 and not (iv and all((x in TYPE_WORDS or x in ENUMS or x == "*") for x in iv)):
                toks = inner
                continue
            if iv and all((x in TYPE_WORDS or x in ENUMS or x == "*") for x in iv) and j < len(toks) - 1:
                casts.append(" ".join(iv)); toks = toks[j + 1:]
                continue
        break
    return toks, casts


class Unp(Exception):
    pass


def analyse(fname, hdr, body, protos, statics):
    h = tv(hdr)
    lp = None
    d = 0
    for i in range(len(hdr) - 1, -1, -1):
        if hdr[i][1] == ")":
            d += 1
        elif hdr[i][1] == "(":
            d -= 1
            if d == 0:
                lp = i; break
    sym = hdr[lp - 1][1]
    rett = tv(hdr[:lp - 1])
    if "static" in rett:
        return None
    name = sym[:-1] if sym.endswith("_") else sym
    params = [parse_param(p) for p in split_top(hdr[lp + 1:-1])]
    params = [p for p in params if p is not None]
    pnames = [p[0] for p in params]
    # ---- hidden lengths: size_t/int parameters called Len<name>
    hidden = [(i, p[0][3:]) for i, p in enumerate(params) if p[0].startswith("Len") and p[1] in ("THidden", "TInt")]
    hid_idx = {n: k for k, (i, n) in enumerate(hidden)}
    first_hidden = min([i for i, _ in hidden], default=len(params))
    strparams = [p[0] for i, p in enumerate(params) if p[1] == "TStr" and i < first_hidden and p[0] in hid_idx]
    ptys = []
    for i, p in enumerate(params):
        if i >= first_hidden:
            ptys.append("THidden" if p[0].startswith("Len") else p[1])
        elif p[1] == "TStr" and p[0] in hid_idx:
            ptys.append("TFStr")
        else:
            ptys.append(p[1])
    stmts = parse_stmts(body)

    # ---- locals
    locs = {}      # name -> dict(kind=fixed|ptr|int|enum|arr|other, size=..., cls=...)
    consts = {}    # int locals with a single constant assignment

    def decl(st):
        v = tv(st)
        k = 0
        while k < len(st) and (v[k] in TYPE_WORDS or v[k] in ENUMS or (k == 0 and st[k][0] == "id")):
            k += 1
        base = st[:k]
        for d_ in split_top(st[k:]):
            init = None
            for q, t in enumerate(d_):
                if t[1] == "=":
                    init = d_[q + 1:]; d_ = d_[:q]; break
            stars = 0
            while d_ and d_[0][1] == "*":
                stars += 1; d_ = d_[1:]
            if not d_ or d_[0][0] != "id":
                continue
            nm = d_[0][1]
            dims = []
            rest = d_[1:]
            while rest and rest[0][1] == "[":
                j = match_close(rest, 0, "[", "]")
                dims.append(const_eval(rest[1:j])); rest = rest[j + 1:]
            cls = type_class(base + [("op", "*")] * stars)
            bv = [x for x in tv(base) if x != "const"]
            if bv == ["char"] and stars == 0 and len(dims) == 1:
                locs[nm] = {"kind": "fixed", "size": dims[0]}
            elif bv == ["char"] and stars >= 1:
                locs[nm] = {"kind": "ptr" if stars == 1 else "ptrptr", "assign": init}
            elif dims:
                locs[nm] = {"kind": "arr", "cls": cls, "size": dims[0]}
            else:
                locs[nm] = {"kind": "scalar", "cls": cls}
                if init is not None and cls == "TInt":
                    consts[nm] = init
            if init is not None:
                pending_assign.append((nm, init))

    pending_assign = []

    # ---- linear walk with a guard flag: True when the code is reached only if *ier == 0 since its last update
    events = []    # ("call", callee, args, stmt_tokens, guarded) | ("assign", lhs_tokens, rhs_tokens, guarded) | ...

    def is_ier_zero_return(cond, th):
        cv = tv(cond)
        if th is None:
            return False
        t = th
        if t[0] == "block" and len(t[1]) == 1:
            t = t[1][0]
        return t[0] in ("return", "break", "goto") and cv in (["*", "ier"], ["*", "ier", "!=", "0"])

    def cond_ier_ok(cond):
        cv = tv(cond)
        s = " ".join(cv)
        return s.startswith("! * ier") or s.startswith("* ier == 0")

    def walk(sts, guarded, inloop):
        for s in sts:
            if s[0] == "decl":
                decl(s[1])
                while pending_assign:
                    nm, init = pending_assign.pop(0)
                    guarded = visit_expr([("id", nm), ("op", "=")] + init, guarded, inloop)
            elif s[0] == "expr":
                guarded = visit_expr(s[1], guarded, inloop)
            elif s[0] == "block":
                guarded = walk(s[1], guarded, inloop)
            elif s[0] == "if":
                cond, th, el = s[1], s[2], s[3]
                guarded = visit_expr(cond, guarded, inloop, cond=True)
                if is_ier_zero_return(cond, th):
                    walk([th], guarded, inloop)
                    guarded = True
                elif cond_ier_ok(cond):
                    g_in = walk([th], True, inloop)
                    if el is not None:
                        walk([el], False, inloop)
                    guarded = guarded and g_in
                else:
                    g1 = walk([th], guarded, inloop)
                    g2 = walk([el], guarded, inloop) if el is not None else guarded
                    ends = lambda t: t is not None and (t[0] in ("return", "goto") or (t[0] == "block" and t[1] and t[1][-1][0] in ("return", "goto")))
                    if ends(th):
                        guarded = g2
                    else:
                        guarded = g1 and g2
            elif s[0] in ("for", "while"):
                for part in split_top(s[1], ";"):
                    guarded = visit_expr(part, guarded, True, cond=True)
                events.append(("loop", s[1], s[2]))
                guarded = walk([s[2]], guarded, True)
            elif s[0] == "return":
                events.append(("return", s[1], guarded))
                visit_expr(s[1], guarded, inloop)
            elif s[0] in ("goto", "break", "continue", "label"):
                if s[0] == "label":
                    guarded = False
        return guarded

    def visit_expr(toks, guarded, inloop, cond=False):
        if not toks:
            return guarded
        # assignment at top level?
        lhs = rhs = None
        d_ = 0
        for q, t in enumerate(toks):
            if t[1] in "([{":
                d_ += 1
            elif t[1] in ")]}":
                d_ -= 1
            elif t[1] == "=" and d_ == 0:
                lhs, rhs = toks[:q], toks[q + 1:]; break
        calls = find_calls(toks)
        for c in calls:
            events.append(("call", c[0], c[1], toks, guarded, inloop, lhs))
        if lhs is not None and not cond:
            events.append(("assign", lhs, rhs, guarded, inloop))
            if tv(lhs) == ["*", "ier"]:
                guarded = False
        for c in calls:
            if c[0] in ("string_2_C_string", "string_2_F_string", "new_c_string") and any(tv(a)[-1:] == ["ier"] for a in c[1]):
                guarded = False
        return guarded

    walk(stmts, False, False)

    # ---- constant int locals (e.g. len = 32+1)
    env = {}
    for e in events:
        if e[0] == "assign" and len(e[1]) == 1 and e[1][0][1] in locs and locs[e[1][0][1]].get("cls") == "TInt":
            nm = e[1][0][1]
            val = const_eval(e[2])
            env[nm] = val if nm not in env else None
    # ---- aliases of hidden lengths:  len = Lenx; length = (int)Lenx;
    hid_alias = {}
    ptr_alias = {}
    for e in events:
        if e[0] == "assign" and len(e[1]) == 1:
            nm = e[1][0][1]
            r, _ = strip_cast(e[2])
            if len(r) == 1 and r[0][1].startswith("Len") and r[0][1][3:] in hid_idx:
                hid_alias[nm] = r[0][1][3:]
            if len(r) == 1 and r[0][1] in strparams and nm in locs and locs[nm]["kind"] == "ptr":
                ptr_alias[nm] = r[0][1]
            if len(r) == 1 and r[0][1] in locs and nm in locs and locs[nm]["kind"] == "ptr" and locs[r[0][1]]["kind"] == "ptr":
                ptr_alias[nm] = ("loc", r[0][1])
    # user-length aliases: int i_name_len = (int)*name_len
    user_len = {}
    for e in events:
        if e[0] == "assign" and len(e[1]) == 1:
            r, _ = strip_cast(e[2])
            if len(r) == 2 and r[0][1] == "*" and r[1][1] in pnames:
                user_len[e[1][0][1]] = r[1][1]

    libcalls = [e for e in events if e[0] == "call" and is_lib(e[1])]
    base = name
    lower_target = re.sub(r"_f(_[01])?$", "", name).lower()
    # ---- the target: the library call named like the wrapper; else the library call whose value reaches *ier /
    #      return; else the only library call
    target = None
    cands = [e for e in libcalls if e[1].lower() == lower_target]
    if cands:
        target = cands[0][1]
    else:
        st = [e for e in libcalls if e[6] is not None and tv(e[6]) in (["*", "ier"], ["ier"])]
        if st:
            target = st[-1][1]
        elif libcalls:
            target = libcalls[-1][1]
    if target is None:
        raise Unp("no library call found")
    tcalls = [e for e in libcalls if e[1] == target]
    # several syntactic calls (mutually exclusive branches, see Ftoc.branching): describe the one that carries the most
    # parameters / locals (the other branches pass constants such as NULL and are counted in r_ncalls)
    def carried(e):
        return sum(1 for a in e[2] if any(t[0] == "id" and (t[1] in pnames or t[1] in locs) for t in a))
    tcall = max(tcalls, key=carried)
    pre = [e[1] for e in libcalls if e[1] != target]
    # ---- status
    lhs = tcall[6]
    if lhs is not None and tv(lhs) == ["*", "ier"]:
        ier = "IerStored"
    elif lhs is not None and tv(lhs) == ["ier"] and any(e[0] == "return" and tv(e[1]) == ["ier"] for e in events):
        ier = "IerReturned"
    elif lhs is None and tcall[3] and tcall[3][0][1] == target:
        ier = "IerVoid"
    elif lhs is None:
        ier = "IerVoid"
    else:
        ier = "IerMissing"
    has_ier_param = "ier" in pnames

    # ---- copy-backs and copy-ins:  *p = (T)i_x;   p[n] = (T)i_x[n];   i_x[n] = (int)p[n];
    copy_out, copy_in = {}, {}
    for e in events:
        if e[0] != "assign":
            continue
        l, r = e[1], strip_cast(e[2])[0]
        lv, rv = tv(l), tv(r)
        if len(lv) == 2 and lv[0] == "*" and lv[1] in pnames and len(rv) == 1 and rv[0] in locs:
            copy_out[rv[0]] = lv[1]
        if len(lv) >= 4 and lv[0] in pnames and lv[1] == "[" and rv and rv[0] in locs and locs[rv[0]]["kind"] in ("arr", "ptrptr", "scalar"):
            copy_out.setdefault(rv[0], lv[0])
        if len(lv) >= 4 and lv[0] in locs and lv[1] == "[" and rv and rv[0] in pnames:
            copy_in[lv[0]] = rv[0]

    # ---- strings
    strs = {}
    def buf_class(btoks, sparam, for_out):
        b, casts = strip_cast(btoks)
        bv = tv(b)
        if find_calls(b):
            c = find_calls(b)[0][0]
            return ("BLibStatic" if is_lib(c) else "BUnknown"), None
        root = bv[0] if bv else None
        if root in ptr_alias and isinstance(ptr_alias[root], tuple):
            root = ptr_alias[root][1]
        if root not in locs:
            return "BUnknown", None
        L = locs[root]
        if L["kind"] == "fixed" and len(bv) == 1:
            return ("BFixed %d" % L["size"] if L["size"] is not None else "BUnknown"), root
        if L["kind"] == "ptrptr" and len(bv) == 4 and bv[1] == "[" and bv[3] == "]":
            # element of a local array of strings:  X[n] = (char *)malloc(len * sizeof(char))  (possibly nested
            # inside the condition of an if)
            m = re.search(r"\b%s \[ \w+ \] = \( char \* \) malloc \( (\w+) \* sizeof \( char \) \)" % re.escape(root),
                          " ".join(tv(body)))
            if m:
                val = const_eval([("id", m.group(1))] if not m.group(1).isdigit() else [("num", m.group(1))], env)
                if val is not None:
                    return "BFixed %d" % val, root
            return "BUnknown", root
        if L["kind"] in ("ptr", "ptrptr"):
            # passed by address to the target -> allocated by the library
            for a in tcall[2]:
                if tv(a) == ["&", root]:
                    return "BLibAlloc", root
            # assigned from an allocation
            for e in events:
                if e[0] == "assign" and tv(e[1])[0:1] == [root]:
                    r = e[2]
                    cs = find_calls(r)
                    if not cs:
                        continue
                    c, args, _ = cs[0]
                    if c == "new_c_string":
                        continue
                    if c in ("cgi_malloc", "malloc"):
                        a0, _ = strip_cast(args[0])
                        av = tv(a0)
                        # X + 1
                        if len(av) == 3 and av[1] == "+" and av[2] == "1":
                            x = av[0]
                            if x in hid_alias and hid_alias[x] == sparam:
                                return "BHeapHidden1", root
                            if x in locs and any(tv(q) == ["&", x] for ee in libcalls for q in ee[2]):
                                return "BHeapQueried1", root
                        # count * (const)   or   const * sizeof(char)
                        parts = split_top(a0, "*")
                        vals = [const_eval(strip_cast(p)[0], env) for p in parts]
                        if len(parts) == 2 and tv(parts[1])[:1] == ["sizeof"] and vals[0] is not None:
                            return "BFixed %d" % vals[0], root
                        if len(parts) >= 2 and vals[-1] is not None and vals[0] is None:
                            return "BHeapArr %d" % vals[-1], root
                        if len(parts) == 1 and vals[0] is not None:
                            return "BFixed %d" % vals[0], root
            return "BUnknown", root
        return "BUnknown", root

    def note_str(sparam, direction, buf, blocal, slen, stride, guarded, order):
        key = (sparam, direction)
        if key in strs:
            old = strs[key]
            if (old["buf"], old["len"], old["stride"]) != (buf, slen, stride):
                raise Unp("string parameter %s converted twice with different shapes" % sparam)
            old["guarded"] = old["guarded"] and guarded
            return
        strs[key] = {"param": sparam, "dir": direction, "buf": buf, "blocal": blocal, "len": slen, "stride": stride,
                     "guarded": guarded, "order": order}

    def len_class(ltoks, sparam):
        l, _ = strip_cast(ltoks)
        lv = tv(l)
        c = const_eval(l)
        if c is not None:
            return "LConst %d" % c
        if len(lv) == 1:
            if lv[0] == "Len" + sparam or hid_alias.get(lv[0]) == sparam:
                return "LHidden"
            if lv[0] in user_len:
                return "LUser"
        return "LUnknown"

    order = 0
    new_c_locals = {}
    for e in events:
        if e[0] != "call":
            continue
        c, args, stoks, guarded = e[1], e[2], e[3], e[4]
        if c in HELPERS_C:
            fp, fl, bf, mx = [args[k] for k in HELPERS_C[c]]
            fpv = tv(strip_cast(fp)[0])
            sp = fpv[0] if fpv else None
            if sp in ptr_alias and not isinstance(ptr_alias[sp], tuple):
                sp = ptr_alias[sp]
            if sp not in strparams:
                raise Unp("%s: first argument %s is not a Fortran string parameter" % (c, " ".join(fpv)))
            if len_class(fl, sp) != "LHidden":
                raise Unp("%s(%s): length argument is not the hidden length" % (c, sp))
            b, bl = buf_class(bf, sp, False)
            note_str(sp, "SIn", b, bl, len_class(mx, sp), 0, True, order); order += 1
        elif c == "new_c_string":
            fpv = tv(strip_cast(args[0])[0])
            sp = fpv[0] if fpv else None
            if sp not in strparams or len_class(args[1], sp) != "LHidden":
                raise Unp("new_c_string: arguments are not (string parameter, its hidden length)")
            if not statics.get("new_c_string_ok"):
                raise Unp("new_c_string: helper body not recognised (malloc(len+1) + to_c_string(str,len,c_str,len))")
            bl = tv(e[6])[0] if e[6] is not None and len(e[6]) == 1 else None
            if bl is None:
                raise Unp("new_c_string result not stored in a local")
            new_c_locals[bl] = sp
            note_str(sp, "SIn", "BHeapHidden1", bl, "LHidden", 0, True, order); order += 1
        elif c in HELPERS_F:
            bf, fp, fl = [args[k] for k in HELPERS_F[c]]
            fpt = strip_cast(fp)[0]
            fpv = tv(fpt)
            sp = fpv[0] if fpv else None
            stride = 0
            if sp in ptr_alias and not isinstance(ptr_alias[sp], tuple):
                # walking pointer pf = names; pf += i_name_len
                inc = [x for x in events if x[0] == "expr+=" ]
                sp_real = ptr_alias[sp]
                stride = -1
                sp = sp_real
            elif len(fpv) == 3 and fpv[1] == "+":
                # names + step  with step = n * const
                stepv = None
                for x in events:
                    if x[0] == "assign" and tv(x[1]) == [fpv[2]]:
                        parts = split_top(x[2], "*")
                        vals = [const_eval(p, env) for p in parts]
                        if len(parts) == 2 and (vals[0] is None) != (vals[1] is None):
                            stepv = vals[0] if vals[0] is not None else vals[1]
                stride = stepv if stepv is not None else -2
            elif len(fpv) != 1:
                raise Unp("%s: destination %s not understood" % (c, " ".join(fpv)))
            if sp not in strparams:
                raise Unp("%s: destination %s is not a Fortran string parameter" % (c, sp))
            b, bl = buf_class(bf, sp, True)
            lc = len_class(fl, sp)
            if stride == -1 and lc == "LUser":
                # check the pointer really advances by the same user length
                adv = any(x[0] == "call" for x in [])  # placeholder (advance checked below)
            note_str(sp, "SOut", b, bl, lc, stride, guarded, order); order += 1

    # pointer advance for walking destinations (pf += len): must equal the length used
    body_txt = " ".join(tv(body))
    for (sp, d_), s in strs.items():
        if s["stride"] == -1:
            al = [k for k, v in ptr_alias.items() if v == sp]
            ok = any(re.search(r"\b%s \+= (\w+) ;" % re.escape(a), body_txt) and
                     re.search(r"\b%s \+= (\w+) ;" % re.escape(a), body_txt).group(1) in user_len for a in al)
            if not ok:
                s["stride"] = -2

    # every Fortran string parameter must have been converted one way or the other
    for sp in strparams:
        if not any(k[0] == sp for k in strs):
            if sp == "Data" or params[pnames.index(sp)][1] != "TStr":
                continue
            raise Unp("string parameter %s is never converted" % sp)

    # ---- target call arguments
    args_out = []
    for pos, a in enumerate(tcall[2]):
        t, casts = strip_cast(a)
        v = tv(t)
        kind, src = "KOther", -1
        if not v:
            continue
        if const_eval(t) is not None or (len(v) == 1 and (t[0][0] in ("str", "num"))) or (len(v) == 1 and v[0].isupper()):
            kind = "KConst"
        elif v[0] == "*" and len(v) == 2 and v[1] in pnames:
            src = pnames.index(v[1])
            if casts == ["int"]:
                kind = "KIntDeref"
            elif casts:
                kind = "KCastDeref"
            else:
                kind = "KDeref"
        elif len(v) == 1 and v[0] in pnames:
            kind, src = "KPass", pnames.index(v[0])
        elif v[0] == "&" and len(v) == 2 and v[1] in locs:
            kind = "KAddrLocal"
            if v[1] in copy_out:
                src = pnames.index(copy_out[v[1]])
            else:
                for s in strs.values():
                    if s["blocal"] == v[1]:
                        src = pnames.index(s["param"])
                        s.setdefault("carg", pos)
        elif len(v) == 1 and v[0] in locs:
            L = locs[v[0]]
            hit = [s for s in strs.values() if s["blocal"] == v[0]]
            if hit:
                kind, src = "KBuf", pnames.index(hit[0]["param"])
                hit[0].setdefault("carg", pos)
            elif L["kind"] == "arr" or L["kind"] == "ptrptr":
                kind = "KLocalArr"
                if v[0] in copy_out:
                    src = pnames.index(copy_out[v[0]])
                elif v[0] in copy_in:
                    src = pnames.index(copy_in[v[0]])
            elif L["kind"] == "scalar":
                kind = "KLocalVal"
            elif L["kind"] in ("fixed", "ptr"):
                kind = "KScratch"          # a C buffer that is not copied back to any parameter
        args_out.append((kind, src))
    for s in strs.values():
        s.setdefault("carg", -1)

    proto = protos.get(target)
    return {"name": name, "sym": sym, "ptys": ptys, "pnames": pnames, "strparams": strparams,
            "hiddens": [n for _, n in hidden], "hidden_last": all(i >= first_hidden for i, _ in hidden) and
            all(p[0].startswith("Len") for p in params[first_hidden:]),
            "target": target, "ncalls": len(tcalls), "ier": ier, "has_ier": has_ier_param, "pre": pre,
            "strs": sorted(strs.values(), key=lambda s: s["order"]), "args": args_out,
            "proto": proto if proto is not None else None, "copy_out": copy_out}


def parse_protos(text):
    """name -> [class] from the declarations in the included headers"""
    toks = tokenize(text)
    res = {}
    i, start = 0, 0
    while i < len(toks):
        v = toks[i][1]
        if v == "{":
            i = match_close(toks, i, "{", "}"); start = i + 1
        elif v == ";":
            st = toks[start:i]
            start = i + 1
            if st and st[-1][1] == ")" and "typedef" not in tv(st):
                d = 0
                for k in range(len(st) - 1, -1, -1):
                    if st[k][1] == ")":
                        d += 1
                    elif st[k][1] == "(":
                        d -= 1
                        if d == 0:
                            break
                nm = st[k - 1][1] if k >= 1 else None
                if nm and re.match(r"(cg_|cgio_|cgp_|cgi_)", nm):
                    ps = [parse_param(p) for p in split_top(st[k + 1:-1])]
                    res[nm] = [p[1] for p in ps if p is not None]
        i += 1
    return res


def collect_enums(text):
    for m in re.finditer(r"typedef\s+enum\s*\{[^}]*\}\s*(\w+)\s*;", text):
        ENUMS.add(m.group(1))
    for m in re.finditer(r"typedef\s+enum\s+\w+\s+(\w+)\s*;", text):
        ENUMS.add(m.group(1))


def check_statics(own_text):
    """the static helper new_c_string is described by a pattern (its two callees are modelled in Ftoc.v)"""
    m = re.search(r"static\s+char\s*\*\s*new_c_string\s*\(([^)]*)\)\s*\{(.*?)\n\}", own_text, re.S)
    ok = False
    if m:
        b = re.sub(r"\s+", " ", m.group(2))
        ok = bool(re.search(r"malloc \(len \+ 1\)", b)) and bool(re.search(r"to_c_string \(str, len, c_str, len\)", b))
    return {"new_c_string_ok": ok}


def q(s):
    return '"' + s.replace('"', "'") + '"'


def coq_list(xs):
    return "[" + "; ".join(xs) + "]"


def emit_row(f, r):
    strs = []
    for s in r["strs"]:
        strs.append("{| s_name := %s; s_pidx := %d; s_dir := %s; s_buf := %s; s_len := %s; s_stride := %s; s_carg := %s; "
                    "s_guarded := %s |}" % (q(s["param"]), r["pnames"].index(s["param"]), s["dir"], s["buf"], s["len"],
                                            zlit(s["stride"]), zlit(s["carg"]), "true" if s["guarded"] else "false"))
    args = ["(%s, %s)" % (k, zlit(sidx)) for k, sidx in r["args"]]
    proto = coq_list(r["proto"]) if r["proto"] is not None else "[TOther]"
    return ("Wrapper {| r_file := %s; r_name := %s; r_ptys := %s;\n    r_strparams := %s; r_hiddens := %s; r_hidden_last := %s;\n"
            "    r_target := %s; r_ncalls := %d; r_ier := %s; r_has_ier := %s; r_pre := %s;\n    r_strs := %s;\n"
            "    r_args := %s;\n    r_proto_known := %s; r_proto := %s |}" % (
                q(f), q(r["name"]), coq_list(r["ptys"]), coq_list([q(x) for x in r["strparams"]]),
                coq_list([q(x) for x in r["hiddens"]]), "true" if r["hidden_last"] else "false", q(r["target"]),
                r["ncalls"], r["ier"], "true" if r["has_ier"] else "false", coq_list([q(x) for x in r["pre"]]),
                coq_list(strs), coq_list(args), "true" if r["proto"] is not None else "false", proto))


def zlit(n):
    return "(%d)" % n if n < 0 else "%d" % n


def translate(repo, impl):
    rows, info = [], {"files": {}, "unparsed": [], "parsed": 0, "not_compiled": []}
    for f in FILES:
        own, other = preprocess(repo, impl, f)
        collect_enums(other)
        protos = parse_protos(other)
        statics = check_statics(own)
        toks = tokenize(own)
        nf, nu = 0, 0
        for hdr, body in top_functions(toks):
            try:
                r = analyse(f, hdr, body, protos, statics)
                if r is None:
                    continue
                rows.append((f, r, None)); nf += 1
            except Unp as e:
                nm = "?"
                for k in range(len(hdr) - 1):
                    if hdr[k + 1][1] == "(" and hdr[k][0] == "id":
                        nm = hdr[k][1]; break
                rows.append((f, None, (nm.rstrip("_"), str(e)))); nu += 1
            except Exception as e:           # anything unexpected is an Unparsed row, never a skipped one
                nm = "?"
                for k in range(len(hdr) - 1):
                    if hdr[k + 1][1] == "(" and hdr[k][0] == "id":
                        nm = hdr[k][1]; break
                rows.append((f, None, (nm.rstrip("_"), "translator exception %s: %s" % (type(e).__name__, e)))); nu += 1
        # wrappers present in the raw source but not compiled in this configuration (e.g. CG_BUILD_PARALLEL)
        raw = open(os.path.join(repo, "src", f), errors="replace").read()
        raw = re.sub(r"/\*.*?\*/", " ", raw, flags=re.S)
        rawnames = set()
        for m in re.finditer(r"^\s*(?:CGNSDLL|CGIODLL)\s+(?:void|int)\s+(?:__stdcall\s+)?(?:FMNAME\s*\(\s*(\w+)|(\w+))", raw, re.M):
            rawnames.add(m.group(1) or m.group(2))
        have = {(r["name"] if r else u[0]) for _, r, u in rows}
        missing = sorted(n for n in rawnames if n not in have)
        info["files"][f] = {"parsed": nf, "unparsed": nu, "in_source_not_compiled": missing,
                            "new_c_string_pattern_ok": statics["new_c_string_ok"] if f == "cgio_ftoc.c" else None}
        info["not_compiled"] += missing
    info["parsed"] = sum(1 for _, r, _ in rows if r)
    info["unparsed"] = [{"file": f, "name": u[0], "reason": u[1]} for f, r, u in rows if u]
    lines = ["(* GENERATED on every run by translators/c20_ftoc.py from the current src/cg_ftoc.c and src/cgio_ftoc.c",
             "   (preprocessed with the flags of the verification build).  Never edit, never commit. *)",
             "From Coq Require Import ZArith List String.", "From CgnsV Require Import Ftoc.", "Import ListNotations.",
             "Local Open Scope string_scope.", "Local Open Scope Z_scope.", "",
             "Definition table : list row := ["]
    body = []
    for f, r, u in rows:
        if r:
            body.append("  " + emit_row(f, r))
        else:
            body.append("  Unparsed %s %s" % (q(u[0]), q(u[1][:200])))
    lines.append(";\n".join(body))
    lines.append("].")
    lines.append("")
    lines.append("Definition n_rows : Z := %d." % len(rows))
    text = "\n".join(lines) + "\n"
    return text, info, rows


def write_gen(repo=None, impl=None, out=None):
    repo = repo or os.environ.get("VERIF_REPO", "/repo")
    if impl is None:
        tag = "" if repo == "/repo" else "_" + hashlib.sha1(repo.encode()).hexdigest()[:8]
        impl = os.path.join(ROOT, ".build", "cgns" + tag)
    out = out or os.path.join(ROOT, "coq", "Gen_C20.v")
    text, info, rows = translate(repo, impl)
    if not os.path.exists(out) or open(out).read() != text:
        open(out, "w").write(text)
        info["gen_changed"] = True
    else:
        info["gen_changed"] = False
    info["gen_sha1"] = hashlib.sha1(text.encode()).hexdigest()
    return info, rows


if __name__ == "__main__":
    info, rows = write_gen()
    json.dump(info, sys.stdout, indent=1)
    print()
