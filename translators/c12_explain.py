#!/usr/bin/env python3
"""c12_explain.py -- a Python mirror of the decidable predicates of coq/Validate.v (prepare, T, C, V, guarded, NS), run on
the JSON form of the table that c12_validate.py produces.  It DECIDES NOTHING for the check: the verdicts come from the Coq
kernel (Properties_C12.v) and from the dynamic oracle.  It is used (a) to name the source line of the statement that makes a
function fail an obligation (the Coq table carries no line numbers), for the notes and the replay files, and (b) as a
cross-check: the name lists computed here must equal the lists the extracted Coq functions compute (checks/C12.py compares
them; a difference is reported as a broken tie).
"""
import json, os, sys

ROOT = os.path.dirname(os.path.dirname(os.path.abspath(__file__)))

PRIM_EFFECTS = set("""ADF_Create ADF_Delete ADF_Put_Name ADF_Move_Child ADF_Link ADF_Set_Label ADF_Put_Dimension_Information
ADF_Write_All_Data ADF_Write_Block_Data ADF_Write_Data ADFH_Create ADFH_Delete ADFH_Put_Name ADFH_Move_Child ADFH_Link
ADFH_Set_Label ADFH_Put_Dimension_Information ADFH_Write_All_Data ADFH_Write_Block_Data ADFH_Write_Data unlink rename remove
fwrite write fputs fputc mkstemp""".split())
BENIGN_EXTERNS = set("""ADF_Database_Open ADF_Database_Close ADF_Flush_to_Disk ADF_Library_Version ADF_Database_Version
ADF_Error_Message ADF_Is_Link ADF_Link_Size ADF_Get_Link_Path ADF_Number_of_Children ADF_Children_IDs ADF_Children_Names
ADF_Get_Node_ID ADF_Get_Name ADF_Get_Label ADF_Get_Data_Type ADF_Get_Number_of_Dimensions ADF_Get_Dimension_Values
ADF_Read_All_Data ADF_Read_Block_Data ADF_Read_Data ADF_Release_ID ADF_Get_Root_ID ADFH_Database_Open ADFH_Database_Close
ADFH_Flush_to_Disk ADFH_Library_Version ADFH_Database_Version ADFH_Error_Message ADFH_Is_Link ADFH_Link_Size
ADFH_Get_Link_Path ADFH_Number_of_Children ADFH_Children_IDs ADFH_Children_Names ADFH_Get_Node_ID ADFH_Get_Name
ADFH_Get_Label ADFH_Get_Data_Type ADFH_Get_Number_of_Dimensions ADFH_Get_Dimension_Values ADFH_Read_All_Data
ADFH_Read_Block_Data ADFH_Read_Data ADFH_Release_ID ADFH_Get_Root_ID ADFH_Configure cgi_new_presized_hashmap cgi_map_get_item
cgi_map_set_item cgi_map_contains cgi_map_del_shift_item cgi_hashmap_clear crealf cimagf creal cimag lstat readlink
cgns_error_handler""".split())
COUNTED = {"Handle", "Open", "ModeR", "ModeW", "ModeM", "Index", "Name", "Enum", "Range", "Null"}


def load_benign(coq_dir):
    """benign_stores of Validate.v (the single source of truth), parsed from the file"""
    import re
    txt = open(os.path.join(coq_dir, "Validate.v")).read()
    m = re.search(r"Definition benign_stores[^=]*:=\s*\[(.*?)\]\.", txt, re.S)
    return [(a, b) for a, b in re.findall(r'\("([^"]*)",\s*"([^"]*)"\)', m.group(1))] if m else []


class Explain:
    def __init__(self, d, coq_dir=None):
        self.d = d
        self.F = {}
        for f in d["functions"]:
            self.F.setdefault(f["name"], f)
        self.benign = load_benign(coq_dir or os.path.join(ROOT, "coq"))
        self.api = {a["name"] for a in d["api"] if a["defined"]}
        self.prepared = False

    # ---- basics
    def is_prim(self, name):
        return name not in self.F and (name in PRIM_EFFECTS or name not in BENIGN_EXTERNS)

    def is_benign(self, fname, tgt):
        return any(fname == a and tgt.startswith(b) for a, b in self.benign)

    @staticmethod
    def tgt(a0, c):
        return "CR" if a0 == "R" else (c if a0 == "P" else "CW")

    def callee(self, a):
        if a["k"] in ("check", "call") and a.get("callee"):
            return a["callee"], (a.get("arg0") if a["k"] == "call" else None)
        return None

    def counted(self, a):
        return a["k"] == "check" and a["v"] in COUNTED

    # ---- prepare (re-validations)
    def key(self, a):
        return (a.get("callee") or 1, tuple(a.get("ids", [])))

    @staticmethod
    def key_valid(k):
        return k[0] != 1 and all(t != 1 for t in k[1])

    @staticmethod
    def relevant(it):
        return it[1] or any(2 <= t < 100 for t in it[0][1])

    def live(self, est, cal, ids, Sm):
        out = []
        for (kc, toks), alw in Sm.get(cal, []):
            tt = tuple((ids[t - 2] if t - 2 < len(ids) else 1) if 2 <= t < 100 else t for t in toks)
            it = ((kc, tt), alw)
            if self.relevant(it) and not (self.key_valid(it[0]) and it[0] in est):
                if it not in out:
                    out.append(it)
        return out

    def prep(self, est, l, Sm, mark):
        """-> (est_out or None, items); sets a['fresh'] / a['mayinv'] when mark"""
        items = []

        def add(its):
            for x in its:
                if x not in items:
                    items.append(x)
        est = list(est)
        for s in l:
            k = s["s"]
            if k in ("ret", "brk"):
                return None, items
            if k == "act":
                a = s["a"]
                if a["k"] == "call" and mark:
                    a["mayinv"] = bool(self.live(est, a["callee"], a.get("ids", []), Sm))
                continue
            if k == "iffail":
                a = s["a"]
                if a["k"] == "check":
                    ky = self.key(a)
                    red = self.key_valid(ky) and ky in est
                    if mark:
                        a["fresh"] = not red
                    et, it = self.prep(est, s["t"], Sm, mark)
                    ee, ie = self.prep(est + [ky] if self.key_valid(ky) and ky not in est else est, s["e"], Sm, mark)
                    estk = ee if red else self.ometa(et, ee)
                    if not red and self.counted(a):
                        add([((1, tuple(p + 2 for p in a["args"])) if not a.get("callee") else ky,
                              a["v"] in ("ModeR", "ModeW", "ModeM", "Open"))])
                    if not red:
                        add(it)
                    add(ie)
                elif a["k"] == "call":
                    lv = self.live(est, a["callee"], a.get("ids", []), Sm)
                    if mark:
                        a["mayinv"] = bool(lv)
                    et, it = self.prep(est, s["t"], Sm, mark)
                    ee, ie = self.prep(est, s["e"], Sm, mark)
                    estk = self.ometa(et, ee)
                    add(lv); add(it); add(ie)
                else:
                    et, it = self.prep(est, s["t"], Sm, mark)
                    ee, ie = self.prep(est, s["e"], Sm, mark)
                    estk = self.ometa(et, ee)
                    add(it); add(ie)
                if estk is None:
                    # the continuation is unreachable; Coq still scans it from `est`
                    _, ik = self.prep(est, l[l.index(s) + 1:], Sm, mark)
                    add(ik)
                    return None, items
                est = estk
            elif k in ("if", "iflm"):
                et, it = self.prep(est, s["t"], Sm, mark)
                ee, ie = self.prep(est, s["e"], Sm, mark)
                add(it); add(ie)
                estk = self.ometa(et, ee)
                if estk is None:
                    _, ik = self.prep(est, l[l.index(s) + 1:], Sm, mark)
                    add(ik)
                    return None, items
                est = estk
            elif k == "loop":
                _, ib = self.prep(est, s["b"], Sm, mark)
                add(ib)
        return est, items

    @staticmethod
    def ometa(a, b):
        if a is None:
            return b
        if b is None:
            return a
        return [k for k in a if k in b]

    def prepare(self):
        Sm = {}
        for _ in range(40):
            new = {n: self.prep([], f["body"], Sm, False)[1] for n, f in self.F.items()}
            if sum(len(v) for v in new.values()) == sum(len(v) for v in Sm.values()):
                Sm = new
                break
            Sm = new
        self.Sm = Sm
        for n, f in self.F.items():
            self.prep([], f["body"], Sm, True)
        self.prepared = True

    # ---- T
    def touch_act(self, fname, a, c, T):
        k = a["k"]
        if k == "mirror":
            return not self.is_benign(fname, a["tgt"])
        if k == "unparsed":
            return True
        ce = self.callee(a)
        if ce:
            return self.is_prim(ce[0]) or (ce[0], self.tgt(ce[1], c)) in T
        return False

    def may_touch(self, fname, l, c, T):
        for s in l:
            k = s["s"]
            if k == "act" and self.touch_act(fname, s["a"], c, T):
                return True
            if k == "iffail" and (self.touch_act(fname, s["a"], c, T) or self.may_touch(fname, s["t"], c, T) or self.may_touch(fname, s["e"], c, T)):
                return True
            if k == "if" and (self.may_touch(fname, s["t"], c, T) or self.may_touch(fname, s["e"], c, T)):
                return True
            if k == "iflm" and self.may_touch(fname, s["e"] if c == "CR" else s["t"], c, T):
                return True
            if k == "loop" and self.may_touch(fname, s["b"], c, T):
                return True
            if k in ("ret", "brk"):
                return False
        return False

    def closure_T(self):
        T = set()
        chg = True
        while chg:
            chg = False
            for n, f in self.F.items():
                for c in ("CR", "CW"):
                    if (n, c) not in T and self.may_touch(n, f["body"], c, T):
                        T.add((n, c)); chg = True
        return T

    # ---- vscan
    def fail_clean(self, a, c, T, C):
        ce = self.callee(a)
        if not ce:
            return True
        i, t = ce[0], self.tgt(ce[1], c)
        return not self.is_prim(i) and ((i, t) not in T or (i, t) in C)

    def vscan(self, fname, l, c, g, seen, allf, T, C, V, why):
        """-> None (violation; why gets the line) or (fall_seen, brk_seen)"""
        brk = False
        for idx, s in enumerate(l):
            k = s["s"]
            if k == "ret":
                if s["r"] in ("Err", "Var") and (g or allf) and seen:
                    why.append(("failing return after a possible effect", s["line"]))
                    return None
                return (False, brk)
            if k == "brk":
                return (False, brk or seen)
            if k == "act":
                if not seen and self.touch_act(fname, s["a"], c, T):
                    self.first_touch = (s["a"].get("tgt") or s["a"].get("callee") or s["a"]["k"], s["a"].get("line"))
                seen = seen or self.touch_act(fname, s["a"], c, T)
                continue
            if k == "iffail":
                a = s["a"]
                tch = self.touch_act(fname, a, c, T)
                if not seen and tch:
                    self.first_touch = (a.get("callee") or a["k"], a.get("line"))
                if a["k"] == "call":
                    r1 = (False, False)
                    if a.get("mayinv", True):
                        r1 = self.vscan(fname, s["t"], c, True, seen or (tch and not self.fail_clean(a, c, T, V)), allf, T, C, V, why)
                        if r1 is None:
                            why.append(("... in the failing arm of the call of %s (it may return at a failing validation)" % a["callee"], a["line"]))
                            return None
                    r2 = self.vscan(fname, s["t"], c, False, seen or (tch and not self.fail_clean(a, c, T, C)), allf, T, C, V, why)
                    if r2 is None:
                        return None
                    ra = (r1[0] or r2[0], r1[1] or r2[1])
                elif a["k"] == "check" and not a.get("fresh", True):
                    ra = (False, False)
                else:
                    ra = self.vscan(fname, s["t"], c, self.counted(a), seen or (tch and not self.fail_clean(a, c, T, C)), allf, T, C, V, why)
                    if ra is None:
                        why.append(("... in the failing arm of the check %s" % (a.get("callee") or a.get("text")), a["line"]))
                        return None
                re_ = self.vscan(fname, s["e"], c, g, seen or tch, allf, T, C, V, why)
                if re_ is None:
                    return None
                seen = ra[0] or re_[0]
                brk = brk or ra[1] or re_[1]
            elif k == "if":
                r1 = self.vscan(fname, s["t"], c, g, seen, allf, T, C, V, why)
                r2 = self.vscan(fname, s["e"], c, g, seen, allf, T, C, V, why) if r1 is not None else None
                if r1 is None or r2 is None:
                    return None
                seen = r1[0] or r2[0]
                brk = brk or r1[1] or r2[1]
            elif k == "iflm":
                r1 = self.vscan(fname, s["e"] if c == "CR" else s["t"], c, g, seen, allf, T, C, V, why)
                if r1 is None:
                    return None
                seen = r1[0]
                brk = brk or r1[1]
            elif k == "loop":
                r1 = self.vscan(fname, s["b"], c, g, seen, allf, T, C, V, why)
                if r1 is None:
                    return None
                if (not r1[0]) or seen:
                    seen = seen or r1[1]
                else:
                    if self.vscan(fname, s["b"], c, g, True, allf, T, C, V, why) is None:
                        why.append(("... in a later iteration of the loop", 0))
                        return None
                    seen = True
        return (seen, brk)

    def gfix(self, ok):
        S = {(n, c) for n in self.F for c in ("CR", "CW")}
        while True:
            S2 = {(n, c) for (n, c) in S if ok(S, n, c)}
            if len(S2) == len(S):
                return S2
            S = S2

    # ---- guarded
    def always_fails(self, l):
        for idx, s in enumerate(l):
            k = s["s"]
            if k == "ret":
                return s["r"] == "Err"
            if k == "brk":
                return False
            if k in ("iffail", "if", "iflm") and self.always_fails(s["t"]) and self.always_fails(s["e"]):
                return True
        return False

    def no_ok_ret(self, l):
        for s in l:
            k = s["s"]
            if k == "ret":
                return s["r"] == "Err"
            if k == "brk":
                return False
            if k in ("iffail", "if", "iflm") and not (self.no_ok_ret(s["t"]) and self.no_ok_ret(s["e"])):
                return False
            if k == "loop" and not self.no_ok_ret(s["b"]):
                return False
        return True

    def guarded(self, l, why):
        for s in l:
            k = s["s"]
            if k in ("ret", "brk"):
                return True
            if k == "act" and self.counted(s["a"]):
                why.append(("the result of the check %s is not tested" % (s["a"].get("callee") or s["a"].get("text")), s["a"]["line"]))
                return False
            if k == "iffail":
                a = s["a"]
                if self.counted(a):
                    if not (self.always_fails(s["t"]) and self.no_ok_ret(s["t"])):
                        why.append(("the failing arm of the check %s does not always return a failure" % (a.get("callee") or a.get("text")), a["line"]))
                        return False
                elif not self.guarded(s["t"], why):
                    return False
                if not self.guarded(s["e"], why):
                    return False
            elif k in ("if", "iflm"):
                if not (self.guarded(s["t"], why) and self.guarded(s["e"], why)):
                    return False
            elif k == "loop" and not self.guarded(s["b"], why):
                return False
        return True

    # ---- escan
    def escan(self, l, c, err, NS, why):
        brk = True
        for s in l:
            k = s["s"]
            if k == "ret":
                if s["r"] in ("Err", "Var") and not err:
                    why.append(("failing return without a message on its path", s["line"]))
                    return None
                return (True, brk)
            if k == "brk":
                return (True, brk and err)
            if k == "act":
                err = err or s["a"]["k"] == "err"
            elif k == "iffail":
                ce = self.callee(s["a"])
                noisy = bool(ce) and (ce[0], self.tgt(ce[1], c)) in NS
                r1 = self.escan(s["t"], c, err or noisy, NS, why)
                if r1 is None:
                    if ce and not noisy:
                        why.append(("... %s fails without a message" % ce[0], s["a"]["line"]))
                    return None
                r2 = self.escan(s["e"], c, err, NS, why)
                if r2 is None:
                    return None
                err = r1[0] and r2[0]
                brk = brk and r1[1] and r2[1]
            elif k == "if":
                r1 = self.escan(s["t"], c, err, NS, why)
                r2 = self.escan(s["e"], c, err, NS, why) if r1 is not None else None
                if r1 is None or r2 is None:
                    return None
                err = r1[0] and r2[0]
                brk = brk and r1[1] and r2[1]
            elif k == "iflm":
                r1 = self.escan(s["e"] if c == "CR" else s["t"], c, err, NS, why)
                if r1 is None:
                    return None
                err = r1[0]
                brk = brk and r1[1]
            elif k == "loop":
                if self.escan(s["b"], c, err, NS, why) is None:
                    return None
        return (err, brk)

    # ---- all
    def analyse(self):
        if not self.prepared:
            self.prepare()
        T = self.closure_T()
        C = self.gfix(lambda S, n, c: self.vscan(n, self.F[n]["body"], c, False, False, True, T, S, S, []) is not None)
        V = self.gfix(lambda S, n, c: self.vscan(n, self.F[n]["body"], c, False, False, False, T, C, S, []) is not None)
        NS = self.gfix(lambda S, n, c: self.escan(self.F[n]["body"], c, False, S, []) is not None)
        self.T, self.C, self.V, self.NS = T, C, V, NS
        return T, C, V, NS

    def why_late(self, n):
        why = []
        self.first_touch = None
        self.vscan(n, self.F[n]["body"], "CW", False, False, False, self.T, self.C, self.V, why)
        return why + [("last effect that turned the scan on", self.first_touch)]

    def why_silent(self, n):
        why = []
        self.escan(self.F[n]["body"], "CW", False, self.NS, why)
        return why

    def why_tolerant(self, n):
        why = []
        self.guarded(self.F[n]["body"], why)
        return why


if __name__ == "__main__":
    sys.path.insert(0, os.path.join(ROOT, "translators"))
    import c12_validate
    info, d = c12_validate.write_gen(repo=os.environ.get("VERIF_REPO", "/repo"))
    ex = Explain(d)
    T, C, V, NS = ex.analyse()
    FILE_OPS = {"cg_open", "cgio_open_file", "cg_save_as", "cg_close", "cgio_close_file", "cgio_cleanup", "cg_error_exit", "cgio_error_exit",
                "cg_exit_on_errors", "cgio_error_abort"}
    dom = sorted(n for n in ex.api if n not in FILE_OPS)
    late = [n for n in dom if (n, "CW") not in V]
    silent = [n for n in dom if (n, "CW") not in NS]
    tolerant = [n for n in dom if ex.why_tolerant(n)]
    print("T", len(T), "C", len(C), "V", len(V), "NS", len(NS), "late", len(late), "silent", len(silent), "tolerant", len(tolerant))
    names = sys.argv[1:]
    for n in (names or late):
        if (n, "CW") not in V:
            print("late", n, ex.why_late(n))
    for n in (names or silent):
        if (n, "CW") not in NS:
            print("silent", n, ex.why_silent(n))
    for n in (names or tolerant):
        w = ex.why_tolerant(n)
        if w:
            print("tolerant", n, w)
