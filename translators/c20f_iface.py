#!/usr/bin/env python3
"""c20f_iface.py -- tie (T) of the C20f extension: re-extract, from /repo's CURRENT src/cgns_f.F90 (as the Fortran
compiler sees it: the preprocessed file the Fortran-enabled build writes, or `gfortran -cpp -E` with the build's
flags), every procedure INTERFACE BODY of the module `cgns`

   * at module level (the Fortran-callable wrappers of cg_ftoc.c / cgio_ftoc.c: external procedures, gfortran
     mangling `lower(name)_`, hidden lengths; or BIND(C, NAME=...) to a C symbol), and
   * nested in a module procedure (BIND(C) interfaces to the C API functions of cgnslib.c / to cg_goto_fc1 ...),

and pair it with the C definition / prototype that the link name resolves to (rows of translators/c20_ftoc.py for
the wrappers, prototypes parsed from cgnslib.h / cgns_io.h for the C API).  Nothing is decided here: the decision
(`abi_ok`) is a Gallina function in coq/FtocAbi.v evaluated by the kernel on coq/Gen_C20f.v.  Anything that cannot
be classified becomes an `AUnparsed` row or an `FOther` class, both of which make abi_ok false.

Per interface body: Fortran name, link symbol, BIND(C) or not, per dummy argument its class (default INTEGER,
INTEGER(cgsize_t), INTEGER(cgenum_t), INTEGER(C_INT), REAL kinds, CHARACTER, TYPE(C_PTR), ...) and whether it is
passed by VALUE; per C definition the parameter classes of c20_ftoc (cgint_f*, cgsize_t*, enum*, char* followed by a
hidden size_t ...)."""
import os, re, subprocess, sys, hashlib, json

ROOT = os.path.dirname(os.path.dirname(os.path.abspath(__file__)))
sys.path.insert(0, os.path.join(ROOT, "translators"))
import c20_ftoc

GFORTRAN = "/usr/bin/gfortran-12"


def preprocessed_module(repo, implf):
    """text of cgns_f.F90 after cpp, with the flags of the Fortran-enabled build"""
    src = os.path.join(repo, "src", "cgns_f.F90")
    cmd = [GFORTRAN, "-cpp", "-E", "-DNO_CONCATENATION", "-I" + os.path.join(implf, "src"), "-I" + os.path.join(repo, "src"), src]
    p = subprocess.run(cmd, stdout=subprocess.PIPE, stderr=subprocess.PIPE, text=True, errors="replace")
    if p.returncode != 0:
        raise RuntimeError("gfortran -cpp -E cgns_f.F90 failed: " + p.stderr[-1500:])
    return p.stdout


def logical_lines(text):
    """free-form source -> statements: comments removed (outside character literals), continuation lines joined,
    `;` separated statements split"""
    out, cur = [], ""
    for raw in text.split("\n"):
        if raw.startswith("#"):
            continue
        # strip comment
        s, q, i = "", None, 0
        while i < len(raw):
            c = raw[i]
            if q:
                s += c
                if c == q:
                    q = None
            elif c in "'\"":
                q = c; s += c
            elif c == "!":
                break
            else:
                s += c
            i += 1
        s = s.strip()
        if not s:
            continue
        if s.startswith("&"):
            s = s[1:].lstrip()
        if s.endswith("&"):
            cur += s[:-1].rstrip() + " "
            continue
        cur += s
        for part in split_semicolon(cur):
            if part.strip():
                out.append(part.strip())
        cur = ""
    if cur.strip():
        out.append(cur.strip())
    return out


def split_semicolon(s):
    parts, cur, q = [], "", None
    for c in s:
        if q:
            cur += c
            if c == q:
                q = None
        elif c in "'\"":
            q = c; cur += c
        elif c == ";":
            parts.append(cur); cur = ""
        else:
            cur += c
    parts.append(cur)
    return parts


def split_top(s, sep=","):
    parts, cur, d, q = [], "", 0, None
    for c in s:
        if q:
            cur += c
            if c == q:
                q = None
            continue
        if c in "'\"":
            q = c
        elif c == "(":
            d += 1
        elif c == ")":
            d -= 1
        if c == sep and d == 0:
            parts.append(cur.strip()); cur = ""
        else:
            cur += c
    if cur.strip() or parts:
        parts.append(cur.strip())
    return parts


PROC_RE = re.compile(r"^(?P<pre>.*?)\b(?P<kind>SUBROUTINE|FUNCTION)\s+(?P<name>\w+)\s*(?:\((?P<args>.*?)\))?\s*(?P<suffix>.*)$", re.I)
END_RE = re.compile(r"^END\s*(SUBROUTINE|FUNCTION|INTERFACE|MODULE|TYPE|PROGRAM)?\b", re.I)


def type_class(tspec, attrs, consts):
    """class of a dummy argument from its type-spec and attribute list"""
    t = re.sub(r"\s+", "", tspec).upper()
    a = [re.sub(r"\s+", "", x).upper() for x in attrs]
    value = "VALUE" in a
    m = re.match(r"^(INTEGER|REAL|CHARACTER|TYPE|LOGICAL|DOUBLEPRECISION|CLASS)(?:\((.*)\)|\*(\d+))?$", t)
    if not m:
        return "FOther", value
    base, par, star = m.group(1), m.group(2), m.group(3)
    if base == "INTEGER":
        if par is None and star is None:
            return "FInt", value
        k = (par or "").replace("KIND=", "")
        if star:
            k = {"4": "C_INT", "8": "C_LONG_LONG"}.get(star, "?")
        k = consts.get(k, k)
        return {"C_INT": "FCInt", "CGSIZE_T": "FSize", "CGENUM_T": "FEnum", "C_LONG_LONG": "FLong", "CGLONG_T": "FLong",
                "C_SIZE_T": "FSizeT", "C_INT64_T": "FLong", "C_INT32_T": "FCInt"}.get(k, "FOther"), value
    if base in ("REAL", "DOUBLEPRECISION"):
        if base == "DOUBLEPRECISION":
            return "FDouble", value
        k = (par or "").replace("KIND=", "")
        if star:
            k = {"4": "C_FLOAT", "8": "C_DOUBLE"}.get(star, "?")
        k = consts.get(k, k)
        return {"C_DOUBLE": "FDouble", "C_FLOAT": "FFloat", "CGID_T": "FDouble"}.get(k, "FOther"), value
    if base == "CHARACTER":
        return "FChar", value
    if base == "TYPE":
        if par == "C_PTR":
            return "FCPtr", value
        if par == "C_FUNPTR":
            return "FCFunPtr", value
        if par == "*":
            return "FAny", value
        return "FOther", value
    return "FOther", value


def parse_module(text):
    """-> (ifaces, modprocs, problems).  ifaces: list of dict(name, link, bindc, args=[(name, class, value, optional,
    array)], where="module"|"<module procedure>", generic=<generic name or None>, function=bool)"""
    lines = logical_lines(text)
    ifaces, modprocs, problems = [], [], []
    contains = False
    stack = []          # open constructs: ("interface", generic) | ("proc", dict) | ("type",)
    # kinds that are named constants for other kinds (resolved textually):  CGSIZE_T = C_LONG_LONG is NOT folded: the
    # class FSize is what the C side must match (cgsize_t*), the build option decides what it is
    consts = {}
    for ln in lines:
        u = ln.upper()
        if re.match(r"^CONTAINS\b", u) and not any(s[0] == "proc" for s in stack):
            contains = True
            continue
        m = re.match(r"^(ABSTRACT\s+)?INTERFACE\b\s*(\w+)?", ln, re.I)
        if m and not u.startswith("INTERFACEX"):
            stack.append(("interface", m.group(2)))
            continue
        if re.match(r"^END\s*INTERFACE\b", u):
            while stack and stack[-1][0] != "interface":
                problems.append("END INTERFACE closes an open %s" % stack[-1][0]); stack.pop()
            if stack:
                stack.pop()
            continue
        if re.match(r"^END\s*(SUBROUTINE|FUNCTION)\b", u) or (u == "END" and stack and stack[-1][0] == "proc"):
            if stack and stack[-1][0] == "proc":
                p = stack.pop()[1]
                finish_proc(p, consts, problems)
                if p["in_iface"]:
                    ifaces.append(p)
                else:
                    modprocs.append(p)
            continue
        if re.match(r"^TYPE\b(?!\s*\()", u) and re.match(r"^TYPE\s*(,|::|\w)", u) and not re.match(r"^TYPE\s*\(", u):
            stack.append(("type",)); continue
        if re.match(r"^END\s*TYPE\b", u):
            if stack and stack[-1][0] == "type":
                stack.pop()
            continue
        if re.match(r"^(MODULE\s+PROCEDURE|PROCEDURE)\b", u):
            continue
        pm = PROC_RE.match(ln)
        if pm and not re.match(r"^(END|CALL|IF|MODULE\s+PROCEDURE)\b", u) and "=" not in pm.group("pre") \
                and re.match(r"^[\w\s()=,*]*$", pm.group("pre")):
            in_iface = bool(stack) and stack[-1][0] == "interface"
            if not in_iface and not contains:
                continue
            owner = None
            for s in stack:
                if s[0] == "proc" and not s[1]["in_iface"]:
                    owner = s[1]["name"]
            generic = stack[-1][1] if in_iface else None
            suffix = pm.group("suffix") or ""
            bm = re.search(r"BIND\s*\(\s*C\s*(?:,\s*NAME\s*=\s*(['\"])(.*?)\1)?\s*\)", suffix, re.I)
            args = [a.strip() for a in split_top(pm.group("args") or "")] if pm.group("args") else []
            p = {"name": pm.group("name"), "function": pm.group("kind").upper() == "FUNCTION", "pre": pm.group("pre").strip(),
                 "argnames": [a for a in args if a], "bindc": bool(bm), "bindname": bm.group(2).strip() if bm and bm.group(2) is not None else None,
                 "in_iface": in_iface, "owner": owner, "generic": generic, "decls": {}, "where": owner or "module"}
            stack.append(("proc", p))
            continue
        # declaration inside a procedure
        if stack and stack[-1][0] == "proc":
            p = stack[-1][1]
            dm = re.match(r"^((?:INTEGER|REAL|CHARACTER|LOGICAL|DOUBLE\s+PRECISION|TYPE|CLASS)\s*(?:\((?:[^()]|\([^()]*\))*\)|\*\s*\d+)?)\s*(.*)$", ln, re.I)
            if dm:
                tspec, rest = dm.group(1), dm.group(2)
                if "::" in rest:
                    attrs, ents = rest.split("::", 1)
                    attrs = [x for x in split_top(attrs.strip().lstrip(","))] if attrs.strip() else []
                else:
                    attrs, ents = [], rest
                for e in split_top(ents):
                    em = re.match(r"^(\w+)\s*(\(.*\))?\s*(\*\s*\(?\s*[\w*]+\s*\)?)?", e)
                    if not em:
                        continue
                    nm = em.group(1)
                    arr = em.group(2) is not None or any(re.match(r"DIMENSION", x.strip(), re.I) for x in attrs)
                    ts = tspec
                    if em.group(3) and re.match(r"CHARACTER", tspec, re.I):
                        ts = "CHARACTER(%s)" % em.group(3).strip().lstrip("*").strip("() ")
                    p["decls"][nm.upper()] = (ts, attrs, arr)
    for s in stack:
        if s[0] != "type":
            problems.append("construct %s left open at end of file" % (s[0],))
    return ifaces, modprocs, problems


def finish_proc(p, consts, problems):
    args = []
    for a in p["argnames"]:
        d = p["decls"].get(a.upper())
        if d is None:
            args.append((a, "FOther", False, False, False))
            continue
        ts, attrs, arr = d
        cls, value = type_class(ts, attrs, consts)
        opt = any(x.strip().upper() == "OPTIONAL" for x in attrs)
        args.append((a, cls, value, opt, arr))
    p["args"] = args
    if p["bindc"]:
        p["link"] = p["bindname"] if p["bindname"] is not None else p["name"].lower()
    else:
        p["link"] = p["name"].lower() + "_"         # gfortran: external procedure, one trailing underscore
    p["fres"] = None
    if p["function"]:
        t = re.sub(r"\s+", "", p["pre"]).upper()
        p["fres"] = "FCInt" if t in ("INTEGER(C_INT)",) else ("FInt" if t == "INTEGER" else "FOther")


# ------------------------------------------------------------------------------------------------ C side
def c_side(repo, impl):
    """link symbol -> (file, name, [class]) for the wrappers (rows of c20_ftoc) ; name -> [class] for the C API"""
    text, info, rows = c20_ftoc.translate(repo, impl)
    wr = {}
    for f, r, u in rows:
        if r:
            wr[r["sym"]] = (f, r["name"], list(r["ptys"]), list(r["pnames"]))
    protos = {}
    for f in c20_ftoc.FILES:
        own, other = c20_ftoc.preprocess(repo, impl, f)
        c20_ftoc.collect_enums(other)
        protos.update(c20_ftoc.parse_protos(other))
    # the definitions in the two files themselves with C linkage names that have no FMNAME (cg_goto_fc1 ...)
    return wr, protos, info, rows


def documented_interfaces(repo):
    """interface bodies that cgns_f.F90 only carries as COMMENTS (`!!$` lines): the documented kinds of the wrappers the module
    does not declare.  Parsed leniently (a SUBROUTINE statement is continued while its parentheses are open; an argument that
    is not declared -- `! void *data` -- becomes FAny)."""
    raw = open(os.path.join(repo, "src", "cgns_f.F90"), errors="replace").read().split("\n")
    doc, cur = [], None
    for l in raw:
        m = re.match(r"^\s*(?:!!\$)+(.*)$", l)
        if not m:
            continue
        t = m.group(1)
        t = re.sub(r"!.*$", "", t).rstrip()
        if cur is not None:
            cur += " " + t.strip().lstrip("&")
            if cur.count("(") <= cur.count(")"):
                doc.append(cur); cur = None
            continue
        if re.match(r"\s*SUBROUTINE\b", t, re.I) and t.count("(") > t.count(")"):
            cur = t.rstrip("&")
            continue
        doc.append(t)
    # a commented-out body counts as documentation only when it is well formed Fortran: `SUBROUTINE name(ident, ...)`, one
    # `::` per declaration line; half-C remnants (`void *exponents` among the dummies, two declarations on a line) do not
    malformed, cur_name, doc2 = set(), None, []
    for l in doc:
        m = re.match(r"(\s*SUBROUTINE\s+)(\w+)(.*)$", l, re.I)
        if m:
            cur_name = m.group(2).lower()
            rest = re.sub(r"\bvoid\s*\*\s*", "", m.group(3))                    # `void *data` among the dummies: an undeclared dummy
            am = re.match(r"\s*\(([^()]*)\)\s*(BIND\s*\(.*\))?\s*$", rest, re.I)
            if not am or not all(re.fullmatch(r"\w+", a.strip()) for a in am.group(1).split(",")):
                malformed.add(cur_name)
            doc2.append(m.group(1) + m.group(2) + rest)
            continue
        if re.match(r"\s*END\s*SUBROUTINE", l, re.I):
            cur_name = None
        elif cur_name and l.strip():
            if re.match(r"\s*void\b", l):                                        # `void *data,` : no declaration
                continue
            if re.match(r"\s*(IMPORT|IMPLICIT|USE)\b", l, re.I):
                pass
            elif l.count("::") != 1 or not re.match(r"\s*(INTEGER|REAL|CHARACTER|TYPE)\b", l, re.I):
                malformed.add(cur_name)
            else:
                ent = l.split("::", 1)[1].strip().rstrip(",")
                if not re.fullmatch(r"\w+(\s*\([\w\s,*:]*\))?(\s*,\s*\w+(\s*\([\w\s,*:]*\))?)*", ent):
                    malformed.add(cur_name)
                l = l.split("::", 1)[0] + ":: " + ent
        doc2.append(l)
    doc = doc2
    text = "INTERFACE\n" + "\n".join(doc) + "\nEND INTERFACE\n"
    ifaces, modprocs, problems = parse_module(text)
    res = {"__malformed__": sorted(malformed)}
    for p in ifaces:
        if p["function"] or p["name"].lower() in malformed:
            continue
        args = []
        for a in p["args"]:
            args.append((a[0], "FAny" if a[1] == "FOther" and a[0].upper() not in p["decls"] else a[1], a[2], a[3], a[4]))
        p["args"] = args
        res.setdefault(p["name"].lower(), p)
    return res


def goto_term_tests(repo):
    """the condition under which cg_goto_fc1 / cg_gorel_fc1 (cg_ftoc.c) treat their label as "no pair" (n = 0), disjunct by
    disjunct.  -> {name: (cmp, blank, empty, text)}; a disjunct that is not recognised makes cmp CmpUnknown."""
    raw = open(os.path.join(repo, "src", "cg_ftoc.c"), errors="replace").read()
    raw = re.sub(r"/\*.*?\*/", " ", raw, flags=re.S)
    res = {}
    for fn_ in ("cg_goto_fc1", "cg_gorel_fc1"):
        m = re.search(r"\bint\s+%s\s*\([^)]*\)\s*\{" % fn_, raw)
        if not m:
            res[fn_] = ("CmpUnknown", False, False, "function not found"); continue
        i, d = m.end(), 1
        while i < len(raw) and d:
            d += {"{": 1, "}": -1}.get(raw[i], 0); i += 1
        body = raw[m.end():i]
        c = re.search(r"if\s*\(((?:[^()]|\([^()]*\))*)\)\s*\{\s*n\s*=\s*0\s*;\s*\}\s*else\s*\{\s*n\s*=\s*1\s*;", body)
        if not c:
            res[fn_] = ("CmpUnknown", False, False, "n = 0 / n = 1 decision not found"); continue
        cond = re.sub(r"\s+", "", c.group(1).replace("' '", "'<blank>'"))
        blank = empty = False
        pre, exact, unknown = set(), set(), []
        for dj in cond.split("||"):
            if dj == "c_label[0][0]=='<blank>'":
                blank = True
            elif dj in ("c_label[0][0]==0", "c_label[0][0]=='\\0'", "!c_label[0][0]", "*c_label[0]==0", "!*c_label[0]", "0==c_label[0][0]"):
                empty = True
            else:
                m3 = re.fullmatch(r'(?:0==)?strncmp\(c_label\[0\],"(end|END)",3\)(?:==0)?', dj)
                me = re.fullmatch(r'(?:0==)?strcmp\((?:c_label\[0\],"(end|END)"|"(end|END)",c_label\[0\])\)(?:==0)?', dj)
                neg3 = re.fullmatch(r'!strncmp\(c_label\[0\],"(end|END)",3\)', dj)
                nege = re.fullmatch(r'!strcmp\((?:c_label\[0\],"(end|END)"|"(end|END)",c_label\[0\])\)', dj)
                if (m3 and ("0==" in dj or "==0" in dj)) or neg3:
                    pre.add((m3 or neg3).group(1))
                elif (me and ("0==" in dj or "==0" in dj)) or nege:
                    g = me or nege
                    exact.add(g.group(1) or g.group(2))
                else:
                    unknown.append(dj)
        if unknown or (pre and exact):
            cmp_ = "CmpUnknown"
        elif pre == {"end", "END"}:
            cmp_ = "CmpPrefix3"
        elif exact == {"end", "END"}:
            cmp_ = "CmpExact"
        else:
            cmp_ = "CmpUnknown"
        res[fn_] = (cmp_, blank, empty, cond)
    return res


def call_args(stmt, fname):
    m = re.search(r"\b%s\s*\(" % re.escape(fname), stmt, re.I)
    if not m:
        return None
    i, d = m.end(), 1
    j = i
    while j < len(stmt) and d:
        d += {"(": 1, ")": -1}.get(stmt[j], 0); j += 1
    return split_top(stmt[i:j - 1])


def const_params(repo):
    """C API function -> [True if the parameter is declared const ...] from the raw headers"""
    res = {}
    for h in ("cgnslib.h", "cgns_io.h"):
        try:
            ht = open(os.path.join(repo, "src", h), errors="replace").read()
        except OSError:
            continue
        ht = re.sub(r"/\*.*?\*/", " ", ht, flags=re.S)
        for m in re.finditer(r"\b(cg\w*)\s*\(([^()]*)\)\s*;", ht):
            res[m.group(1)] = [bool(re.search(r"\bconst\b", a)) for a in m.group(2).split(",")]
    return res


DECL_RE = re.compile(r"^(INTEGER|REAL|CHARACTER|LOGICAL|TYPE\s*\(|DOUBLE\s+PRECISION|IMPLICIT|USE|IMPORT)\b", re.I)


def modproc_rows(pp_text, ifaces, modprocs, protos, consts):
    """every module procedure of cgns_f.F90 that calls a C function through a nested BIND(C) interface: number of dummies vs
    number of C parameters, and for every actual argument of the call that is a LOCAL variable passed by reference for an
    output of the C function (not VALUE, not INTENT(IN), not set before the call): is it copied back to a dummy afterwards
    (dummy = INT(temp), dummy = temp, CALL C_F_string_chars / C_F_string_ptr(temp, dummy)), and, for a CHARACTER temporary,
    its declared size; plus the INTENT(OUT) dummies that are never assigned."""
    lines = logical_lines(pp_text)
    nested = {}
    for p in ifaces:
        if p["owner"]:
            nested.setdefault(p["owner"].lower(), []).append(p)
    mp = {p["name"].lower(): p for p in modprocs}
    rows, notes = [], {"intent_in_on_output": [], "arity_mismatch": []}
    try:
        i = [k for k, l in enumerate(lines) if re.match(r"CONTAINS\b", l, re.I)][0] + 1
    except IndexError:
        return [], notes
    n = len(lines)
    while i < n:
        m = re.match(r"(?:\w+\s+)*SUBROUTINE\s+(\w+)", lines[i], re.I)
        if not (m and m.group(1).lower() in mp):
            i += 1; continue
        name = m.group(1).lower()
        j, depth, body = i + 1, 0, []
        while j < n and not re.match(r"END\s*SUBROUTINE\s+%s\b" % name, lines[j], re.I):
            l = lines[j]
            if re.match(r"INTERFACE\b", l, re.I):
                depth += 1
            elif re.match(r"END\s*INTERFACE\b", l, re.I):
                depth -= 1
            elif depth == 0:
                body.append(l)
            j += 1
        i = j + 1
        p = mp[name]
        dummies = [a.upper() for a in p["argnames"]]
        decls = p["decls"]
        locals_ = {k for k in decls if k not in dummies}
        ex = [l for l in body if not DECL_RE.match(l)]
        full = "\n".join(ex)
        cfn = [nf["name"] for nf in nested.get(name, [])]
        nocall = "\n".join(l for l in ex if not any(re.search(r"\b%s\s*\(" % re.escape(c), l, re.I) for c in cfn))
        for nf in nested.get(name, []):
            for st in ex:
                a = call_args(st, nf["name"])
                if a is None:
                    continue
                proto = protos.get(nf["link"])
                ncp = -1
                if proto is not None and "TOther" not in proto:
                    ncp = len(proto)
                    if len(dummies) != ncp + 1:
                        notes["arity_mismatch"].append({"proc": name, "cfunc": nf["link"], "dummies": len(dummies), "c_params": list(proto)})
                outs = []
                for k, (act, nd) in enumerate(zip(a, nf["args"])):
                    act = act.strip()
                    if not re.fullmatch(r"\w+", act) or nd[2]:
                        continue
                    d = nf["decls"].get(nd[0].upper())
                    intent_in = bool(d) and any(re.sub(r"\s+", "", x).upper() == "INTENT(IN)" for x in d[1])
                    A = act.upper()
                    cc = consts.get(nf["link"])
                    if intent_in and cc and k < len(cc) and not cc[k] and nd[1] != "FChar":
                        notes["intent_in_on_output"].append("%s: %s(%s)" % (name, nf["name"], nd[0]))
                    if intent_in and not (cc and k < len(cc) and not cc[k] and nd[1] != "FChar"):
                        continue
                    if A in dummies:
                        outs.append("(%d, OutDirect, (-1))" % k); continue
                    if A not in locals_:
                        outs.append("(%d, OutUnknown, (-1))" % k); continue
                    before = "\n".join(ex[:ex.index(st)])
                    if re.search(r"^\s*%s(\([^=]*\))?\s*=" % A, before, re.I | re.M):
                        continue                                  # an input temporary, set before the call
                    copied = (re.search(r"^\s*\w+(\([^=]*\))?\s*=\s*[^\n]*\b%s\b" % A, nocall, re.I | re.M) or
                              re.search(r"CALL\s+C_F_\w+\s*\(\s*%s\b" % A, nocall, re.I))
                    size = -1
                    dd = decls.get(A)
                    if dd and re.match(r"CHARACTER", dd[0], re.I):
                        dl = [l for l in body if DECL_RE.match(l) and re.search(r"\b%s\s*\(" % A, l, re.I)]
                        sm = call_args(dl[0], A) if dl else None           # the (balanced) array bound of the declaration
                        size = -2
                        if sm and len(sm) == 1:
                            e = re.sub(r"\bMAX_LEN\b", "32", sm[0], flags=re.I)
                            if re.fullmatch(r"[\d+*()\s]+", e):
                                size = int(eval(e, {"__builtins__": {}}, {}))
                    elif dd and re.sub(r"\s+", "", dd[0]).upper() == "TYPE(C_PTR)":
                        size = 0                                  # the C function allocates, C_F_string_ptr copies
                    outs.append("(%d, %s, %s)" % (k, "OutCopied" if copied else "OutNotCopied", "(%d)" % size if size < 0 else str(size)))
                unassigned = []
                for dname in dummies:
                    d = decls.get(dname)
                    if d and any(re.sub(r"\s+", "", x).upper() == "INTENT(OUT)" for x in d[1]):
                        if not (re.search(r"^\s*%s(\([^=]*\))?\s*=" % dname, full, re.I | re.M) or
                                re.search(r"CALL\s+C_F_\w+\s*\([^)]*,\s*%s\s*\)" % dname, full, re.I) or
                                re.search(r"[(,]\s*%s\s*[,)]" % dname, full, re.I)):
                            unassigned.append(dname)
                rows.append("{| m_proc := %s; m_cfunc := %s; m_ndummies := %d; m_ncparams := %s; m_outs := %s; m_unassigned := %s |}" % (
                    q(name), q(nf["link"]), len(dummies), "(-1)" if ncp < 0 else str(ncp), coq_list(outs), coq_list([q(x) for x in unassigned])))
                break
    return rows, notes


def goto_blocks(pp_text):
    """the executable part of the module procedures cg_goto_f / cg_gorel_f, statement by statement, as gstmt terms of
    coq/FtocGoto.v: which optional argument guards a block, which UserDataName_k and which i_k it forwards to which C half."""
    lines = logical_lines(pp_text)
    res = {}
    for name in ("cg_goto_f", "cg_gorel_f"):
        try:
            i = [k for k, l in enumerate(lines) if re.match(r"SUBROUTINE\s+%s\b" % name, l, re.I)][0]
            j = [k for k, l in enumerate(lines) if re.match(r"END\s*SUBROUTINE\s+%s\b" % name, l, re.I)][0]
        except IndexError:
            res[name] = ['GOther "procedure not found"']; continue
        body = lines[i + 1:j]
        e = [k for k, l in enumerate(body) if re.match(r"END\s*INTERFACE\b", l, re.I)]
        body = body[e[-1] + 1:] if e else body
        out = []
        for l in body:
            c = re.sub(r"\s+", "", l).upper()
            m = re.fullmatch(r"IF\(PRESENT\(I(\d+)\)\)THEN", c)
            if m:
                out.append("GIfPresent %s" % m.group(1)); continue
            m = re.fullmatch(r"IF\(\.NOT\.PRESENT\(I(\d+)\)\)THEN", c)
            if m:
                out.append("GIfNotPresent %s" % m.group(1)); continue
            if c == "ELSE":
                out.append("GElse"); continue
            if c == "ENDIF":
                out.append("GEndIf"); continue
            if c == "RETURN":
                out.append("GReturn"); continue
            if c in ("IF(IER.NE.0)RETURN", "IF(IER/=0)RETURN"):
                out.append("GRetIfErr"); continue
            m = re.fullmatch(r"IER=INT\(CG_GOTO_FC1\(INT\(FN,C_INT\),INT\(B,C_INT\),TRIM\(USERDATANAME(\d+)\)//C_NULL_CHAR,"
                             r"(?:INT\(I(\d+),C_INT\)|(0)_C_INT)\)\)", c)
            if m:
                out.append("GCall CGoto %s %s" % (m.group(1), m.group(2) or "0")); continue
            m = re.fullmatch(r"IER=INT\(CG_GOREL_FC1\(INT\(FN,C_INT\),TRIM\(USERDATANAME(\d+)\)//C_NULL_CHAR,"
                             r"(?:INT\(I(\d+),C_INT\)|(0)_C_INT)\)\)", c)
            if m:
                out.append("GCall CGorel %s %s" % (m.group(1), m.group(2) or "0")); continue
            out.append("GOther %s" % q(l[:120]))
        res[name] = out
    return res


def q(s):
    return '"' + str(s).replace('"', "'") + '"'


def coq_list(xs):
    return "[" + "; ".join(xs) + "]"


def translate(repo, impl, implf, pp_text=None):
    text = pp_text if pp_text is not None else preprocessed_module(repo, implf)
    ifaces, modprocs, problems = parse_module(text)
    wr, protos, cinfo, crows = c_side(repo, impl)
    # C API functions whose prototype ends in "..." (read from the header text itself)
    variadics = set()
    for h in ("cgnslib.h", "cgns_io.h"):
        try:
            ht = open(os.path.join(repo, "src", h), errors="replace").read()
        except OSError:
            continue
        ht = re.sub(r"/\*.*?\*/", " ", ht, flags=re.S)
        for m in re.finditer(r"\b(\w+)\s*\(([^()]*)\.\.\.\s*\)\s*;", ht):
            variadics.add(m.group(1))
    rows, info = [], {"module_level_interfaces": 0, "nested_interfaces": 0, "paired_with_wrapper": 0, "paired_with_c_api": 0,
                      "no_c_definition_found": [], "wrappers_without_interface": [], "parse_problems": problems,
                      "module_procedures": len(modprocs)}
    seen_links = set()
    for p in ifaces:
        if p["owner"] is None:
            info["module_level_interfaces"] += 1
        else:
            info["nested_interfaces"] += 1
        link = p["link"]
        fargs = ["(%s, %s)" % (a[1], "true" if a[2] else "false") for a in p["args"]]
        opt = any(a[3] for a in p["args"])
        if link in wr:
            f, cname, ptys, pnames = wr[link]
            seen_links.add(link)
            info["paired_with_wrapper"] += 1
            rows.append("AIface {| a_name := %s; a_where := %s; a_link := %s; a_bindc := %s; a_function := %s; a_variadic := false; "
                        "a_fargs := %s;\n    a_ckind := CWrapper; a_cname := %s; a_cptys := %s |}" % (
                            q(p["name"]), q(p["where"]), q(link), "true" if p["bindc"] else "false",
                            "true" if p["function"] else "false", coq_list(fargs), q(cname), coq_list(ptys)))
        elif p["bindc"] and link in protos:
            info["paired_with_c_api"] += 1
            cp = list(protos[link])
            variadic = link in variadics and cp and cp[-1] == "TOther"
            if variadic:
                cp = cp[:-1]
            rows.append("AIface {| a_name := %s; a_where := %s; a_link := %s; a_bindc := true; a_function := %s; a_variadic := %s; "
                        "a_fargs := %s;\n    a_ckind := CApi; a_cname := %s; a_cptys := %s |}" % (
                            q(p["name"]), q(p["where"]), q(link), "true" if p["function"] else "false",
                            "true" if variadic else "false", coq_list(fargs), q(link), coq_list(cp)))
        else:
            info["no_c_definition_found"].append({"name": p["name"], "link": link, "where": p["where"]})
            rows.append("ANoC %s %s %s" % (q(p["name"]), q(link), q(p["where"])))
    # wrappers of the two C files that the module does not declare: a Fortran caller reaches them through an IMPLICIT
    # interface (F77 convention) -- nothing to compare statically; they are what the driver programs exercise
    docs = documented_interfaces(repo)
    info["implicit_documented"], info["implicit_undocumented"] = [], []
    info["comment_bodies_not_well_formed"] = [n for n in docs.pop("__malformed__", []) if (n + "_") in wr or n in {v[1] for v in wr.values()}]
    for link, (f, cname, ptys, pnames) in sorted(wr.items()):
        if link not in seen_links:
            info["wrappers_without_interface"].append(cname)
            rows.append("AImplicit %s %s %s" % (q(cname), q(link), coq_list(ptys)))
            d = docs.get(cname.lower())
            if d is not None:
                info["implicit_documented"].append(cname)
                fargs = ["(%s, %s)" % (a[1], "true" if a[2] else "false") for a in d["args"]]
                rows.append("ADoc {| a_name := %s; a_where := %s; a_link := %s; a_bindc := false; a_function := false; a_variadic := false; "
                            "a_fargs := %s;\n    a_ckind := CWrapper; a_cname := %s; a_cptys := %s |}" % (
                                q(cname), q("comment"), q(link), coq_list(fargs), q(cname), coq_list(ptys)))
            else:
                info["implicit_undocumented"].append(cname)
    for pr in problems:
        rows.append("AUnparsed %s %s" % (q("cgns_f.F90"), q(pr[:200])))
    lines = ["(* GENERATED on every run by translators/c20f_iface.py from the current src/cgns_f.F90 (preprocessed with the",
             "   flags of the Fortran-enabled build), src/cg_ftoc.c, src/cgio_ftoc.c, cgnslib.h, cgns_io.h.  Never edit. *)",
             "From Coq Require Import ZArith List String.", "From CgnsV Require Import Ftoc FtocAbi FtocGoto FtocMod.", "Import ListNotations.",
             "Local Open Scope string_scope.", "Local Open Scope Z_scope.", "", "Definition abi_table : list arow := ["]
    lines.append(";\n".join("  " + r for r in rows))
    lines.append("].")
    lines.append("")
    lines.append("Definition n_arows : Z := %d." % len(rows))
    lines.append("")
    tt = goto_term_tests(repo)
    info["goto_terminator_tests"] = {k: {"cmp": v[0], "blank_test": v[1], "empty_test": v[2], "condition": v[3]} for k, v in tt.items()}
    for k, v in tt.items():
        lines.append("(* %s: n = 0 when  %s  *)" % (k, v[3].replace("*)", "* )")))
        lines.append("Definition %s_term : termtest := {| t_cmp := %s; t_blank := %s; t_empty := %s |}." % (
            k[3:], v[0], "true" if v[1] else "false", "true" if v[2] else "false"))
    lines.append("Definition goto_terms : list termtest := [goto_fc1_term; gorel_fc1_term].")
    mrows, mnotes = modproc_rows(text, ifaces, modprocs, protos, const_params(repo))
    info["modproc_rows"] = len(mrows)
    info["modproc_notes"] = mnotes
    lines.append("")
    lines.append("(* the module procedures of cgns_f.F90 that call a C function: dummies vs C parameters, output temporaries *)")
    lines.append("Definition mp_rows : list mprow := [\n  %s\n]." % ";\n  ".join(mrows))
    gb = goto_blocks(text)
    info["goto_blocks"] = {k: {"statements": len(v), "unrecognised": [x for x in v if x.startswith("GOther")][:5]} for k, v in gb.items()}
    lines.append("")
    lines.append("(* the executable statements of the module procedures cg_goto_f / cg_gorel_f (cgns_f.F90) *)")
    lines.append("Definition goto_f_stmts : list gstmt := [\n  %s\n]." % ";\n  ".join(gb["cg_goto_f"]))
    lines.append("Definition gorel_f_stmts : list gstmt := [\n  %s\n]." % ";\n  ".join(gb["cg_gorel_f"]))
    out = "\n".join(lines) + "\n"
    info["rows"] = len(rows)
    return out, info, ifaces, modprocs, wr, protos


def write_gen(repo=None, impl=None, implf=None, out=None, pp_text=None):
    repo = repo or os.environ.get("VERIF_REPO", "/repo")
    tag = "" if repo == "/repo" else "_" + hashlib.sha1(repo.encode()).hexdigest()[:8]
    impl = impl or os.path.join(ROOT, ".build", "cgns" + tag)
    implf = implf or os.path.join(ROOT, ".build", "cgns_f" + tag)
    out = out or os.path.join(ROOT, "coq", "Gen_C20f.v")
    text, info, ifaces, modprocs, wr, protos = translate(repo, impl, implf, pp_text)
    if not os.path.exists(out) or open(out).read() != text:
        open(out, "w").write(text)
        info["gen_changed"] = True
    else:
        info["gen_changed"] = False
    info["gen_sha1"] = hashlib.sha1(text.encode()).hexdigest()
    return info, ifaces, modprocs, wr


if __name__ == "__main__":
    info, ifaces, modprocs, wr = write_gen(implf=sys.argv[1] if len(sys.argv) > 1 else None)
    json.dump(info, sys.stdout, indent=1)
    print()
