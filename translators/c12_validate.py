#!/usr/bin/env python3
"""c12_validate.py -- tie (T) of property C12 (invalid calls fail cleanly and change nothing).

Re-extracts from /repo's CURRENT sources (clang -ast-dump=json of src/cgnslib.c, src/cgns_internals.c, src/cgns_io.c,
src/cgns_error.c, streamed declaration by declaration with the helpers of c07_gates.py) and writes coq/Gen_C12.v:

 (a) `getters`   one row per non-null return of every index getter cgi_get_* of cgns_internals.c (index variable, count
                 field, array field, the two comparison operators, the element expression) -- the rows of c07_gates.
                 getter_rows -- plus `addr_rows`: every instance of the ADDRESS4MULTIPLE macro in the cgi_*_address
                 resolvers (parent type, count field, array field) with the comparison / element expression read from the
                 macro definition in cgns_header.h; `alloc_pairs`: the (count, array) pairs taken from where the arrays get
                 their size (CGNS_NEW / CGNS_RENEW / reader out-parameters);
 (b) `table`     per function its STRUCTURED skeleton: a tree of statements
                    SAct a | SRet r | SIfFail a t e | SIf t e | SIfLM t e | SLoop b
                 with acts  ACheck class callee args argmap | ACall arg0 callee args argmap | AMirror id | AErr | AUnparsed.
                 `SIfFail a t e` evaluates the check / call a and runs t when it FAILS (status != 0, NULL pointer, or -- for
                 an inline test -- the test is true) and e otherwise; this is how `if (cgi_check_strlen(n)) return CG_ERROR;`,
                 `zone = cgi_get_zone(cg,B,Z); if (zone==0) return CG_ERROR;`, `if (B > n || B <= 0) { cgi_error(..); return 0; }`
                 and `return f(..);` are represented.  If/else arms stay exclusive, loops stay loops; `break`/`continue` make
                 the rest of the enclosing body optional (over-approximation), `goto L` inlines the tail of the function from L.
                 Every check carries its class (handle, open, mode, index, name, enum, range, null, state), the positions of
                 the function's parameters it depends on (directly, through locals, or through the conditions it sits under)
                 and, for calls, which caller parameters flow into which callee parameter (`argmap`).

Nothing is decided here.  What counts as an effect, which stores are caches, the call-graph closures and the three
predicates (validation before effect, failing checks return failures, failing returns carry a message) are Gallina
(coq/Validate.v) evaluated by the kernel on the regenerated table.  A construct the walker does not know becomes an
`AUnparsed` act, which makes every obligation about the function false.
"""
import bisect, hashlib, json, os, re, sys

ROOT = os.path.dirname(os.path.dirname(os.path.abspath(__file__)))
sys.path.insert(0, os.path.join(ROOT, "translators"))
import c07_gates as G
from c07_gates import kids, strip, qual, callee_name, int_value, declrefs, and_chain, or_chain, mode_test, member_path

FILES = G.FILES
VERSION = "8"
ARM_DUP_LIMIT = 12          # arms up to this many statements are duplicated for `A || B` conditions


# ------------------------------------------------------------------------------------------------ small helpers
def S_act(a):
    return {"s": "act", "a": a}


def S_ret(r, line, text=""):
    return {"s": "ret", "r": r, "line": line, "text": text}


def S_iffail(a, t, e):
    return {"s": "iffail", "a": a, "t": t, "e": e}


def S_if(t, e, cond=""):
    return {"s": "if", "t": t, "e": e, "cond": cond}


def S_iflm(t, e):
    return {"s": "iflm", "t": t, "e": e}


def S_loop(b):
    return {"s": "loop", "b": b}


def size_of(l):
    n = 0
    for s in l:
        n += 1
        for k in ("t", "e", "b"):
            if k in s:
                n += size_of(s[k])
    return n


def always_fails(l):
    """every path through the translated list ends in a failing return"""
    if not l:
        return False
    s = l[-1]
    if s["s"] == "ret":
        return s["r"] in ("Err", "Var", "PVar")
    if s["s"] in ("if", "iffail", "iflm"):
        return always_fails(s["t"]) and always_fails(s["e"])
    return False


def always_returns_s(l):
    if not l:
        return False
    s = l[-1]
    if s["s"] == "ret":
        return True
    if s["s"] in ("if", "iffail", "iflm"):
        return always_returns_s(s["t"]) and always_returns_s(s["e"])
    return False


def has_exit(s, brk_ctx):
    """the C statement contains a `continue`, or a `break` that leaves an enclosing SWITCH, at the level of the CURRENT
    statement list (not one of a nested loop / switch): the statements after it may be skipped.  A `break` that leaves
    the enclosing LOOP is translated exactly (brk)."""
    k = s.get("kind")
    if k == "BreakStmt":
        return brk_ctx == "switch"
    if k == "ContinueStmt":
        return True
    if k in ("ForStmt", "WhileStmt", "DoStmt"):
        return False
    if k == "SwitchStmt":
        return any(has_cont(c) for c in kids(s))
    return any(has_exit(c, brk_ctx) for c in kids(s))


def has_cont(s):
    k = s.get("kind")
    if k == "ContinueStmt":
        return True
    if k in ("ForStmt", "WhileStmt", "DoStmt"):
        return False
    return any(has_cont(c) for c in kids(s))


def norm_path(p):
    return re.sub(r"\s+", "", p or "")


# ------------------------------------------------------------------------------------------------ argument identities
# token of an argument expression: 1 = unknown; 2+p = parameter p of the enclosing function (the expression IS the parameter);
# >= 100: an interned expression that does not depend on the caller (the global `cg`, `cg->field`, literals)
TOKENS = {}


def intern(txt):
    if txt not in TOKENS:
        TOKENS[txt] = 100 + len(TOKENS)
    return TOKENS[txt]


GLOBAL_ROOTS = {"cg", "posit"}


# ------------------------------------------------------------------------------------------------ the walker
class SWalker(G.Walker):
    def __init__(self, fn, src, lines, getters, fname):
        super().__init__(fn, src, lines, getters, fname)
        ps = [p for p in kids(fn) if p.get("kind") == "ParmVarDecl"]
        self.params = [p.get("name", "") for p in ps]
        self.ppos = {n: i for i, n in enumerate(self.params) if n}
        self.ptype = {p.get("name", ""): qual(p) for p in ps}
        self.taint = {}
        self.dtaint = {}             # data dependence only (no control dependence)
        self.pending = None          # (var name, act) of `v = call(..)` not yet emitted
        self.out_stack = []
        self.toplabels = {}
        self.body = None
        self.goto_depth = 0
        self.brk = []                # innermost breakable construct: "loop" | "switch"
        self.reassigned = set()      # parameters that are assigned to in the body (their identity is not stable)
        self.locals = set()          # names declared in the body (shadowing globals)

    # ---- parameter dependence
    def pset(self, n, extra=()):
        s = set(extra)
        for v in declrefs(n):
            if v in self.ppos:
                s.add(self.ppos[v])
            elif v in self.taint:
                s |= self.taint[v]
        return s

    def dset(self, n):
        """parameters the expression mentions directly; the tainted superset only when it mentions none"""
        s = {self.ppos[v] for v in declrefs(n) if v in self.ppos}
        return s if s else self.pset(n)

    def compute_taint(self, body):
        """locals <- parameters they are computed from (data), are assigned under (control), or are filled by a call
        that also receives those parameters (out-arguments).  Flow-insensitive fixpoint."""
        for _ in range(4):
            before = ({k: set(v) for k, v in self.taint.items()}, {k: set(v) for k, v in self.dtaint.items()})
            self._taint_walk(body, set())
            if before == (self.taint, self.dtaint):
                break

    def _taint_add(self, v, s, data=None):
        if v in self.ppos:
            return
        if s:
            self.taint.setdefault(v, set()).update(s)
        if data:
            self.dtaint.setdefault(v, set()).update(data)

    def dpset(self, n):
        s = set()
        for v in declrefs(n):
            if v in self.ppos:
                s.add(self.ppos[v])
            elif v in self.dtaint:
                s |= self.dtaint[v]
        return s

    def _taint_walk(self, n, ctrl):
        k = n.get("kind")
        if k == "IfStmt":
            ks = kids(n)
            self._taint_walk(ks[0], ctrl)
            c2 = ctrl | self.pset(ks[0])
            for c in ks[1:]:
                self._taint_walk(c, c2)
            return
        if k in ("ForStmt", "WhileStmt", "DoStmt", "SwitchStmt"):
            ks = [c for c in n.get("inner", []) if c]
            c2 = set(ctrl)
            for c in ks[:-1] if k != "DoStmt" else ks[1:]:
                c2 |= self.pset(c)
            for c in ks:
                self._taint_walk(c, c2)
            return
        if k == "VarDecl":
            ks = kids(n)
            if ks:
                self._taint_add(n.get("name"), self.pset(ks[-1]) | ctrl, self.dpset(ks[-1]))
        if k in ("BinaryOperator", "CompoundAssignOperator") and (n.get("opcode") == "=" or k == "CompoundAssignOperator"):
            a, b = kids(n)
            la = strip(a)
            base = la
            while base.get("kind") in ("ArraySubscriptExpr", "MemberExpr", "UnaryOperator") and kids(base):
                base = strip(kids(base)[0])
            if base.get("kind") == "DeclRefExpr":
                self._taint_add(base["referencedDecl"]["name"], self.pset(b) | ctrl, self.dpset(b))
        if k == "UnaryOperator" and n.get("opcode") in ("++", "--"):
            a = strip(kids(n)[0])
            if a.get("kind") == "DeclRefExpr":
                self._taint_add(a["referencedDecl"]["name"], ctrl)
        if k == "CallExpr":
            args = kids(n)[1:]
            allp, alld = set(), set()
            for a in args:
                allp |= self.pset(a)
                alld |= self.dpset(a)
            for a in args:
                a0 = strip(a)
                if a0.get("kind") == "UnaryOperator" and a0.get("opcode") == "&":
                    t = strip(kids(a0)[0])
                    if t.get("kind") == "DeclRefExpr":
                        self._taint_add(t["referencedDecl"]["name"], allp | ctrl, alld)
        for c in kids(n):
            self._taint_walk(c, ctrl)

    def scan_assigned(self, n):
        k = n.get("kind")
        if k == "VarDecl":
            self.locals.add(n.get("name"))
        if k in ("BinaryOperator", "CompoundAssignOperator") and (n.get("opcode") == "=" or k == "CompoundAssignOperator"):
            a = strip(kids(n)[0])
            if a.get("kind") == "DeclRefExpr" and a["referencedDecl"]["name"] in self.ppos:
                self.reassigned.add(a["referencedDecl"]["name"])
        if k == "UnaryOperator" and n.get("opcode") in ("++", "--", "&"):
            a = strip(kids(n)[0])
            if a.get("kind") == "DeclRefExpr" and a["referencedDecl"]["name"] in self.ppos:
                self.reassigned.add(a["referencedDecl"]["name"])
        for c in kids(n):
            self.scan_assigned(c)

    # ---- output
    def emit(self, stm):
        self.flush()
        self.out_stack[-1].append(stm)

    def flush(self):
        if self.pending is not None:
            v, act = self.pending
            self.pending = None
            self.out_stack[-1].append(S_act(act))

    def sub(self, f):
        """run f() collecting into a fresh list"""
        self.flush()
        self.out_stack.append([])
        f()
        self.flush()
        return self.out_stack.pop()

    # ---- acts
    def token(self, a):
        a = strip(a)
        k = a.get("kind")
        if k == "DeclRefExpr":
            nm = a["referencedDecl"]["name"]
            if nm in self.ppos and nm not in self.reassigned:
                return 2 + self.ppos[nm]
            if nm in GLOBAL_ROOTS and a["referencedDecl"].get("kind") == "VarDecl" and nm not in self.locals:
                return intern("g:" + nm)
            if a["referencedDecl"].get("kind") == "EnumConstantDecl":
                return intern("e:" + nm)
            return 1
        v = int_value(a)
        if v is not None:
            return intern("i:%d" % v)
        if k == "StringLiteral":
            return intern("s:" + a.get("value", "?"))
        if k == "MemberExpr":
            mp = member_path(a)
            if mp and "[]" not in mp and mp.split("->")[0].split(".")[0] in GLOBAL_ROOTS and mp.split("->")[0] not in self.locals:
                return intern("m:" + mp)
        return 1

    def call_act(self, n, ctrl):
        name = callee_name(n)
        args = kids(n)[1:]
        argmap = [sorted(self.dset(a)) for a in args]
        allp = sorted(set(x for m in argmap for x in m) | set(ctrl))
        line = self.line(n)
        base = dict(line=line, args=allp, argmap=argmap, ids=[self.token(a) for a in args], text=self.text(n)[:70])
        if name is None and "cgns_error_handler" in declrefs(kids(n)[0]):
            name = "cgns_error_handler"
        if name is None:
            self.unparsed.append("indirect call: " + self.text(n)[:50])
            return dict(base, k="unparsed", why="indirect call")
        if name in G.ERR_FUNCS:
            return dict(base, k="err", fn=name)
        t = qual(n).strip()
        rk = "ptr" if t.endswith("*") else ("int" if t == "int" else "other")
        if name == "cgi_get_file":
            return dict(base, k="check", v="Handle", callee=name, rk=rk)
        if name == "get_cgnsio":
            w = int_value(args[1]) if len(args) > 1 else None
            if w in (0, 1):          # cgio handle (with w == 1: that also permits writing)
                return dict(base, k="check", v="Handle", callee=name, rk=rk, cgio_write=(w == 1))
            return dict(base, k="check", v="State", callee=name, rk=rk)
        if name == "cgi_check_mode":
            w = int_value(args[2]) if len(args) > 2 else None
            if w in (0, 1, 2):
                return dict(base, k="check", v="Mode" + "RWM"[w], callee=name, rk=rk)
            return dict(base, k="check", v="State", callee=name, rk=rk)
        if name in ("cgi_check_strlen", "cgi_check_strlen_x2"):
            return dict(base, k="check", v="Name", callee=name, rk=rk)
        if name in self.getters:
            return dict(base, k="check", v="Index", callee=name, rk=rk)
        a0 = None
        if args:
            x = strip(args[0])
            v = int_value(x)
            if x.get("kind") == "DeclRefExpr" and x["referencedDecl"]["name"] == self.lm_param:
                a0 = "P"
            elif v in (0, 1):
                a0 = "RW"[v]
        return dict(base, k="call", callee=name, arg0=a0, rk=rk)

    def mirror_act(self, path, n):
        return dict(k="mirror", tgt=norm_path(path)[:60], line=self.line(n) if n else 0)

    # ---- expressions in evaluation order (non-condition context)
    def expr(self, n, ctrl=frozenset()):
        k = n.get("kind")
        if k == "CallExpr":
            return self.call(n, ctrl)
        if k in ("BinaryOperator", "CompoundAssignOperator"):
            op = n.get("opcode")
            a, b = kids(n)
            if op in ("&&", "||"):
                self.expr(a, ctrl)
                inner = self.sub(lambda: self.expr(b, ctrl))
                if inner:
                    self.emit(S_if(inner, [], "&&/|| rhs"))
                return
            if op == "=" or k == "CompoundAssignOperator":
                self.expr(b, ctrl)
                self.expr(a, ctrl)
                la = strip(a)
                if la.get("kind") == "DeclRefExpr" and op == "=" and qual(la).strip().endswith("*") and \
                        la["referencedDecl"].get("kind") == "VarDecl":
                    if self.is_mirror_ptr(b):
                        self.mptr.add(la["referencedDecl"]["name"])
                    else:
                        self.mptr.discard(la["referencedDecl"]["name"])
                if self.is_mirror_lvalue(a):
                    self.emit(S_act(self.mirror_act(member_path(a) or self.text(a), n)))
                if la.get("kind") == "DeclRefExpr" and la["referencedDecl"]["name"] == "last_err" and int_value(b) != 0:
                    self.emit(S_act(dict(k="err", fn="last_err=", line=self.line(n), args=[], argmap=[])))
                return
        if k == "UnaryOperator" and n.get("opcode") in ("++", "--"):
            for c in kids(n):
                self.expr(c, ctrl)
            if self.is_mirror_lvalue(kids(n)[0]):
                self.emit(S_act(self.mirror_act(member_path(kids(n)[0]) or self.text(kids(n)[0]), n)))
            return
        if k == "ConditionalOperator":
            c, a, b = kids(n)
            self.expr(c, ctrl)
            ta = self.sub(lambda: self.expr(a, ctrl))
            tb = self.sub(lambda: self.expr(b, ctrl))
            if ta or tb:
                self.emit(S_if(ta, tb, "?:"))
            return
        if k == "StmtExpr":
            self.unparsed.append("StmtExpr")
        if k == "VarDecl":
            ks = kids(n)
            if ks:
                init = strip(ks[-1])
                if init.get("kind") == "CallExpr" and self.linkable(init):
                    for a in kids(init)[1:]:
                        self.expr(a, ctrl)
                    self.flush()
                    act = self.call_act(init, ctrl)
                    if act["k"] in ("check", "call") and act.get("rk") in ("int", "ptr"):
                        self.pending = (n["name"], act)
                        return
                    self.emit(S_act(act))
                    return
                for c in ks:
                    self.expr(c, ctrl)
                if qual(n).strip().endswith("*") and self.is_mirror_ptr(ks[-1]):
                    self.mptr.add(n["name"])
            return
        for c in kids(n):
            self.expr(c, ctrl)

    def linkable(self, call):
        nm = callee_name(call)
        return nm is not None and nm not in G.ERR_FUNCS and not (nm in G.LIBC and nm not in G.FS_WRITERS)

    def mirror_dest(self, n):
        name = callee_name(n)
        args = kids(n)[1:]
        if name in G.LIBC_DEST and args and self.is_mirror_ptr(args[0]):
            a0 = strip(args[0])
            p = member_path(a0) or self.text(a0)
            self.emit(S_act(self.mirror_act(p, n)))

    def call(self, n, ctrl=frozenset()):
        name = callee_name(n)
        args = kids(n)[1:]
        for a in args:
            self.expr(a, ctrl)
        if name in G.LIBC and name not in G.FS_WRITERS:
            self.mirror_dest(n)
            return
        self.emit(S_act(self.call_act(n, ctrl)))

    # ---- conditions
    def lit(self, n):
        n = strip(n)
        v = int_value(n)
        if v is not None:
            return v
        if n.get("kind") in ("GNUNullExpr", "CXXNullPtrLiteralExpr"):
            return 0
        return None

    def as_test(self, c):
        """(act-source, sense) if the atom c tests the result of a call: source = CallExpr node or ('pending',),
        sense True = 'c is true when the result is non-zero'; else None"""
        c = strip(c)
        k = c.get("kind")
        if k == "CallExpr" and self.linkable(c) and (qual(c).strip() == "int" or qual(c).strip().endswith("*")):
            return c, True
        if k == "BinaryOperator" and c.get("opcode") == "=":
            a, b = kids(c)
            b0 = strip(b)
            if b0.get("kind") == "CallExpr" and self.linkable(b0) and (qual(b0).strip() == "int" or qual(b0).strip().endswith("*")):
                return b0, True
        if k == "DeclRefExpr" and self.pending is not None and c["referencedDecl"]["name"] == self.pending[0]:
            return ("pending",), True
        if k == "UnaryOperator" and c.get("opcode") == "!":
            r = self.as_test(kids(c)[0])
            if r:
                return r[0], not r[1]
        if k == "BinaryOperator" and c.get("opcode") == ">" and self.lit(kids(c)[1]) == 0:
            r = self.as_test(kids(c)[0])             # ierr > 0
            if r and self.src_rk(r[0]) == "int":
                return r
            return None
        if k == "BinaryOperator" and c.get("opcode") in ("==", "!="):
            a, b = kids(c)
            for x, y in ((a, b), (b, a)):
                v = self.lit(y)
                if v is None:
                    continue
                r = self.as_test(x)
                if r is None:
                    continue
                src, sense = r
                rk = self.src_rk(src)
                if v == 0:
                    return src, (sense if c["opcode"] == "!=" else not sense)
                if v == 1 and rk == "int":          # == CG_ERROR / != CG_ERROR
                    return src, (sense if c["opcode"] == "==" else not sense)
                return None
        return None

    def src_rk(self, src):
        if isinstance(src, tuple):
            return self.pending[1].get("rk")
        t = qual(src).strip()
        return "ptr" if t.endswith("*") else ("int" if t == "int" else "other")

    def has_linkable(self, n):
        if n.get("kind") == "CallExpr" and self.linkable(n):
            return True
        return any(self.has_linkable(c) for c in kids(n))

    def needs_split(self, c):
        if self.has_linkable(c):
            return True
        return self.pending is not None and self.pending[0] in declrefs(c)

    def cond(self, c, T, E, ctrl, line):
        """emit the statements of `if (c) T else E`; T and E are translated lists (may be duplicated)"""
        c0 = strip(c)
        k = c0.get("kind")
        split = self.needs_split(c0)
        if split and k == "BinaryOperator" and c0.get("opcode") == "||":
            a, b = kids(c0)
            if size_of(T) <= ARM_DUP_LIMIT or not G.has_call(b):
                pend, self.pending = self.pending, None
                inner = self.sub(lambda: self.cond(b, T, E, ctrl, line))
                self.pending = pend
                self.cond(a, T, inner, ctrl, line)
                return
        if split and k == "BinaryOperator" and c0.get("opcode") == "&&":
            a, b = kids(c0)
            if size_of(E) <= ARM_DUP_LIMIT or not G.has_call(b):
                pend, self.pending = self.pending, None
                inner = self.sub(lambda: self.cond(b, T, E, ctrl, line))
                self.pending = pend
                self.cond(a, inner, E, ctrl, line)
                return
        if split and k == "UnaryOperator" and c0.get("opcode") == "!" and self.as_test(c0) is None:
            self.cond(kids(c0)[0], E, T, ctrl, line)
            return
        r = self.as_test(c0)
        if r is not None:
            src, sense = r
            if isinstance(src, tuple):
                v, act = self.pending
                self.pending = None
            else:
                for a in kids(src)[1:]:
                    self.expr(a, ctrl)
                self.flush()
                act = self.call_act(src, ctrl)
                self.mirror_dest(src)
            if act["k"] in ("check", "call"):
                # int status: non-zero = failure; pointer: NULL = failure
                nonzero_is_fail = act.get("rk") != "ptr"
                fail_arm, ok_arm = (T, E) if sense == nonzero_is_fail else (E, T)
                self.emit(S_iffail(act, fail_arm, ok_arm))
                return
            self.emit(S_act(act))
            self.emit(S_if(T, E, self.text(c0)[:60]))
            return
        # any other condition: the calls inside it run first
        self.expr(c0, ctrl)
        self.flush()
        txt = self.text(c0)
        # local_mode tests select an arm deterministically (also as one conjunct of the condition)
        def lm_test(x):
            """True: x is `local_mode == CG_MODE_WRITE`; False: `local_mode == CG_MODE_READ`; None: something else"""
            x = strip(x)
            if self.lm_param and x.get("kind") == "BinaryOperator" and x.get("opcode") in ("==", "!="):
                a, b = [strip(y) for y in kids(x)]
                if a.get("kind") == "DeclRefExpr" and a["referencedDecl"]["name"] == self.lm_param and int_value(b) in (0, 1):
                    return (int_value(b) == 1) == (x["opcode"] == "==")
            return None
        if self.lm_param:
            ch = and_chain(c0)
            tests = [lm_test(x) for x in ch]
            if any(t is not None for t in tests):
                w = [t for t in tests if t is not None]
                inner = T if len(ch) == len(w) else [S_if(T, E, txt[:60])]
                if all(w):                   # every local_mode conjunct demands WRITE
                    self.emit(S_iflm(inner, E))
                elif not any(w):             # ... demands READ
                    self.emit(S_iflm(E, inner))
                else:                        # contradictory: the arm never runs
                    for x in E:
                        self.emit(x)
                return
        # a test of a 0-initialised local that is only assigned under local_mode == CG_MODE_WRITE (parent_id ..), possibly
        # as one conjunct of the condition: the arm can only run when the caller passes CG_MODE_WRITE
        def lm_var(x):
            x = strip(x)
            v = None
            if x.get("kind") == "DeclRefExpr":
                v = x["referencedDecl"]["name"]
            elif x.get("kind") == "BinaryOperator" and x.get("opcode") in ("!=", ">"):
                a, b = [strip(y) for y in kids(x)]
                if a.get("kind") == "DeclRefExpr" and int_value(b) == 0:
                    v = a["referencedDecl"]["name"]
            return v is not None and v in self.vg and self.vg[v][0]
        chain = and_chain(c0)
        if any(lm_var(x) for x in chain):
            if len(chain) == 1:
                self.emit(S_iflm(T, E))
            else:
                self.emit(S_iflm([S_if(T, E, txt[:60])], E))
            return
        ps = sorted(self.dset(c0) | set(ctrl))
        tf, ef = always_fails(T), always_fails(E)
        if tf or (ef and not tf):
            cls = self.classify(c0, txt, negated=not tf)
            act = dict(k="check", v=cls, callee=None, args=ps, argmap=[], ids=[], line=line, text=txt[:70], rk="int")
            if tf:
                self.emit(S_iffail(act, T, E))
            else:
                self.emit(S_iffail(dict(act, text="!(" + txt[:66] + ")"), E, T))
            return
        self.emit(S_if(T, E, txt[:60]))

    def classify(self, cond, txt, negated=False):
        txt = txt.replace("->", ".")                 # so that `[<>]` below only sees relational operators
        if "INVALID_ENUM" in txt:
            return "Enum"
        c0 = strip(cond)
        for x in or_chain(c0):        # CHECK_FILE_OPEN: `cg == NULL`, possibly `|| cg->mode == CG_MODE_CLOSED`
            if x.get("kind") == "BinaryOperator" and x.get("opcode") == "==" and strip(kids(x)[0]).get("kind") == "DeclRefExpr" and \
                    strip(kids(x)[0])["referencedDecl"]["name"] == "cg" and self.lit(kids(x)[1]) == 0 and not negated:
                return "Open"
        mt = mode_test(cond)
        if mt and not G.has_call(cond) and len(and_chain(cond)) == 1:
            if negated:
                mt = (G.NEG[mt[0]], mt[1])
            rej = {("==", 0): "ModeW", ("!=", 2): "ModeM", ("==", 1): "ModeR"}.get(mt)
            if rej:
                return rej
        refs = set(declrefs(cond))
        direct = refs & set(self.ppos)
        used = set(direct)
        for v in refs:
            if v in self.dtaint and self.dtaint[v]:          # data dependence only: a flag set under a condition is state
                used |= {self.params[i] for i in self.dtaint[v]}
        if re.search(r"\b(m|c|re)alloc\s*\(|CGNS_NEW|CGNS_RENEW", txt):
            return "State"                           # allocation failure
        if re.search(r"strlen|\[0\]\s*==\s*'\\0'|\[0\]\s*==\s*0|strcmp|strchr", txt) and used:
            return "Name"
        if used:
            if direct and not (refs - set(self.ppos)) and not re.search(r"[<>=]", txt) and \
                    all(self.ptype[p].strip() == "int" for p in direct):
                return "State"                       # `if (!allow_dup)`: a switch passed by the caller, not a range test
            if direct and any(self.ptype[p].strip().endswith("*") for p in direct) and \
                    re.search(r"==\s*(NULL|0)\b|!\s*\w+\s*(\)|$|\|)", txt) and not re.search(r"[<>]", txt):
                return "Null"
            if direct and any("enum" in self.ptype[p] or re.search(r"_t\b", self.ptype[p]) and "cgsize_t" not in self.ptype[p]
                              and "*" not in self.ptype[p] for p in direct) and not re.search(r"[<>]", txt):
                return "Enum"
            if not direct and (re.search(r"NULL|alloc\s*\(|ierr|\bier\b", txt) or not re.search(r"[<>]", txt)):
                return "State"                       # allocation failures, statuses of back-end calls, (in)equality /
                                                     # truthiness tests of locals: consistency tests, not range tests
            return "Range"
        return "State"

    # ---- statements
    def untested_tail_call(self, s):
        """the variable v when the last statement of the arm s is `v = linkable_call(..)` (its result is not tested inside
        the arm), else None"""
        while s is not None and s.get("kind") == "CompoundStmt":
            ks = kids(s)
            s = ks[-1] if ks else None
        if s is None:
            return None
        s0 = strip(s)
        if s0.get("kind") == "BinaryOperator" and s0.get("opcode") == "=":
            a, b = kids(s0)
            la, rb = strip(a), strip(b)
            if la.get("kind") == "DeclRefExpr" and rb.get("kind") == "CallExpr" and self.linkable(rb) and \
                    (qual(rb).strip() == "int" or qual(rb).strip().endswith("*")):
                return la["referencedDecl"]["name"]
        return None

    def tail_duplicated(self, s, nxt):
        """`if (c) { ..; v = call(..); }  if (v == 0 || ..) { ..; return ..; }`  -- the result of a call made in one arm is
        tested by the statement that FOLLOWS the `if` (the file-selection step `if (posit != 0) cg = cgi_get_file(posit_file);`
        followed by the NULL / CLOSED test of CHECK_FILE_OPEN).  The following test has no side effect and its arm returns, so
        the code is equivalent to the same code with a copy of that test appended to the arm: the copy links the test to the call
        (a failing call => the failing arm), the original still covers the paths on which the call was not made.
        -> the rewritten IfStmt, or None when the pattern is not there"""
        if s.get("kind") != "IfStmt" or nxt is None or nxt.get("kind") != "IfStmt":
            return None
        ks, nk = kids(s), kids(nxt)
        if len(ks) < 2 or len(nk) < 2 or (nxt.get("hasElse") and len(nk) > 2):
            return None
        arms = [(1, ks[1])] + ([(2, ks[2])] if s.get("hasElse") and len(ks) > 2 else [])
        hit = [(j, a, self.untested_tail_call(a)) for j, a in arms]
        if not any(v for _, _, v in hit):
            return None
        cnd, body = nk[0], nk[1]
        if G.has_call(cnd):
            return None
        last = body
        while last is not None and last.get("kind") == "CompoundStmt":
            last = kids(last)[-1] if kids(last) else None
        if last is None or last.get("kind") != "ReturnStmt":
            return None

        def fail_test_of(v):
            for x in or_chain(strip(cnd)):
                x = strip(x)
                if x.get("kind") == "BinaryOperator" and x.get("opcode") == "==" and self.lit(kids(x)[1]) == 0 and \
                        strip(kids(x)[0]).get("kind") == "DeclRefExpr" and strip(kids(x)[0])["referencedDecl"]["name"] == v:
                    return True
                if x.get("kind") == "UnaryOperator" and x.get("opcode") == "!" and strip(kids(x)[0]).get("kind") == "DeclRefExpr" and \
                        strip(kids(x)[0])["referencedDecl"]["name"] == v:
                    return True
            return False
        inner = list(s.get("inner", []))
        pos = [k for k, c in enumerate(inner) if c]          # positions of the real children (kids() drops empty slots)
        changed = False
        for j, a, v in hit:
            if v and fail_test_of(v):
                inner[pos[j]] = {"kind": "CompoundStmt", "inner": [a, nxt], "range": a.get("range", {}), "loc": a.get("loc", {})}
                changed = True
        if not changed:
            return None
        s2 = dict(s)
        s2["inner"] = inner
        return s2

    def block(self, stmts, ctrl):
        """translate a statement sequence; a statement that may `break`/`continue` makes the rest optional"""
        i = 0
        while i < len(stmts):
            s = stmts[i]
            s = self.tail_duplicated(s, stmts[i + 1] if i + 1 < len(stmts) else None) or s
            self.stmt(s, ctrl)
            if has_exit(s, self.brk[-1] if self.brk else None) and i + 1 < len(stmts):
                rest = stmts[i + 1:]
                inner = self.sub(lambda: self.block(rest, ctrl))
                if inner:
                    self.emit(S_if(inner, [], "after break/continue"))
                return
            i += 1

    def stmt(self, s, ctrl=frozenset()):
        k = s.get("kind")
        if k == "CompoundStmt":
            self.block(kids(s), ctrl)
        elif k == "IfStmt":
            ks = kids(s)
            c = ks[0]
            c2 = ctrl
            pend = self.pending                       # the arms must not consume / flush the pending call
            self.pending = None
            T = self.sub(lambda: self.stmt(ks[1], c2))
            E = self.sub(lambda: self.stmt(ks[2], c2)) if s.get("hasElse") and len(ks) > 2 else []
            self.pending = pend
            self.cond(c, T, E, ctrl, self.line(s))
        elif k in ("ForStmt", "WhileStmt"):
            ks = s.get("inner", [])
            body = ks[-1] if ks and ks[-1] else None
            if k == "ForStmt" and len(ks) == 5:
                init, cnd, inc = ks[0] or None, ks[2] or None, ks[3] or None
            else:
                init, inc = None, None
                cnd = ks[-2] if len(ks) >= 2 and ks[-2] else None
            if init:
                (self.stmt if init.get("kind") in G.KNOWN_STMTS else self.expr)(init, ctrl)

            def loop_body():
                if cnd:
                    self.expr(cnd, ctrl)
                if body:
                    self.stmt(body, ctrl)
                if inc:
                    self.expr(inc, ctrl)
            self.brk.append("loop")
            b = self.sub(loop_body)
            self.brk.pop()
            if b:
                self.emit(S_loop(b))
        elif k == "DoStmt":
            ks = kids(s)

            def do_body():
                self.stmt(ks[0], ctrl)
                self.expr(ks[1], ctrl)
            self.brk.append("loop")
            b = self.sub(do_body)
            self.brk.pop()
            # a do-loop runs at least once; the first iteration is wrapped in a loop of its own so that a `break` in it
            # stays inside a loop (over-approximation: that first body may also be skipped or repeated)
            if b:
                self.emit(S_loop(b))
        elif k == "SwitchStmt":
            ks = kids(s)
            self.expr(ks[0], ctrl)
            body = ks[1] if len(ks) > 1 else None
            arms = self.switch_arms(body)
            chain = []
            self.brk.append("switch")
            for arm in reversed(arms):
                t = self.sub(lambda: self.block(arm, ctrl))
                chain = [S_if(t, chain, "switch arm")] if (t or chain) else []
            self.brk.pop()
            for x in chain:
                self.emit(x)
        elif k in ("CaseStmt", "DefaultStmt", "LabelStmt"):
            for c in kids(s):
                if c.get("kind") in ("ConstantExpr", "IntegerLiteral"):
                    continue
                self.stmt(c, ctrl)
        elif k == "BreakStmt":
            if self.brk and self.brk[-1] == "loop":
                self.emit({"s": "brk"})
        elif k in ("ContinueStmt", "NullStmt"):
            pass
        elif k == "GotoStmt":
            self.goto(s, ctrl)
        elif k == "DeclStmt":
            for c in kids(s):
                self.expr(c, ctrl)
        elif k == "ReturnStmt":
            self.ret_s(s, ctrl)
        elif k and k.endswith("Stmt") and k not in G.KNOWN_STMTS:
            self.unparsed.append("statement kind " + k)
            self.emit(S_act(dict(k="unparsed", why="statement kind " + k, line=self.line(s), args=[], argmap=[])))
        else:
            self.expr_stmt(s, ctrl)

    def expr_stmt(self, s, ctrl):
        """an expression statement; `v = call(..)` stays pending so that a directly following test of v links to it"""
        s0 = strip(s)
        if s0.get("kind") == "BinaryOperator" and s0.get("opcode") == "=":
            a, b = kids(s0)
            la, rb = strip(a), strip(b)
            if la.get("kind") == "DeclRefExpr" and rb.get("kind") == "CallExpr" and self.linkable(rb):
                for x in kids(rb)[1:]:
                    self.expr(x, ctrl)
                self.flush()
                act = self.call_act(rb, ctrl)
                v = la["referencedDecl"]["name"]
                if qual(la).strip().endswith("*") and la["referencedDecl"].get("kind") == "VarDecl":
                    if self.is_mirror_ptr(rb):
                        self.mptr.add(v)
                    else:
                        self.mptr.discard(v)
                if act["k"] in ("check", "call") and act.get("rk") in ("int", "ptr"):
                    self.pending = (v, act)
                    return
                self.emit(S_act(act))
                return
        if s0.get("kind") == "CallExpr" and self.linkable(s0):
            # f(.., &ierr);  the status comes back through an out-argument (ADF / ADFH interface)
            args = kids(s0)[1:]
            if args:
                a0 = strip(args[-1])
                if a0.get("kind") == "UnaryOperator" and a0.get("opcode") == "&":
                    t = strip(kids(a0)[0])
                    if t.get("kind") == "DeclRefExpr" and re.fullmatch(r"ier\w*|err\w*|status|ierr\w*|error\w*", t["referencedDecl"]["name"]):
                        for x in args:
                            self.expr(x, ctrl)
                        self.flush()
                        act = self.call_act(s0, ctrl)
                        if act["k"] in ("check", "call"):
                            act["rk"] = "int"
                            self.pending = (t["referencedDecl"]["name"], act)
                            return
                        self.emit(S_act(act))
                        return
        self.expr(s, ctrl)

    def switch_arms(self, body):
        """statement lists of the arms of a switch (fall-through continues into the next arm's statements)"""
        if body is None:
            return []
        flat = []

        def unroll(c):
            # case A: case B: stmt  nests; flatten labels
            if c.get("kind") in ("CaseStmt", "DefaultStmt"):
                flat.append(("label", c))
                for x in kids(c):
                    if x.get("kind") in ("ConstantExpr", "IntegerLiteral"):
                        continue
                    unroll(x)
            else:
                flat.append(("stmt", c))
        for c in (kids(body) if body.get("kind") == "CompoundStmt" else [body]):
            unroll(c)
        arms, starts = [], [i for i, (t, _) in enumerate(flat) if t == "label"]
        for si in starts:
            arm = []
            for t, c in flat[si + 1:]:
                if t == "label":
                    continue
                if c.get("kind") == "BreakStmt":
                    break
                arm.append(c)
                if c.get("kind") == "ReturnStmt":
                    break
            arms.append(arm)
        # consecutive labels share their arm: drop duplicates of identical statement lists
        uniq = []
        for a in arms:
            if not uniq or [id(x) for x in uniq[-1]] != [id(x) for x in a]:
                uniq.append(a)
        return uniq

    def goto(self, s, ctrl):
        tgt = s.get("targetLabelDeclId")
        idx = self.toplabels.get(tgt)
        if idx is None or self.goto_depth > 2:
            self.unparsed.append("goto to a label that is not a top-level statement")
            self.emit(S_act(dict(k="unparsed", why="goto", line=self.line(s), args=[], argmap=[])))
            return
        self.goto_depth += 1
        tail = kids(self.body)[idx:]
        saved, self.brk = self.brk, []
        self.block(tail, ctrl)
        self.brk = saved
        self.goto_depth -= 1
        if not always_returns_s(self.out_stack[-1]):
            # control would continue after the end of the function: a return of the fall-through value
            self.emit(S_ret("Void" if self.ret_void else "Var", self.line(s), "end of function after goto"))

    def ret_s(self, s, ctrl):
        ks = kids(s)
        line = self.line(s)
        txt = self.text(s)[:60]
        if not ks:
            self.flush()
            self.emit(S_ret("Void", line, txt))
            return
        e = strip(ks[0])
        if e.get("kind") == "CallExpr":
            nm = callee_name(e)
            if nm == "set_error":
                a = kids(e)[1:]
                v = int_value(a[0]) if a else None
                self.expr(e, ctrl)
                self.emit(S_ret("Ok" if v == 0 else "Err", line, txt))
                return
            if self.linkable(e) and (self.ret_ptr or self.ret == "int") and (qual(e).strip() == "int" or qual(e).strip().endswith("*")):
                for a in kids(e)[1:]:
                    self.expr(a, ctrl)
                self.flush()
                act = self.call_act(e, ctrl)
                self.mirror_dest(e)
                if act["k"] in ("check", "call"):
                    self.emit(S_iffail(act, [S_ret("Err", line, txt)], [S_ret("Ok", line, txt)]))
                    return
                self.emit(S_act(act))
                self.emit(S_ret("Var", line, txt))
                return
        if e.get("kind") == "DeclRefExpr" and self.pending is not None and e["referencedDecl"]["name"] == self.pending[0] \
                and (self.ret_ptr or self.ret == "int"):
            v, act = self.pending
            self.pending = None
            self.emit(S_iffail(act, [S_ret("Err", line, txt)], [S_ret("Ok", line, txt)]))
            return
        for c in ks:
            self.expr(c, ctrl)
        self.flush()
        # `if (v) cgi_error(..); return v;` : the message and the failing status are one decision
        if e.get("kind") == "DeclRefExpr" and self.ret == "int" and self.out_stack[-1]:
            prev = self.out_stack[-1][-1]
            v = e["referencedDecl"]["name"]
            if prev["s"] == "if" and not prev["e"] and prev["t"] and re.fullmatch(r"\(?\s*%s\s*(!=\s*0)?\s*\)?" % re.escape(v), prev.get("cond", "").strip()) and \
                    all(x["s"] == "act" and x["a"]["k"] == "err" for x in prev["t"]):
                self.out_stack[-1].pop()
                self.emit(S_if(prev["t"] + [S_ret("Err", line, txt)], [S_ret("Ok", line, txt)], prev.get("cond", "")))
                return
        r = self.ret_class(s)
        if r == "Call":
            r = "Var"
        if r == "Var" and (self.ret_ptr or self.ret != "int"):
            r = "PVar"                 # a pointer / value found by the function: not a status (unless in a failing arm)
        self.emit(S_ret(r, line, txt))

    def run_structured(self):
        self.body = [c for c in kids(self.fn) if c.get("kind") == "CompoundStmt"][0]
        for i, c in enumerate(kids(self.body)):
            if c.get("kind") == "LabelStmt":
                self.toplabels[c.get("declId")] = i
        self.compute_taint(self.body)
        self.scan_assigned(self.body)
        self.vg = G.var_guards(self.body, self.lm_param)
        self.out_stack = [[]]
        self.stmt(self.body, frozenset())
        self.flush()
        out = self.out_stack.pop()
        fix_guarded_var_returns(out, False)
        return out


def fix_guarded_var_returns(l, guarded):
    """`return ier;` in the failing arm of a check is a failure (the variable holds the status that was just tested)"""
    for s in l:
        if s["s"] == "ret" and s["r"] in ("Var", "PVar"):
            s["r"] = "Err" if guarded else ("Ok" if s["r"] == "PVar" else "Var")
        elif s["s"] == "iffail":
            fix_guarded_var_returns(s["t"], True)
            fix_guarded_var_returns(s["e"], guarded)
        elif s["s"] in ("if", "iflm"):
            fix_guarded_var_returns(s["t"], guarded)
            fix_guarded_var_returns(s["e"], guarded)
        elif s["s"] == "loop":
            fix_guarded_var_returns(s["b"], guarded)


# ------------------------------------------------------------------------------------------------ getters / address macros
ALLOC2 = re.compile(r"(\w+)\s*\[0\]\s*\[\s*\w+\s*\]\s*\.\s*(\w+)\s*=\s*CGNS_NEW\s*\(\s*\w+\s*,\s*(\w+)\s*\[0\]\s*\[\s*\w+\s*\]\s*\.\s*(\w+)\s*\)")


def alloc_pairs(src):
    s = set(tuple(x) for x in G.alloc_pairs(src))
    for m in ALLOC2.finditer(src):              # sol[0][s].field = CGNS_NEW(cgns_array, sol[0][s].nfields)
        if m.group(1) == m.group(3):
            s.add((m.group(4), m.group(2)))
    # arrays grown by the ADDRESS4MULTIPLE macro: parent->child = CGNS_RENEW(type, parent->nchild+1, parent->child)
    return sorted(s)


def addr_macro(repo):
    """the comparison and the element expression of ADDRESS4MULTIPLE, read from its definition"""
    h = open(os.path.join(repo, "src", "cgns_header.h"), errors="replace").read()
    m = re.search(r"#define\s+ADDRESS4MULTIPLE\s*\(([^)]*)\)((?:.*\\\n)*.*)", h)
    if not m:
        return None
    formals = [x.strip() for x in m.group(1).split(",")]
    body = re.sub(r"\\\n", " ", m.group(2))
    body = re.sub(r"\s+", " ", body)
    if len(formals) != 4:
        return None
    pt, nch, ch, cht = formals
    r = re.search(r"if \(\s*given_no\s*(>=|>|<=|<)\s*parent->%s\s*\|\|\s*given_no\s*(>=|>|<=|<)\s*(-?\d+)\s*\)\s*error2\s*=\s*1\s*;\s*else\s+%s\s*=\s*&\s*parent->%s\[\s*given_no\s*([-+])\s*(\d+)\s*\]" % (nch, ch, ch), body)
    grow = re.search(r"parent->%s\s*=\s*CGNS_RENEW\s*\(\s*%s\s*,\s*parent->%s\s*\+\s*1\s*,\s*parent->%s\s*\)" % (ch, cht, nch, ch), body)
    new1 = re.search(r"if \(parent->%s\s*==\s*0\)\s*parent->%s\s*=\s*CGNS_NEW\s*\(\s*%s\s*,\s*1\s*\)" % (nch, ch, cht), body)
    if not r:
        return dict(ok=False, text=body[:200])
    sub = int(r.group(5)) * (-1 if r.group(4) == "-" else 1)
    return dict(ok=True, hi=r.group(1), lo=r.group(2), lo_val=int(r.group(3)), sub=sub, grows=bool(grow and new1))


def addr_rows(src):
    """(function, parent type, count field, array field) of every ADDRESS4MULTIPLE instance"""
    rows = []
    fn = None
    for m in re.finditer(r"^(?:static\s+)?cgns_\w+\s*\*+\s*(cgi_\w+_address)\s*\(|ADDRESS4MULTIPLE\s*\(\s*(\w+)\s*,\s*(\w+)\s*,\s*(\w+)\s*,\s*(\w+)\s*\)", src, re.M):
        if m.group(1):
            fn = m.group(1)
        elif fn:
            rows.append(dict(fn=fn, ptype=m.group(2), cnt=m.group(3), arr_local=m.group(4), ctype=m.group(5)))
    return rows


def struct_fields(repo):
    """struct name -> {field -> declared type text} from cgns_header.h (to resolve the array field ADDRESS4MULTIPLE indexes:
    the macro's third argument IS the field name -- `parent->child` -- so this is only used to confirm it exists)"""
    h = open(os.path.join(repo, "src", "cgns_header.h"), errors="replace").read()
    h = re.sub(r"/\*.*?\*/", " ", h, flags=re.S)
    out = {}
    for m in re.finditer(r"typedef\s+struct(?:\s+\w+)?\s*\{(.*?)\}\s*(\w+)\s*;", h, re.S):
        f = {}
        for d in m.group(1).split(";"):
            d = d.strip()
            mm = re.match(r"(?:struct\s+)?([\w\s]+?)\s*(\*+)?\s*(\w+)\s*(\[[^\]]*\])?$", d)
            if mm:
                f[mm.group(3)] = (mm.group(1).strip() + (mm.group(2) or "")).strip()
        out[m.group(2)] = f
    return out


# ------------------------------------------------------------------------------------------------ parameter kinds
HANDLE_NAMES = {"fn", "file_number", "cgio_num", "cgio_num_inp", "cgio_num_out"}
INDEX_NAMES = {"B", "Z", "S", "P", "Ii", "BC", "F", "C", "G", "A", "D", "N", "Dset", "DS", "R", "J", "I", "index", "Index", "descr_no",
               "IntegralDataIndex", "ArrayNumber", "Fam"}


def param_kind(pn, pt):
    """what an entry point must validate about a parameter, from its type and name: H(andle) I(ndex) N(ame) E(num) O(ther)"""
    t = pt.replace("const ", "").strip()
    if t == "int":
        if pn in HANDLE_NAMES:
            return "H"
        if pn in INDEX_NAMES:
            return "I"
        return "O"
    if t == "char *" and "const" in pt:
        l = pn.lower()
        if l.endswith("name") and l not in ("filename", "file_name", "cadname", "regionname") and "file" not in l:
            return "N"
        return "O"
    if re.search(r"\benum\b|_t\b", t) and "*" not in t and t not in ("cgsize_t", "cglong_t", "size_t"):
        return "E"
    return "O"


# ------------------------------------------------------------------------------------------------ analysis
def src_hash(repo):
    h = hashlib.sha1(VERSION.encode())
    h.update(open(os.path.abspath(__file__), "rb").read())
    h.update(open(os.path.abspath(G.__file__), "rb").read())
    for f in FILES + ["cgnslib.h", "cgns_io.h", "cgns_header.h"]:
        h.update(open(os.path.join(repo, "src", f), "rb").read())
    return h.hexdigest()


def enum_counts(repo):
    """NofValid<Enum> constants of cgnslib.h and the enumerators of every enum (for the harness: max+1)"""
    h = open(os.path.join(repo, "src", "cgnslib.h"), errors="replace").read()
    h = re.sub(r"/\*.*?\*/", " ", h, flags=re.S)
    nof = {m.group(1): int(m.group(2)) for m in re.finditer(r"#define\s+(NofValid\w+)\s+(\d+)", h)}
    enums = {}
    for m in re.finditer(r"typedef\s+enum\s*\{(.*?)\}\s*CGNS_ENUMT\(\s*(\w+)\s*\)\s*;", h, re.S):
        names = [x.strip() for x in re.sub(r"CGNS_ENUMV\(\s*(\w+)\s*\)", r"\1", m.group(1)).split(",") if x.strip()]
        cnt, vals = 0, []
        for nm in names:
            mm = re.match(r"(\w+)\s*=\s*(-?\d+)", nm)
            if mm:
                cnt = int(mm.group(2)); nm = mm.group(1)
            vals.append((nm, cnt)); cnt += 1
        enums[m.group(2)] = vals
    return nof, enums


def analyse(repo, impl):
    TOKENS.clear()
    cg_api, cgio_api = G.api_names(repo)
    srcs = {f: open(os.path.join(repo, "src", f), errors="replace").read() for f in FILES}
    getters = set(re.findall(r"^cgns_\w+\s*\*\s*(cgi_get_\w+)\s*\(", srcs["cgns_internals.c"], re.M)) - {"cgi_get_file"}
    funcs, protos, getter_tab = [], {}, []
    for f in FILES:
        raw = open(os.path.join(repo, "src", f), "rb").read()
        src = raw.decode("latin-1")
        lines = [m.start() for m in re.finditer("\n", src)]
        for fn in G.stream_functions(repo, impl, f):
            name = fn.get("name")
            params = [(p.get("name", ""), qual(p)) for p in kids(fn) if p.get("kind") == "ParmVarDecl"]
            if name and (name.startswith("cg_") or name.startswith("cgio_")) and name not in protos:
                protos[name] = dict(ret=qual(fn).split("(")[0].strip(), params=params, variadic="..." in qual(fn))
            if not any(c.get("kind") == "CompoundStmt" for c in kids(fn)):
                continue
            if not re.search(r"\b%s\s*\(" % re.escape(name), src):
                continue
            w = SWalker(fn, src, lines, getters, f)
            try:
                body = w.run_structured()
                for u in w.unparsed:
                    if not any(s["s"] == "act" and s["a"]["k"] == "unparsed" for s in body):
                        body.append(S_act(dict(k="unparsed", why=u, line=0, args=[], argmap=[])))
            except Exception as ex:
                import traceback
                body = [S_act(dict(k="unparsed", why="walker: %r %s" % (ex, traceback.format_exc()[-300:]), line=0, args=[], argmap=[]))]
            protos.setdefault(name, dict(ret=qual(fn).split("(")[0].strip(), params=params, variadic="..." in qual(fn)))
            funcs.append(dict(name=name, file=f, static=fn.get("storageClass") == "static", line=w.line(fn), ret=w.ret,
                              body=body, params=params, lm_param=bool(w.lm_param)))
            if name in getters:
                try:
                    getter_tab += G.getter_rows(fn, w)
                except Exception as ex:
                    getter_tab.append(dict(kind="Other", getter=name, line=0, text="walker: %r" % (ex,)))
    defined = {f["name"] for f in funcs}
    api = [dict(name=n, doc=G.doc_class(n), defined=n in defined) for n in cg_api + cgio_api]
    both = srcs["cgns_internals.c"] + srcs["cgnslib.c"]
    nof, enums = enum_counts(repo)
    return dict(functions=funcs, getters=getter_tab, alloc_pairs=alloc_pairs(both), protos=protos, api=api,
                getter_names=sorted(getters), addr_macro=addr_macro(repo), addr_rows=addr_rows(srcs["cgns_internals.c"]),
                nofvalid=nof, enums=enums, tokens=dict(TOKENS))


# ------------------------------------------------------------------------------------------------ Coq output
cs, cb = G.cs, G.cb
VCLS = {"Handle": "CHandle", "Open": "COpen", "ModeR": "(CMode MRead)", "ModeW": "(CMode MWrite)", "ModeM": "(CMode MModify)",
        "Index": "CIndex", "Name": "CName", "Enum": "CEnum", "Range": "CRange", "Null": "CNull", "State": "CState"}


def nl(l):
    """parameter positions, 1-based (positive)"""
    return "[" + ";".join("%d" % (x + 1) for x in l) + "]"


def tl(l):
    return "[" + ";".join("%d" % x for x in l) + "]"


def coq_gen(d):
    fid = {}
    for f in d["functions"]:
        if f["name"] not in fid:
            fid[f["name"]] = len(fid) + 2
    ext, mids = {}, {}

    def ident(name):
        if name is None:
            return 1
        if name in fid:
            return fid[name]
        if name not in ext:
            ext[name] = len(fid) + len(ext) + 2
        return ext[name]

    def act(a, fname):
        k = a["k"]
        if k == "check":
            return "ACheck %s %d %s %s true" % (VCLS[a["v"]], ident(a.get("callee")), nl(a["args"]), tl(a.get("ids", [])))
        if k == "call":
            return "ACall %s %d %s %s true" % ({"R": "ARead", "W": "AWrite", "P": "APass"}.get(a.get("arg0"), "ANone"), ident(a["callee"]),
                                              nl(a["args"]), tl(a.get("ids", [])))
        if k == "mirror":
            key = (fname, a["tgt"])
            if key not in mids:
                mids[key] = len(mids) + 1
            return "AMirror %d" % mids[key]
        if k == "err":
            return "AErr"
        return "AUnparsed"

    def stms(l, fname, ind):
        """continuation form: QAct a (QIfFail a t e (... QEnd))"""
        pad = " " * (2 + ind)
        lines, closes = [], 0
        for s in l:
            k = s["s"]
            if k == "act":
                lines.append(pad + "QAct (%s) (" % act(s["a"], fname)); closes += 1
            elif k == "ret":
                lines.append(pad + "QRet R%s" % s["r"])
                break                                   # anything after a return is dead
            elif k == "iffail":
                lines.append(pad + "QIfFail (%s)\n%s\n%s (" % (act(s["a"], fname), stms(s["t"], fname, ind + 1), stms(s["e"], fname, ind + 1))); closes += 1
            elif k == "if":
                lines.append(pad + "QIf\n%s\n%s (" % (stms(s["t"], fname, ind + 1), stms(s["e"], fname, ind + 1))); closes += 1
            elif k == "iflm":
                lines.append(pad + "QIfLM\n%s\n%s (" % (stms(s["t"], fname, ind + 1), stms(s["e"], fname, ind + 1))); closes += 1
            elif k == "loop":
                lines.append(pad + "QLoop\n%s (" % stms(s["b"], fname, ind + 1)); closes += 1
            elif k == "brk":
                lines.append(pad + "QBrk")
                break
        else:
            lines.append(pad + "QEnd")
        return pad + "(" + "\n".join(x.lstrip() if n == 0 else x for n, x in enumerate(lines)) + ")" * (closes + 1)

    out = ["(* GENERATED by translators/c12_validate.py from the current sources of /repo -- do not edit, not committed *)",
           "From Coq Require Import List String ZArith.", "From CgnsV Require Import Gates Validate.", "Import ListNotations.",
           "Open Scope string_scope.", "Open Scope positive_scope.", ""]
    api = {a["name"]: a for a in d["api"]}
    rows, seen = [], set()
    for f in d["functions"]:
        if f["name"] in seen:
            continue
        seen.add(f["name"])
        a = api.get(f["name"])
        vis = ("(Api Doc%s)" % a["doc"]) if a and not f["static"] else "Internal"
        kinds = "[" + ";".join("P" + param_kind(pn, pt) for pn, pt in f["params"]) + "]"
        rows.append(" mkVRow %d %s %s %s\n%s" % (fid[f["name"]], cs(f["name"]), vis, kinds, stms(f["body"], f["name"], 0)))
    out.append("Definition table : list vrow := [")
    out.append(";\n".join(rows))
    out.append("].")
    out.append("")
    out.append("Definition externs : list (positive * string) := [")
    out.append(";\n".join(" (%d, %s)" % (i, cs(n)) for n, i in sorted(ext.items(), key=lambda x: x[1])))
    out.append("].")
    out.append("")
    out.append("(* stores through the in-memory tree: id, (function, normalised lvalue path) *)")
    out.append("Definition mirrors : list (positive * (string * string)) := [")
    out.append(";\n".join(" (%d, (%s, %s))" % (i, cs(k[0]), cs(k[1])) for k, i in sorted(mids.items(), key=lambda x: x[1])))
    out.append("].")
    out.append("")
    out.append("Definition api_undefined : list string := [%s]." % "; ".join(cs(a["name"]) for a in d["api"] if not a["defined"]))
    out.append("")
    out.append("Close Scope positive_scope.")
    out.append("Open Scope Z_scope.")
    out.append("Definition getters : list grow := [")
    g = []
    opn = {">": "OGt", ">=": "OGe", "<": "OLt", "<=": "OLe", "==": "OEq", "!=": "ONe"}
    for r in d["getters"]:
        if r["kind"] == "Idx":
            g.append(" GIdx %s %s %s %s %s %s %s (%d) (%d)" % (cs(r["getter"]), cs(r["idx"]), cs(r["parent"]), cs(r["cnt"]),
                                                            cs(r["arr"]), opn[r["hi_op"]], opn[r["lo_op"]], r["lo_val"], r["sub"]))
        elif r["kind"] == "Loop":
            g.append(" GLoop %s %s %s %s" % (cs(r["getter"]), cs(r["parent"]), cs(r["cnt"]), cs(r["arr"])))
        elif r["kind"] == "Single":
            g.append(" GSingle %s %s %s" % (cs(r["getter"]), cs(r["field"]), cb(r["checked"])))
        elif r["kind"] == "Var":
            g.append(" GVar %s %s" % (cs(r["getter"]), cs(r["var"])))
        else:
            g.append(" GOther %s %s" % (cs(r["getter"]), cs(r["text"])))
    out.append(";\n".join(g))
    out.append("].")
    out.append("")
    am = d["addr_macro"]
    out.append("(* ADDRESS4MULTIPLE(parent_type, nchild, child, child_type) of cgns_header.h: the index test and element expression of")
    out.append("   its definition, and its instances in the cgi_*_address resolvers *)")
    if am and am.get("ok"):
        out.append("Definition addr_macro : option (cmpop * cmpop * Z * Z * bool) := Some (%s, %s, (%d), (%d), %s)." %
                   (opn[am["hi"]], opn[am["lo"]], am["lo_val"], am["sub"], cb(am["grows"])))
    else:
        out.append("Definition addr_macro : option (cmpop * cmpop * Z * Z * bool) := None.")
    out.append("Definition addr_rows : list (string * string * string * string) := [")
    out.append(";\n".join(" (%s, %s, %s, %s)" % (cs(r["fn"]), cs(r["ptype"]), cs(r["cnt"]), cs(r["arr_local"])) for r in d["addr_rows"]))
    out.append("].")
    out.append("")
    out.append("Definition alloc_pairs : list (string * string) := [%s]." % "; ".join("(%s, %s)" % (cs(a), cs(b)) for a, b in d["alloc_pairs"]))
    out.append("Definition getter_names : list string := [%s]." % "; ".join(cs(n) for n in d["getter_names"]))
    return "\n".join(out) + "\n", fid, ext, mids


def write_gen(repo="/repo", impl=None, force=False):
    impl = impl or os.path.join(ROOT, ".build", "cgns")
    h = src_hash(repo)
    cdir = os.path.join(ROOT, ".build", "c12_cache")
    os.makedirs(cdir, exist_ok=True)
    cf = os.path.join(cdir, h + ".json")
    d = None
    if os.path.exists(cf) and not force:
        try:
            d = json.load(open(cf))
        except Exception:
            d = None
    cached = d is not None
    if d is None:
        d = analyse(repo, impl)
        tmp = cf + ".%d.tmp" % os.getpid()
        json.dump(d, open(tmp, "w"))
        os.replace(tmp, cf)
        for old in sorted((os.path.join(cdir, x) for x in os.listdir(cdir) if x.endswith(".json")), key=os.path.getmtime)[:-6]:
            try:
                os.unlink(old)
            except OSError:
                pass
    txt, fid, ext, mids = coq_gen(d)
    p = os.path.join(ROOT, "coq", "Gen_C12.v")
    if not os.path.exists(p) or open(p).read() != txt:
        open(p, "w").write(txt)

    def count(l, pred):
        n = 0
        for s in l:
            n += 1 if pred(s) else 0
            for k in ("t", "e", "b"):
                if k in s:
                    n += count(s[k], pred)
        return n
    nun = sum(1 for f in d["functions"] if count(f["body"], lambda s: s["s"] in ("act", "iffail") and s["a"]["k"] == "unparsed"))
    info = dict(files=FILES, functions=len(d["functions"]), unparsed=nun, api=len(d["api"]),
                api_defined=sum(1 for a in d["api"] if a["defined"]), statements=sum(size_of(f["body"]) for f in d["functions"]),
                checks=sum(count(f["body"], lambda s: s["s"] == "iffail" and s["a"]["k"] == "check") for f in d["functions"]),
                getter_rows=len(d["getters"]), addr_rows=len(d["addr_rows"]), mirror_targets=len(mids),
                gen_sha1=hashlib.sha1(txt.encode()).hexdigest(), cached=cached, src_sha1=h)
    d["fid"], d["ext"] = fid, ext
    return info, d


def show(l, ind=0):
    for s in l:
        pad = "  " * ind
        k = s["s"]
        if k == "act":
            a = s["a"]
            print(pad + "act", a["k"], a.get("v", ""), a.get("callee") or a.get("tgt") or a.get("fn") or a.get("why", ""), a.get("args", ""), a.get("line", ""))
        elif k == "ret":
            print(pad + "ret", s["r"], s["line"])
        elif k == "iffail":
            a = s["a"]
            print(pad + "iffail", a["k"], a.get("v", ""), a.get("callee") or a.get("text", ""), a.get("args", ""), a.get("line", ""))
            show(s["t"], ind + 2)
            if s["e"]:
                print(pad + " else")
                show(s["e"], ind + 2)
        elif k in ("if", "iflm"):
            print(pad + k, s.get("cond", ""))
            show(s["t"], ind + 2)
            if s["e"]:
                print(pad + " else")
                show(s["e"], ind + 2)
        elif k == "loop":
            print(pad + "loop")
            show(s["b"], ind + 2)
        elif k == "brk":
            print(pad + "break")


if __name__ == "__main__":
    import time
    t = time.time()
    repo = os.environ.get("VERIF_REPO", "/repo")
    info, d = write_gen(repo=repo, force="--force" in sys.argv)
    print(json.dumps(info, indent=1), "%.1fs" % (time.time() - t))
    for a in sys.argv[1:]:
        for f in d["functions"]:
            if f["name"] == a:
                print(f["name"], f["file"], f["line"])
                show(f["body"])
