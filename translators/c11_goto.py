#!/usr/bin/env python3
"""c11_goto.py -- tie (T) of property C11: re-extract, from /repo's CURRENT sources, the tables behind
"all ways of addressing a node agree" and write coq/Gen_C11.v.

What is read (token level; comments and preprocessor lines are dropped, nothing is macro-expanded):

  src/cgns_internals.c  cgi_next_posit      every parent block and every child-label arm.  An arm body is a
                        sequence of alternatives, each an instance of one of two templates:
                          multiple:  if (--index < 0) { for (n = 0; n < v->CNT_LOOP; n++) { if (0 == strcmp
                                     (v->ARR_LOOP[n].name, name)) { index = n; break; } } }
                                     if (index >= LO && index < v->CNT_BOUND) { [posit_zone = index + 1;]
                                       return cgi_add_posit((void *)&v->ARR_PUSH[index], label, index + K,
                                                            v->ARR_ID[index].id); }
                          single:    if (v->P_TEST && (index == I || 0 == strcmp (v->P_NAME->name, name))) {
                                       return cgi_add_posit((void *)v->P_PUSH, label, J, v->P_ID->id); }
                        EVERY USE of a field is a separate column; nothing is decided here -- the decision
                        (arm_ok) is a Gallina function in coq/Goto.v evaluated by the Coq kernel.
  src/cgns_internals.c  cgi_update_posit, cgi_set_posit, cgi_add_posit      } normalised token streams compared with
  src/cgnslib.c         vcg_goto, vcg_gorel, cg_gopath, cg_golist, cg_where } the streams transcribed in coq/Goto.v
                        (a changed statement => the `shape` obligation is false; the model is hand transcribed)
  src/cgns_internals.c, src/cgnslib.c   every function that dispatches on posit->label (the cgi_*_address resolvers,
                        cg_ndescriptors, cg_narrays, cg_nuser_data, cg_delete_node ...): per arm the labels, the
                        struct type posit->posit is cast to, and the ADDRESS4MULTIPLE / ADDRESS4SINGLE /
                        ADDRESS4SINGLE_ALLOC / NDESCRIPTOR / CGNS_DELETE_SHIFT / CGNS_DELETE_CHILD arguments
  src/cgns_header.h     the struct declarations: field name -> int | pointer to struct | other, in order
  src/cgnslib.h         the enumerators Dirichlet / Neumann used as indices

Whatever cannot be classified becomes an Unparsed row (UnparsedBlock / UnparsedArm / AUnparsed), which makes the
forallb obligation false -- nothing is skipped silently.
"""
import hashlib, json, os, re, sys

ROOT = os.path.dirname(os.path.dirname(os.path.abspath(__file__)))

TOK = re.compile(r"""
    (?P<ws>\s+)
  | (?P<str>"(?:\\.|[^"\\])*")
  | (?P<chr>'(?:\\.|[^'\\])*')
  | (?P<num>0[xX][0-9a-fA-F]+[uUlL]*|\d+\.?\d*(?:[eE][-+]?\d+)?[uUlLfF]*)
  | (?P<id>[A-Za-z_]\w*)
  | (?P<op>->|\+\+|--|<<=|>>=|<<|>>|<=|>=|==|!=|&&|\|\||\+=|-=|\*=|/=|%=|&=|\|=|\^=|\.\.\.|[-+*/%&|^~!<>=?:;,.()\[\]{}\#\\@$`])
""", re.X)


def strip_comments_pp(text):
    """remove /* */ and // comments and preprocessor lines (with continuations); keep line structure"""
    out, i, n = [], 0, len(text)
    while i < n:
        c = text[i]
        if c == '"' or c == "'":
            j = i + 1
            while j < n and text[j] != c:
                j += 2 if text[j] == "\\" else 1
            out.append(text[i:j + 1]); i = j + 1
        elif text.startswith("/*", i):
            j = text.find("*/", i + 2)
            j = n if j < 0 else j + 2
            out.append("".join(ch if ch == "\n" else " " for ch in text[i:j])); i = j
        elif text.startswith("//", i):
            j = text.find("\n", i)
            j = n if j < 0 else j
            i = j
        else:
            out.append(c); i += 1
    lines = "".join(out).split("\n")
    res, k = [], 0
    while k < len(lines):
        l = lines[k]
        if l.lstrip().startswith("#"):
            while l.rstrip().endswith("\\") and k + 1 < len(lines):
                res.append(""); k += 1; l = lines[k]
            res.append("")
        else:
            res.append(l)
        k += 1
    return "\n".join(res)


def tokenize(text):
    """-> list of (kind, value, line)"""
    out, i, line = [], 0, 1
    while i < len(text):
        m = TOK.match(text, i)
        if not m:
            out.append(("op", text[i], line)); i += 1; continue
        k = m.lastgroup
        v = m.group(k)
        if k != "ws":
            out.append((k, v, line))
        line += v.count("\n")
        i = m.end()
    return out


def match_close(toks, i):
    """toks[i] is an opening bracket; index of its partner"""
    op = toks[i][1]
    cl = {"(": ")", "{": "}", "[": "]"}[op]
    d = 0
    for j in range(i, len(toks)):
        v = toks[j][1]
        if v == op:
            d += 1
        elif v == cl:
            d -= 1
            if d == 0:
                return j
    raise ValueError("unbalanced %s at line %d" % (op, toks[i][2]))


def functions(toks):
    """top-level function definitions: name -> (index of '{', index of '}')"""
    res, i, depth = {}, 0, 0
    n = len(toks)
    while i < n:
        v = toks[i][1]
        if v == "{":
            j = match_close(toks, i)
            # a function body: '{' preceded by ')' whose '(' is preceded by an identifier
            if i > 0 and toks[i - 1][1] == ")":
                d, k = 0, i - 1
                while k >= 0:
                    if toks[k][1] == ")":
                        d += 1
                    elif toks[k][1] == "(":
                        d -= 1
                        if d == 0:
                            break
                    k -= 1
                if k > 0 and toks[k - 1][0] == "id":
                    res.setdefault(toks[k - 1][1], (i, j))
            i = j + 1
        else:
            i += 1
    return res


def vals(toks):
    return [t[1] for t in toks]


class Fail(Exception):
    pass


class Cur:
    """a cursor over a token list with a tiny pattern language: literal tokens, $x = capture identifier,
    @x = capture string literal, #x = capture number"""
    def __init__(self, toks, i=0, end=None):
        self.t, self.i, self.end = toks, i, len(toks) if end is None else end

    def peek(self, k=0):
        return self.t[self.i + k][1] if self.i + k < self.end else None

    def line(self):
        return self.t[min(self.i, len(self.t) - 1)][2]

    def eat(self, pat, cap=None):
        cap = {} if cap is None else cap
        for p in pat.split():
            if self.i >= self.end:
                raise Fail("end of text, expected %s" % p)
            k, v, ln = self.t[self.i]
            if p[0] == "$" and len(p) > 1:
                if k != "id":
                    raise Fail("line %d: expected identifier, found %s" % (ln, v))
                if p in cap and cap[p] != v:
                    raise Fail("line %d: %s is %s, expected %s" % (ln, p, v, cap[p]))
                cap[p] = v
            elif p[0] == "@" and len(p) > 1:
                if k != "str":
                    raise Fail("line %d: expected string literal, found %s" % (ln, v))
                cap[p] = v[1:-1]
            elif p[0] == "#" and len(p) > 1:
                if k != "num":
                    raise Fail("line %d: expected number, found %s" % (ln, v))
                cap[p] = int(v, 0)
            elif v != p:
                raise Fail("line %d: expected '%s', found '%s'" % (ln, p, v))
            self.i += 1
        return cap

    def try_eat(self, pat, cap=None):
        save = self.i
        c2 = dict(cap or {})
        try:
            self.eat(pat, c2)
            if cap is not None:
                cap.update(c2)
            return True
        except Fail:
            self.i = save
            return False


# ----------------------------------------------------------------------------- cgi_next_posit
def parse_const(cur, enums):
    """1 | CGNS_ENUMV ( Name ) | Name   ->  (int or None, text)"""
    c = {}
    if cur.try_eat("#n", c):
        return c["#n"], str(c["#n"])
    if cur.try_eat("CGNS_ENUMV ( $e )", c) or cur.try_eat("$e", c):
        e = c["$e"]
        if e in enums:
            return enums[e], e
        raise Fail("line %d: unknown enumerator %s" % (cur.line(), e))
    raise Fail("line %d: constant expected, found %s" % (cur.line(), cur.peek()))


def parse_plabel(cur):
    """the label argument of cgi_add_posit: the variable `label` (None) or a string literal"""
    c = {}
    if cur.try_eat("label ,"):
        return None
    if cur.try_eat("@s ,", c):
        return c["@s"]
    raise Fail("line %d: pushed label not recognised" % cur.line())


def parse_alt(cur, var, enums):
    """one alternative of an arm body, starting at `if`"""
    c = {"$v": var}
    if cur.try_eat("if ( -- index < 0 ) {"):
        cur.eat("for ( n = 0 ; n < $v -> $cnt_loop ; n ++ ) {", c)
        cur.eat("if ( 0 == strcmp ( $v -> $arr_loop [ n ] . name , name ) ) { index = n ; break ; } } }", c)
        cur.eat("if ( index", c)
        if cur.try_eat(">= #lo", c):
            lo = c["#lo"]
        elif cur.try_eat("> #lo", c):
            lo = c["#lo"] + 1
        else:
            raise Fail("line %d: lower bound of the index check not recognised" % cur.line())
        cur.eat("&& index", c)
        if cur.try_eat("<"):
            hi_incl = False
        elif cur.try_eat("<="):
            hi_incl = True
        else:
            raise Fail("line %d: upper bound of the index check not recognised" % cur.line())
        cur.eat("$v -> $cnt_bound ) {", c)
        setzone = False
        zadd = 0
        if cur.try_eat("posit_zone = index + #z ;", c):
            setzone, zadd = True, c["#z"]
        cur.eat("return cgi_add_posit ( ( void * ) & $v -> $arr_push [ index ] ,", c)
        plab = parse_plabel(cur)
        if cur.try_eat("index + #k ,", c):
            k = c["#k"]
        elif cur.try_eat("index ,", c):
            k = 0
        else:
            raise Fail("line %d: pushed index expression not recognised" % cur.line())
        cur.eat("$v -> $arr_id [ index ] . id ) ; }", c)
        return ("M", c["$cnt_loop"], c["$arr_loop"], lo, hi_incl, c["$cnt_bound"], c["$arr_push"], c["$arr_id"], k,
                setzone, zadd, plab)
    cur.eat("if ( $v -> $p_test && ( index ==", c)
    it, _ = parse_const(cur, enums)
    cur.eat("|| 0 == strcmp ( $v -> $p_name -> name , name ) ) ) {", c)
    cur.eat("return cgi_add_posit ( ( void * ) $v -> $p_push ,", c)
    plab = parse_plabel(cur)
    ip, _ = parse_const(cur, enums)
    cur.eat(", $v -> $p_id -> id ) ; }", c)
    return ("S", c["$p_test"], c["$p_name"], c["$p_push"], c["$p_id"], it, ip, plab)


def parse_next_posit(toks, fb, enums):
    """-> (blocks, tail_ok, stats).  blocks: list of ("B", labels, pty, arms) | ("U", why);
    arms: list of ("A", child, alts) | ("U", child, why)"""
    b0, b1 = fb
    cur = Cur(toks, b0 + 1, b1)
    stats = {"blocks": 0, "arms": 0, "alts": 0, "unparsed_blocks": 0, "unparsed_arms": 0}
    blocks = []
    tail_ok = True
    try:
        cur.eat("int n ;")
    except Fail as e:
        blocks.append(("U", "prologue: %s" % e)); stats["unparsed_blocks"] += 1
    first = True
    while True:
        if not first:
            if not cur.try_eat("else"):
                break
        if cur.peek() != "if":
            if first:
                blocks.append(("U", "line %d: no if-chain" % cur.line())); stats["unparsed_blocks"] += 1
            break
        first = False
        start = cur.i
        # header
        try:
            cur.eat("if (")
            labels = []
            while True:
                c = cur.eat("0 == strcmp ( posit -> label , @l )")
                labels.append(c["@l"])
                if not cur.try_eat("||"):
                    break
            cur.eat(") {")
            body_open = cur.i - 1
            body_close = match_close(toks, body_open)
            c = cur.eat("$T * $v = ( $T * ) posit -> posit ;")
            pty, var = c["$T"], c["$v"]
        except (Fail, ValueError) as e:
            # skip the whole statement
            j = start
            while toks[j][1] != "{" and j < b1:
                j += 1
            try:
                cur.i = match_close(toks, j) + 1
            except ValueError:
                cur.i = b1
            blocks.append(("U", str(e))); stats["unparsed_blocks"] += 1
            continue
        stats["blocks"] += 1
        arms = []
        afirst = True
        chain_ok = False
        while cur.i < body_close:
            if not afirst:
                if not cur.try_eat("else"):
                    arms.append(("U", "?", "line %d: statement after the else-if chain" % cur.line())); stats["unparsed_arms"] += 1
                    break
                if cur.try_eat("return CG_INCORRECT_PATH ;"):
                    chain_ok = True
                    if cur.i != body_close:
                        arms.append(("U", "?", "line %d: statement after the final else" % cur.line())); stats["unparsed_arms"] += 1
                    break
            afirst = False
            try:
                cur.eat("if (")
                child = []
                while True:
                    c = cur.eat("0 == strcmp ( label , @c )")
                    child.append(c["@c"])
                    if not cur.try_eat("||"):
                        break
                cur.eat(") {")
            except Fail as e:
                arms.append(("U", "?", str(e))); stats["unparsed_arms"] += 1
                break
            a_open = cur.i - 1
            a_close = match_close(toks, a_open)
            alts = []
            try:
                sub = Cur(toks, cur.i, a_close)
                while sub.i < a_close:
                    alts.append(parse_alt(sub, var, enums))
                if not alts:
                    raise Fail("line %d: empty arm" % cur.line())
                arms.append(("A", child, alts)); stats["arms"] += 1; stats["alts"] += len(alts)
            except Fail as e:
                arms.append(("U", "/".join(child), str(e))); stats["unparsed_arms"] += 1
            cur.i = a_close + 1
        if not chain_ok and not any(a[0] == "U" for a in arms):
            arms.append(("U", "?", "block %s: the else-if chain does not end in `else return CG_INCORRECT_PATH;`" % labels[0]))
            stats["unparsed_arms"] += 1
        blocks.append(("B", labels, pty, arms))
        cur.i = body_close + 1
    # tail
    try:
        cur.eat("return CG_INCORRECT_PATH ; return CG_NODE_NOT_FOUND ;")
        if cur.i != b1:
            raise Fail("line %d: trailing statements" % cur.line())
    except Fail as e:
        tail_ok = False
        blocks.append(("U", "tail: %s" % e)); stats["unparsed_blocks"] += 1
    return blocks, tail_ok, stats


# ----------------------------------------------------------------------------- structs, enums
def parse_structs(htoks):
    """typedef struct [tag] { fields } name;  -> {name: [(field, kind, type)]}, tag aliases"""
    res, tags = {}, {}
    i, n = 0, len(htoks)
    while i < n:
        if htoks[i][1] == "typedef" and i + 1 < n and htoks[i + 1][1] == "struct":
            j = i + 2
            tag = None
            if htoks[j][0] == "id":
                tag = htoks[j][1]; j += 1
            if htoks[j][1] != "{":
                i += 1; continue
            k = match_close(htoks, j)
            name = htoks[k + 1][1]
            if tag:
                tags[tag] = name
            fields = []
            p = j + 1
            while p < k:
                q = p
                while htoks[q][1] != ";":
                    q += 1
                decl = vals(htoks[p:q])
                p = q + 1
                if not decl:
                    continue
                # CGNS_ENUMT ( X ) name  |  type name | type * name | struct tag * name | type name [ n ]
                if "[" in decl:
                    decl = decl[:decl.index("[")]
                fname = decl[-1]
                ty = decl[:-1]
                if ty and ty[-1] == "*":
                    base = [t for t in ty[:-1] if t != "struct" and t != "*"]
                    stars = ty.count("*")
                    if stars == 1 and len(base) == 1:
                        fields.append((fname, "ptr", base[0]))
                    else:
                        fields.append((fname, "other", " ".join(ty)))
                elif ty == ["int"]:
                    fields.append((fname, "int", "int"))
                else:
                    fields.append((fname, "other", " ".join(ty)))
            res[name] = fields
            i = k + 1
        else:
            i += 1
    for nm, fl in res.items():
        res[nm] = [(f, k, tags.get(t, t)) for f, k, t in fl]
    return res


def parse_enums(ltoks):
    """CGNS_ENUMV ( Name ) = value  (only the two used as goto indices are needed; all simple ones are kept)"""
    res = {}
    for i in range(len(ltoks) - 6):
        v = vals(ltoks[i:i + 6])
        if v[0] == "CGNS_ENUMV" and v[1] == "(" and v[3] == ")" and v[4] == "=" and ltoks[i + 5][0] == "num":
            res.setdefault(v[2], int(v[5], 0))
    return res


# ----------------------------------------------------------------------------- label dispatchers (address table)
MACROS = {"ADDRESS4MULTIPLE": 4, "ADDRESS4SINGLE_ALLOC": 2, "ADDRESS4SINGLE": 4, "NDESCRIPTOR": 1,
          "CGNS_DELETE_SHIFT": 3, "CGNS_DELETE_CHILD": 2}


def split_args(toks, i):
    """toks[i] == '(' -> (list of argument token lists, index after ')')"""
    j = match_close(toks, i)
    args, cur, d = [], [], 0
    for t in toks[i + 1:j]:
        if t[1] in "([{":
            d += 1
        elif t[1] in ")]}":
            d -= 1
        if t[1] == "," and d == 0:
            args.append(cur); cur = []
        else:
            cur.append(t)
    args.append(cur)
    return args, j + 1


def label_cond(toks, i):
    """toks[i] == '(' of an if: a disjunction of label comparisons -> (labels, index after ')') or None"""
    j = match_close(toks, i)
    cur = Cur(toks, i + 1, j)
    labels = []

    def disj(end):
        while True:
            c = {}
            if cur.peek() == "(":
                k = match_close(toks, cur.i)
                cur.i += 1
                disj(k)
                cur.eat(")")
            elif cur.try_eat("0 == strcmp ( posit -> label , @l )", c) or cur.try_eat("strcmp ( posit -> label , @l ) == 0", c) \
                    or cur.try_eat("! strcmp ( posit -> label , @l )", c):
                labels.append(c["@l"])
            else:
                raise Fail("not a label comparison")
            if cur.i == end:
                return
            cur.eat("||")
    try:
        disj(j)
    except (Fail, ValueError):
        return None
    return labels, j + 1


def stmt_end(toks, i):
    """index after the statement starting at i (block, macro call with or without ';', or simple statement)"""
    if toks[i][1] == "{":
        return match_close(toks, i) + 1
    if toks[i][0] == "id" and toks[i][1] in MACROS and toks[i + 1][1] == "(":
        j = match_close(toks, i + 1) + 1
        if j < len(toks) and toks[j][1] == ";":
            j += 1
        return j
    if toks[i][1] == "if":
        j = match_close(toks, i + 1) + 1
        j = stmt_end(toks, j)
        if j < len(toks) and toks[j][1] == "else":
            j = stmt_end(toks, j + 1)
        return j
    d = 0
    j = i
    while j < len(toks):
        v = toks[j][1]
        if v in "([{":
            d += 1
        elif v in ")]}":
            d -= 1
        elif v == ";" and d == 0:
            return j + 1
        j += 1
    return j


def scan_dispatcher(fname, toks, fb, parent_var_types):
    """every `if (<label disjunction>) <stmt>` inside the function -> rows; every other posit->label use must be an
    argument of cgi_error or part of an explicitly excused construct"""
    b0, b1 = fb
    rows = []
    accounted = set()
    i = b0
    while i < b1:
        if toks[i][1] == "if" and toks[i + 1][1] == "(":
            lc = label_cond(toks, i + 1)
            if lc:
                labels, s0 = lc
                for k in range(i, s0):
                    accounted.add(k)
                s1 = stmt_end(toks, s0)
                body = toks[s0:s1]
                bv = vals(body)
                casts = set()
                for k in range(len(bv) - 6):
                    if bv[k] == "(" and body[k + 1][0] == "id" and bv[k + 2] == "*" and bv[k + 3] == ")" and \
                            bv[k + 4:k + 7] == ["posit", "->", "posit"]:
                        casts.add(bv[k + 1])
                macs = []
                for k in range(len(bv) - 1):
                    if body[k][0] == "id" and bv[k] in MACROS and bv[k + 1] == "(":
                        args, _ = split_args(body, k + 1)
                        macs.append((bv[k], ["".join(vals(a)) for a in args]))
                nested = any(bv[k] == "posit" and bv[k + 1] == "->" and bv[k + 2] == "label" for k in range(len(bv) - 2)
                             if not _in_error_call(body, k))
                rows.append({"fn": fname, "labels": labels, "casts": sorted(casts), "macros": macs, "line": toks[i][2],
                             "nested": nested})
                # nested label tests inside the body are scanned too (we do not skip the body)
                i = s0
                continue
        i += 1
    other = []
    seen_if = set()
    for k in range(b0, b1 - 2):
        if toks[k][1] == "posit" and toks[k + 1][1] == "->" and toks[k + 2][1] == "label" and k not in accounted:
            if _in_error_call(toks, k):
                continue
            # the enclosing `if (`
            d, j = 0, k
            while j > b0:
                v = toks[j][1]
                if v == ")":
                    d += 1
                elif v == "(":
                    if d == 0 and toks[j - 1][1] == "if":
                        break
                    if d > 0:
                        d -= 1
                elif v in ";{}":
                    j = b0
                    break
                j -= 1
            if j <= b0:
                other.append(toks[k][2]); continue
            if j in seen_if:
                continue
            seen_if.add(j)
            ce = match_close(toks, j)
            s1 = stmt_end(toks, ce + 1)
            cond = Cur(toks, j + 1, ce)
            c = {}
            stmt_v = vals(toks[ce + 1:s1])
            if (cond.try_eat("strcmp ( posit -> label , @l )", c) or cond.try_eat("0 != strcmp ( posit -> label , @l )", c)) \
                    and (cond.i == ce or (cond.try_eat("!= 0") and cond.i == ce)) and "return" in stmt_v:
                # negative guard: the rest of the function runs under label @l
                rest = toks[s1:b1]
                rv = vals(rest)
                casts = set()
                for q in range(len(rv) - 6):
                    if rv[q] == "(" and rest[q + 1][0] == "id" and rv[q + 2] == "*" and rv[q + 3] == ")" and \
                            rv[q + 4:q + 7] == ["posit", "->", "posit"]:
                        casts.add(rv[q + 1])
                rows.append({"fn": fname, "labels": [c["@l"]], "casts": sorted(casts), "macros": [], "line": toks[j][2],
                             "nested": False, "guard": True})
                continue
            has_access = any(stmt_v[q:q + 3] == ["posit", "->", "posit"] for q in range(len(stmt_v) - 2))
            if has_access:
                other.append(toks[k][2])
            # else: a label test that guards no access to the position (counted by the caller)
    return rows, other


def _in_error_call(toks, k):
    """is token k inside the argument list of cgi_error(...) / cgi_warning(...)?"""
    d = 0
    j = k
    while j >= 0 and k - j < 80:
        v = toks[j][1]
        if v == ")":
            d += 1
        elif v == "(":
            if d == 0:
                return j > 0 and toks[j - 1][1] in ("cgi_error", "cgi_warning", "printf", "sprintf", "snprintf")
            d -= 1
        elif v in ";{}":
            return False
        j -= 1
    return False


# `posit->label` uses that are not `if (label disjunction)` dispatch arms and are excused by name (reason given):
EXCUSED_OTHER = {
    "cgi_update_posit": "the `..` step clears posit_zone when leaving a Zone_t (transcribed in Goto.v)",
    "cgi_next_posit": "parsed by the arm parser",
    "cg_link_write": "a pure white-list of labels (conjunction of strcmp != 0), no cast, no child access",
}


# ----------------------------------------------------------------------------- shape of the hand-transcribed functions
SHAPE_FUNCS = [("cgns_internals.c", "cgi_add_posit"), ("cgns_internals.c", "cgi_update_posit"),
               ("cgns_internals.c", "cgi_set_posit"), ("cgns_internals.c", "cgi_posit_id"),
               ("cgnslib.c", "vcg_goto"), ("cgnslib.c", "vcg_gorel"), ("cgnslib.c", "cg_gopath"),
               ("cgnslib.c", "cg_golist"), ("cgnslib.c", "cg_where")]


def shape_of(toks, fb):
    """normalised token text of a function body with string literals of cgi_error calls blanked"""
    b0, b1 = fb
    out = []
    k = b0
    while k <= b1:
        kind, v, _ = toks[k]
        if kind == "id" and v in ("cgi_error", "cg_io_error") and toks[k + 1][1] == "(":
            j = match_close(toks, k + 1)
            out.append(v + "(..)")
            k = j + 1
            continue
        out.append(v)
        k += 1
    return " ".join(out)


# ----------------------------------------------------------------------------- Coq output
def cs(s):
    return '"' + s.replace('"', '""') + '"'


def clist(xs, sep="; "):
    return "[" + sep.join(xs) + "]"


def copt(s):
    return "None" if s is None else "(Some %s)" % cs(s)


def cbool(b):
    return "true" if b else "false"


def cz(n):
    return str(n) if n >= 0 else "(%d)" % n


def translate(repo):
    src_int = open(os.path.join(repo, "src", "cgns_internals.c"), errors="replace").read()
    src_lib = open(os.path.join(repo, "src", "cgnslib.c"), errors="replace").read()
    src_hdr = open(os.path.join(repo, "src", "cgns_header.h"), errors="replace").read()
    src_pub = open(os.path.join(repo, "src", "cgnslib.h"), errors="replace").read()
    t_int = tokenize(strip_comments_pp(src_int))
    t_lib = tokenize(strip_comments_pp(src_lib))
    t_hdr = tokenize(strip_comments_pp(src_hdr))
    t_pub = tokenize(strip_comments_pp(src_pub))
    f_int, f_lib = functions(t_int), functions(t_lib)
    enums = parse_enums(t_pub)
    structs = parse_structs(t_hdr)
    info = {"files": ["src/cgns_internals.c", "src/cgnslib.c", "src/cgns_header.h", "src/cgnslib.h"]}

    # ---- goto table
    if "cgi_next_posit" in f_int:
        blocks, tail_ok, st = parse_next_posit(t_int, f_int["cgi_next_posit"], enums)
    else:
        blocks, tail_ok, st = [("U", "cgi_next_posit not found")], False, {"blocks": 0, "arms": 0, "alts": 0, "unparsed_blocks": 1, "unparsed_arms": 0}
    info["goto"] = st
    info["goto"]["tail_ok"] = tail_ok
    info["goto"]["parent_labels"] = sum(len(b[1]) for b in blocks if b[0] == "B")
    unparsed_list = []
    gl = []
    for b in blocks:
        if b[0] == "U":
            gl.append("  UnparsedBlock %s" % cs(b[1])); unparsed_list.append("block: " + b[1]); continue
        _, labels, pty, arms = b
        al = []
        for a in arms:
            if a[0] == "U":
                al.append("      UnparsedArm %s %s" % (cs(a[1]), cs(a[2]))); unparsed_list.append("arm %s/%s: %s" % (labels[0], a[1], a[2])); continue
            alts = []
            for x in a[2]:
                if x[0] == "M":
                    _, cl, arl, lo, hi, cb, ap, ai, k, sz, za, pl = x
                    alts.append("AMulti %s %s %s %s %s %s %s %s %s %s %s" % (cs(cl), cs(arl), cz(lo), cbool(hi), cs(cb), cs(ap), cs(ai), cz(k), cbool(sz), cz(za), copt(pl)))
                else:
                    _, pt, pn, pp, pi, it, ip, pl = x
                    alts.append("ASingle %s %s %s %s %s %s %s" % (cs(pt), cs(pn), cs(pp), cs(pi), cz(it), cz(ip), copt(pl)))
            al.append("      Arm %s %s" % (clist([cs(x) for x in a[1]]), clist(alts)))
        gl.append("  Block %s %s [\n%s]" % (clist([cs(l) for l in labels]), cs(pty), ";\n".join(al)))

    # ---- structs (only what the tables can mention: every struct of cgns_header.h, int and pointer fields in order)
    sl = []
    for nm in sorted(structs):
        fl = []
        for f, k, t in structs[nm]:
            if k == "int":
                fl.append("(%s, FInt)" % cs(f))
            elif k == "ptr":
                fl.append("(%s, FPtr %s)" % (cs(f), cs(t)))
            else:
                fl.append("(%s, FOther)" % cs(f))
        sl.append("  (%s, %s)" % (cs(nm), clist(fl)))
    info["structs"] = len(structs)

    # ---- label dispatchers
    arows, a_unparsed, others = [], 0, {}
    disp_funcs = []
    for fname_src, toks, funs in (("cgns_internals.c", t_int, f_int), ("cgnslib.c", t_lib, f_lib)):
        for fn, fb in sorted(funs.items(), key=lambda kv: kv[1][0]):
            if fn in ("cgi_next_posit",):
                continue
            b0, b1 = fb
            has = any(toks[k][1] == "posit" and toks[k + 1][1] == "->" and toks[k + 2][1] == "label" for k in range(b0, b1 - 2))
            if not has:
                continue
            rows, other = scan_dispatcher(fn, toks, fb, None)
            if other and fn not in EXCUSED_OTHER:
                others[fn] = other
            if rows:
                disp_funcs.append(fn)
            for r in rows:
                arows.append(r)
    al = []
    kinds = {}
    for r in arows:
        labels = clist([cs(l) for l in r["labels"]])
        where = "%s:%d" % (r["fn"], r["line"])
        if len(r["casts"]) > 1:
            al.append("  AUnparsed %s %s" % (cs(where), cs("several cast types: " + ",".join(r["casts"])))); a_unparsed += 1
            unparsed_list.append("dispatcher %s: several casts" % where); continue
        macs = r["macros"]
        pty_m = set(m[1][0] for m in macs if m[0].startswith("ADDRESS4") or m[0] == "NDESCRIPTOR")
        pty = r["casts"][0] if r["casts"] else ""
        if pty_m:
            if len(pty_m) > 1 or (pty and pty_m != {pty}):
                al.append("  AUnparsed %s %s" % (cs(where), cs("macro parent types disagree: " + ",".join(sorted(pty_m | set(r["casts"]))))))
                a_unparsed += 1; unparsed_list.append("dispatcher %s: macro types" % where); continue
            pty = list(pty_m)[0]
        uses = []
        bad = None
        for m, args in macs:
            if len(args) != MACROS[m]:
                bad = "%s with %d arguments" % (m, len(args)); break
            if m == "ADDRESS4MULTIPLE":
                uses.append("UMultiple %s %s %s" % (cs(args[1]), cs(args[2]), cs(args[3])))
            elif m == "ADDRESS4SINGLE_ALLOC":
                uses.append("UField %s" % cs(args[1]))
            elif m == "ADDRESS4SINGLE":
                uses.append("USingle %s %s" % (cs(args[1]), cs(args[2])))
            elif m == "NDESCRIPTOR":
                uses.append("UCount %s" % cs("ndescr"))
            elif m == "CGNS_DELETE_SHIFT":
                uses.append("UShift %s %s" % (cs(args[0]), cs(args[1])))
            elif m == "CGNS_DELETE_CHILD":
                uses.append("UChild %s" % cs(args[0]))
            kinds[m] = kinds.get(m, 0) + 1
        if bad:
            al.append("  AUnparsed %s %s" % (cs(where), cs(bad))); a_unparsed += 1
            unparsed_list.append("dispatcher %s: %s" % (where, bad)); continue
        if not pty:
            kinds["no-cast"] = kinds.get("no-cast", 0) + 1
        al.append("  ARow %s %s %s %s" % (cs(r["fn"]), labels, cs(pty), clist(uses)))
    for fn, lines in sorted(others.items()):
        al.append("  AUnparsed %s %s" % (cs(fn), cs("posit->label used outside a label-dispatch condition at lines " + ",".join(map(str, lines[:6])))))
        a_unparsed += 1
        unparsed_list.append("dispatcher %s: stray posit->label" % fn)
    info["dispatch"] = {"functions": len(disp_funcs), "rows": len(arows), "unparsed": a_unparsed, "macro_uses": kinds,
                        "excused": {k: v for k, v in EXCUSED_OTHER.items()}}

    # ---- selector arms: inside a dispatcher block for parent label P, `strcmp(<parameter>, "L") == 0` choosing the
    # single child that ADDRESS4SINGLE(T, field, ...) addresses (cgi_model_address, cgi_particle_model_address ...): the
    # child labelled L under P must be the one the goto table pushes for (P, L)
    sel_rows = []
    for fname_src, toks, funs in (("cgns_internals.c", t_int, f_int), ("cgnslib.c", t_lib, f_lib)):
        for fn, fb in sorted(funs.items(), key=lambda kv: kv[1][0]):
            if fn == "cgi_next_posit":
                continue
            txt = " ".join(toks[k][1] for k in range(fb[0], fb[1] + 1))
            if "posit -> label" not in txt:
                continue
            parents = [(m.start(), m.group(1)) for m in re.finditer(r'strcmp \( posit -> label , "(\w+)" \) == 0', txt)]
            for m in re.finditer(r'strcmp \( (\w+) , "(\w+_t)" \) == 0 \) \{ ([^{}]*?)\}', txt):
                if m.group(1) == "posit":
                    continue
                body = m.group(3)
                mm = re.search(r'ADDRESS4SINGLE(?:_ALLOC)? \( (\w+) , (\w+) ,', body)
                if not mm:
                    continue
                par = [p for pos, p in parents if pos < m.start()]
                if not par:
                    continue
                sel_rows.append((fn, par[-1], m.group(2), mm.group(2)))
    info["selector_rows"] = len(sel_rows)

    # ---- shapes
    shapes = []
    missing = []
    for fsrc, fn in SHAPE_FUNCS:
        toks, funs = (t_int, f_int) if fsrc == "cgns_internals.c" else (t_lib, f_lib)
        if fn not in funs:
            missing.append(fn)
            shapes.append("  (%s, %s)" % (cs(fn), cs("<missing>")))
        else:
            shapes.append("  (%s, %s)" % (cs(fn), cs(shape_of(toks, funs[fn]))))
    info["shape_functions"] = [f for _, f in SHAPE_FUNCS]
    info["shape_missing"] = missing

    # CG_MAX_GOTO_DEPTH and the status codes
    consts = {}
    for name in ("CG_MAX_GOTO_DEPTH", "CG_OK", "CG_ERROR", "CG_NODE_NOT_FOUND", "CG_INCORRECT_PATH"):
        m = re.search(r"#\s*define\s+%s\s+(\d+)" % name, src_pub)
        consts[name] = int(m.group(1)) if m else -1
    info["consts"] = consts
    info["parsed"] = st["arms"] + len(arows) - a_unparsed
    info["unparsed"] = st["unparsed_blocks"] + st["unparsed_arms"] + a_unparsed
    info["unparsed_list"] = unparsed_list[:40]

    text = ("(* GENERATED on every run by translators/c11_goto.py from the current src/cgns_internals.c, src/cgnslib.c,\n"
            "   src/cgns_header.h and src/cgnslib.h.  Never edit, never commit. *)\n"
            "From Coq Require Import ZArith List String.\nFrom CgnsV Require Import Goto.\nImport ListNotations.\n"
            "Local Open Scope string_scope.\nLocal Open Scope Z_scope.\n\n"
            "Definition goto_table : list brow := [\n%s\n].\n\n"
            "Definition tail_ok : bool := %s.\n\n"
            "Definition structs : list (string * list (string * ftype)) := [\n%s\n].\n\n"
            "Definition addr_table : list arow := [\n%s\n].\n\n"
            "Definition shapes : list (string * string) := [\n%s\n].\n\n"
            "Definition sel_table : list (string * string * string * string) := [\n%s\n].\n\n"
            "Definition max_goto_depth : Z := %d.\nDefinition code_ok : Z := %d.\nDefinition code_error : Z := %d.\n"
            "Definition code_not_found : Z := %d.\nDefinition code_incorrect_path : Z := %d.\n"
            % (";\n".join(gl), cbool(tail_ok), ";\n".join(sl), ";\n".join(al), ";\n".join(shapes),
               ";\n".join("  (%s, %s, %s, %s)" % (cs(a), cs(b), cs(c), cs(d)) for a, b, c, d in sel_rows),
               consts["CG_MAX_GOTO_DEPTH"], consts["CG_OK"], consts["CG_ERROR"], consts["CG_NODE_NOT_FOUND"],
               consts["CG_INCORRECT_PATH"]))
    model = {"blocks": blocks, "structs": structs, "arows": arows, "enums": {k: enums[k] for k in ("Dirichlet", "Neumann") if k in enums}}
    return text, info, model


def write_gen(repo=None, out=None):
    repo = repo or os.environ.get("VERIF_REPO", "/repo")
    out = out or os.path.join(ROOT, "coq", "Gen_C11.v")
    text, info, model = translate(repo)
    if not os.path.exists(out) or open(out).read() != text:
        open(out, "w").write(text)
        info["gen_changed"] = True
    else:
        info["gen_changed"] = False
    info["gen_sha1"] = hashlib.sha1(text.encode()).hexdigest()
    return info, model


if __name__ == "__main__":
    if len(sys.argv) > 1 and sys.argv[1] == "--dry":
        text, info, model = translate(os.environ.get("VERIF_REPO", "/repo"))
        json.dump(info, sys.stdout, indent=1); print()
    else:
        info, model = write_gen()
        json.dump(info, sys.stdout, indent=1)
        print()
