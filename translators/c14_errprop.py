#!/usr/bin/env python3
"""c14_errprop.py -- tie (T) of property C14 (second half: "an I/O failure is always reported"): re-extract, from
/repo's CURRENT sources, the STATUS SKELETON of every function defined in src/adf/ADF_interface.c,
src/adf/ADF_internals.c and src/cgns_io.c and write coq/Gen_C14.v (+ a JSON side file used by checks/C14b.py).

One ROW PER CALL SITE of a callee that can deliver a status or that is defined in the three files:
   caller, callee, position (line), how the status is delivered
        DPtr   through the callee's status parameter (`int *error_return` / `int *err`; ADFI_*, ADF_*, ADFH_*)
        DRet   as the return value (cgio_*, the static helpers of cgns_io.c, ADFI_write / ADFI_read, the system calls)
        DNone  the callee has no status at all (void, no status parameter)
   and what happens to that status next, from a forward data-flow analysis of the function body over the clang AST
   (if / loops to a fixpoint / switch / forward goto; `&&`, `||`, `!`, comparisons give the polarity of a test):
        KReturn       tested, and on the error branch the function returns with an error status of its own
                      (CHECK_ADF_ABORT, `if (*error_return != NO_ERROR) return`, `if (ierr > 0) return set_error(ierr)`,
                      `if (cgio_x(..)) return CG_ERROR` ..)
        KFlow         never overwritten before the function ends: the status IS the caller's status at exit
                      (last fallible call delivering into the function's own *error_return, `return f(..)`, `return ierr`)
        KHandled      tested, but on (some path of) the error branch the function goes on and the status is later
                      overwritten / the function returns success / nothing is returned
        KOverwritten  NOT tested before the same location receives another status (the next fallible call reuses the
                      same `error_return`, or an assignment resets it)
        KIgnored      never read: cast to void / expression statement / dummy variable / NULL status pointer, or the
                      function ends (returns a success constant) while the status is pending in a local
        KUnparsed     anything the walker cannot classify (falsifies the obligation)
   When several paths give several verdicts the WORST one is kept (Unparsed > Overwritten > Ignored > Handled > Flow >
   Return).  Nothing is decided here about which rows matter: the call graph, the set of functions that can reach a
   primitive write / seek / close and the obligation are Gallina (coq/ErrProp.v), evaluated by the kernel.

The pairs (caller, callee) of ErrProp.known_unchecked (the hand list of statuses that are genuinely unchecked in the
current code) are translated to ids and emitted as `exceptions`; pairs that name no row of the current table are emitted
as `stale_exceptions` (reported by the check, never required: repairing a listed pair in /repo breaks nothing).
The functions of src/cgnslib.c and src/cgns_internals.c that call cgio_* are added with rows for those call sites only.
"""
import bisect, hashlib, json, os, re, sys

sys.path.insert(0, os.path.dirname(os.path.abspath(__file__)))
import subprocess                                                                    # noqa: E402
from c07_gates import kids, strip, loc_off, qual, callee_name, int_value            # noqa: E402

ROOT = os.path.dirname(os.path.dirname(os.path.abspath(__file__)))
FILES = ["adf/ADF_interface.c", "adf/ADF_internals.c", "cgns_io.c"]
# the mid-level library: only the call sites of cgio_* are rows (the cg_* / cgi_* call graph above them is not modelled)
FILES_MLL = ["cgnslib.c", "cgns_internals.c"]
VERSION = "13"

STATUS_PARAM_NAMES = {"error_return", "err", "error_return_input", "error_ret", "ierr"}
# system calls (the primitives).  kind 'neg': < 0 is the error; 'count': -1 or a short count is the error
SYSCALLS = {"write": "count", "read": "count", "pwrite": "count", "pread": "count", "lseek": "neg", "close": "neg",
            "fsync": "neg", "fdatasync": "neg", "ftruncate": "neg", "unlink": "neg", "rename": "neg", "remove": "neg",
            "_write": "count", "_read": "count", "_lseek": "neg", "_close": "neg", "_commit": "neg", "fclose": "neg",
            "fflush": "neg", "fwrite": "count"}
COUNT_RET = {"ADFI_write", "ADFI_read"}
# functions of cgns_io.c whose int/pointer return value is NOT a status
NOT_STATUS_RET = {"set_error", "get_cgnsio", "compute_data_size", "cgio_is_supported", "cgio_compute_data_size",
                  "ADFI_stridx_c", "ADFI_strtok", "ADFI_stack_control", "ADFI_stack_control_body"}
NORETURN = {"ADFI_Abort", "exit", "abort", "_exit", "cgio_error_exit", "longjmp", "__assert_fail"}
GLOBAL_STATUS = {"last_err"}



def clang_cmd(repo, impl, fname):
    # the PRODUCTION code: CGNS_VERIF (the add-only trace wrappers of the verification build) is not defined
    return ["clang", "-fsyntax-only", "-Xclang", "-ast-dump=json", "-w",
            "-I" + os.path.join(impl, "src"), "-I" + os.path.join(repo, "src"), "-I" + os.path.join(repo, "src", "adf"),
            "-I" + os.path.join(repo, "src", "adfh"), "-I/usr/include/hdf5/serial", os.path.join(repo, "src", fname)]


def stream_functions(repo, impl, fname):
    """yield the JSON of every FunctionDecl of the translation unit (top-level declarations only; as c07_gates)"""
    p = subprocess.Popen(clang_cmd(repo, impl, fname), stdout=subprocess.PIPE, stderr=subprocess.PIPE, text=True,
                         errors="replace", bufsize=1 << 20)
    chunk = None
    for line in p.stdout:
        if chunk is None:
            if line == "    {\n":
                chunk = [line]
        else:
            chunk.append(line)
            if line == "    },\n" or line == "    }\n":
                if '"kind": "FunctionDecl"' in "".join(chunk[:4]):
                    yield json.loads("".join(chunk).rstrip().rstrip(","))
                chunk = None
    err = p.stderr.read()
    if p.wait() != 0:
        raise RuntimeError("clang failed on %s: %s" % (fname, err[-1500:]))


RANK = {"Return": 0, "Flow": 1, "Handled": 2, "Ignored": 3, "Overwritten": 4, "Unparsed": 5}


# ------------------------------------------------------------------------------------------------ abstract state
class St:
    """pend: loc -> frozenset((site, tested)); err: locs known to hold an error value"""
    __slots__ = ("pend", "err", "dead")

    def __init__(self, pend=None, err=None, dead=False):
        self.pend = dict(pend or {})
        self.err = set(err or ())
        self.dead = dead                      # control cannot reach this point (after exit / abort / __assert_fail)

    def copy(self):
        return St(self.pend, self.err, self.dead)

    def key(self):
        return (tuple(sorted((k, tuple(sorted(v))) for k, v in self.pend.items() if v)), tuple(sorted(self.err)))


def merge(*sts):
    sts = [s for s in sts if s is not None and not s.dead]
    if not sts:
        return None
    out = sts[0].copy()
    for s in sts[1:]:
        for k, v in s.pend.items():
            out.pend[k] = frozenset(out.pend.get(k, frozenset())) | v
        out.err &= s.err
    return out


class Walker:
    def __init__(self, fn, fname, lines, protos, defined, restricted=False):
        self.fn, self.fname, self.lines, self.protos, self.defined = fn, fname, lines, protos, defined
        self.restricted = restricted
        self.name = fn["name"]
        self.ret = qual(fn).split("(")[0].strip()
        ps = [(p.get("name"), qual(p)) for p in kids(fn) if p.get("kind") == "ParmVarDecl"]
        self.own = None
        for n, t in ps:
            if t.replace(" ", "") == "int*" and n in STATUS_PARAM_NAMES:
                self.own = "*" + n
        self.style = "ptr" if self.own else ("ret" if self.ret != "void" and self.name not in NOT_STATUS_RET else "none")
        self.ptr_ret = self.ret.endswith("*")            # a pointer-returning function reports failure with NULL
        self.params = {n for n, _ in ps}
        self.sites = {}          # key (offset) -> dict
        self.order = []
        self.gotos, self.labels_done, self.backward = {}, set(), []
        self.brk, self.cont, self.sw = [], [], []
        self.notes = []

    # ---- positions
    def off(self, n):
        r = n.get("range") or {}
        b = loc_off(r.get("begin"))
        return b[0] if b and b[0] is not None else None

    def line(self, n):
        o = self.off(n)
        return bisect.bisect_left(self.lines, o) + 1 if o is not None else 0

    # ---- sites
    def site(self, call, callee, deliv, kind):
        k = (self.off(call), callee)
        if k not in self.sites:
            self.sites[k] = dict(callee=callee, line=self.line(call), off=self.off(call) or 0, deliv=deliv, kind=kind,
                                 out=set(), why=[])
            self.order.append(k)
        return k

    def outcome(self, k, what, why=None):
        s = self.sites[k]
        s["out"].add(what)
        if why and RANK[what] >= 2 and len(s["why"]) < 4 and why not in s["why"]:
            s["why"].append(why)

    def unparsed(self, n, text):
        k = ("u%d" % len(self.sites), "?")
        self.sites[k] = dict(callee="?", line=self.line(n) if n else 0, off=0, deliv="None", kind="?", out={"Unparsed"},
                             why=[text[:120]])
        self.order.append(k)

    # ---- losing / keeping pending statuses
    def lose(self, st, loc, how, why):
        """the statuses pending in loc are destroyed: untested -> how (Overwritten / Ignored), tested -> Handled"""
        for (k, tested) in st.pend.get(loc, ()):
            self.outcome(k, "Handled" if tested else how, why)
        st.pend[loc] = frozenset()
        st.err.discard(loc)

    def finish(self, st, errknown, flow_loc, line):
        """the function returns here.  errknown: its own status is known to be an error; flow_loc: the location whose
        value IS the returned status"""
        for loc, v in st.pend.items():
            for (k, tested) in v:
                if loc == flow_loc:
                    self.outcome(k, "Return" if tested else "Flow")
                elif errknown:
                    self.outcome(k, "Return")
                elif tested:
                    self.outcome(k, "Handled", "tested, then the function returns at line %d without an error status of its own" % line)
                else:
                    self.outcome(k, "Ignored", ("return value discarded; the function returns at line %d without an error status" % line) if loc.startswith("$d")
                                 else "still pending in `%s` when the function returns at line %d" % (loc, line))

    def loc_err(self, st, loc):
        return loc in st.err or any(t for (_, t) in st.pend.get(loc, ()))

    # ---- expressions.  value descriptors: ("call", site) ("loc", L) ("const", v) ("other",)
    def status_loc_of(self, e):
        """the status location an lvalue / rvalue expression denotes, or None"""
        e = strip(e)
        k = e.get("kind")
        if k == "DeclRefExpr":
            d = e["referencedDecl"]
            if d.get("kind") in ("VarDecl", "ParmVarDecl") and qual(d).replace("const ", "").strip() in (
                    "int", "cglong_t", "long", "cgsize_t", "ssize_t", "off_t", "long long", "cgulong_t", "herr_t", "file_offset_t"):
                return d["name"]
            return None
        if k == "UnaryOperator" and e.get("opcode") == "*":
            a = strip(kids(e)[0])
            if a.get("kind") == "DeclRefExpr" and "*" + a["referencedDecl"]["name"] == self.own:
                return self.own
        return None

    def ev(self, e, st):
        k = e.get("kind")
        if k in ("ParenExpr", "ImplicitCastExpr", "ConstantExpr"):
            return self.ev(kids(e)[0], st) if kids(e) else ("other",)
        if k == "CStyleCastExpr":
            d = self.ev(kids(e)[-1], st)
            if qual(e) == "void" and d[0] == "call":
                self.sites[d[1]]["loc"] = "(cast to void)"
                st.pend["$d%d" % self.order.index(d[1])] = frozenset([(d[1], False)])
                return ("other",)
            return d
        if k in ("IntegerLiteral", "CharacterLiteral"):
            return ("const", int(e["value"]))
        if k == "UnaryOperator":
            op = e.get("opcode")
            if op == "-":
                d = self.ev(kids(e)[0], st)
                return ("const", -d[1]) if d[0] == "const" else ("other",)
            if op == "*":
                L = self.status_loc_of(e)
                if L:
                    return ("loc", L)
            if op == "!":
                t, f = self.cond(e, st)
                self.assign_state(st, merge(t, f))
                return ("other",)
            d = self.ev(kids(e)[0], st)
            if d[0] == "call":
                self.outcome(d[1], "Unparsed", "return value used under unary %s" % op)
            return ("other",)
        if k == "DeclRefExpr":
            L = self.status_loc_of(e)
            return ("loc", L) if L else ("other",)
        if k == "CallExpr":
            return self.call(e, st)
        if k == "BinaryOperator":
            op = e.get("opcode")
            a, b = kids(e)
            if op == "=":
                L = self.status_loc_of(a)
                if L is None:
                    self.ev(a, st)
                d = self.ev(b, st)
                if L is not None:
                    self.assign(st, L, d, self.line(e))
                    return ("loc", L)
                if d[0] == "call":
                    # stored somewhere that is not a plain status variable (a struct field ..)
                    if self.sites[d[1]]["kind"] in ("count", "neg", "zero"):
                        self.outcome(d[1], "Unparsed", "status stored in a non-variable lvalue")
                return ("other",)
            if op == ",":
                d = self.ev(a, st)
                if d[0] == "call":
                    self.outcome(d[1], "Ignored", "left operand of a comma")
                return self.ev(b, st)
            if op in ("&&", "||", "==", "!=", "<", ">", "<=", ">="):
                t, f = self.cond(e, st)
                self.assign_state(st, merge(t, f))
                return ("other",)
            da, db = self.ev(a, st), self.ev(b, st)
            for d in (da, db):
                if d[0] == "call" and self.sites[d[1]]["kind"] in ("neg", "zero", "adf"):
                    self.outcome(d[1], "Unparsed", "status used in arithmetic (%s)" % op)
                elif d[0] == "call":
                    self.outcome(d[1], "Ignored", "count used in arithmetic (%s) without a test" % op)
            return ("other",)
        if k == "CompoundAssignOperator":
            a, b = kids(e)
            L = self.status_loc_of(a)
            d = self.ev(b, st)
            if d[0] == "call":
                self.outcome(d[1], "Ignored", "return value accumulated (%s) without a test" % e.get("opcode"))
            if L is not None and st.pend.get(L):
                self.lose(st, L, "Overwritten", "`%s` modified by %s at line %d" % (L, e.get("opcode"), self.line(e)))
            return ("other",)
        if k == "StmtExpr":
            # GNU statement expression (glibc's assert): run the statements
            new = st
            for c in kids(e):
                new = self.stmt(c, new if new is None else new.copy()) if c.get("kind") == "CompoundStmt" else new
            self.assign_state(st, new)
            return ("other",)
        if k == "ConditionalOperator":
            c, a, b = kids(e)
            t, f = self.cond(c, st)
            da = self.ev(a, t) if (t is not None and not t.dead) else ("other",)
            db = self.ev(b, f) if (f is not None and not f.dead) else ("other",)
            for d in (da, db):
                if d[0] == "call":
                    self.outcome(d[1], "Unparsed", "call in an arm of ?:")
            self.assign_state(st, merge(t, f))
            if da[0] == "const" and db[0] == "const" and da[1] != 0 and db[1] != 0:
                return ("const", da[1])
            return ("other",)
        # anything else: walk the children for their calls; a status value flowing into it is not understood
        for c in kids(e):
            if isinstance(c, dict) and c.get("kind") and not c["kind"].endswith("Type"):
                d = self.ev(c, st)
                if d[0] == "call" and k not in ("MemberExpr", "ArraySubscriptExpr", "UnaryExprOrTypeTraitExpr"):
                    self.outcome(d[1], "Unparsed", "return value used inside %s" % k)
        return ("other",)

    def assign_state(self, st, new):
        if new is None:
            st.pend = {}
            st.err = set()
            st.dead = True
        else:
            st.pend, st.err, st.dead = dict(new.pend), set(new.err), new.dead

    def ok_consts(self, L):
        """the constants that mean success for the statuses living in L (ADF: NO_ERROR = -1; cgio / system calls: 0)"""
        if self.fname.startswith("adf/"):
            return {-1} if L == self.own else {-1, 0}
        return {0}

    def assign(self, st, L, d, line):
        if d[0] == "loc" and d[1] == L:
            return
        if d[0] == "call":
            self.lose(st, L, "Overwritten", "`%s` receives the status of %s at line %d" % (L, self.sites[d[1]]["callee"], line))
            st.pend[L] = frozenset([(d[1], False)])
            st.err.discard(L)
            self.sites[d[1]]["loc"] = L
            return
        if d[0] == "loc":
            L2 = d[1]
            if self.loc_err(st, L2) and L2 in st.err:
                # L receives a value known to be an error: what is pending in L stays reported (L holds an error either way)
                keep = st.pend.get(L, frozenset())
                st.pend[L] = frozenset(keep) | st.pend.get(L2, frozenset())
                st.pend[L2] = frozenset()
                st.err.add(L)
                return
            self.lose(st, L, "Overwritten", "`%s` = `%s` at line %d" % (L, L2, line))
            st.pend[L] = st.pend.get(L2, frozenset())
            st.pend[L2] = frozenset()
            if L2 in st.err or any(t for _, t in st.pend[L]):
                st.err.add(L)
            else:
                st.err.discard(L)
            return
        if d[0] == "const":
            if d[1] in self.ok_consts(L):
                self.lose(st, L, "Overwritten", "`%s` reset to %d at line %d" % (L, d[1], line))
                st.err.discard(L)
            else:
                # an error constant: what is pending in L stays an error; every status already TESTED on this path
                # is from now on carried by L
                moved = set(st.pend.get(L, ()))
                for loc in list(st.pend):
                    if loc != L:
                        keep = set()
                        for (k, t) in st.pend[loc]:
                            (moved if t else keep).add((k, False) if t else (k, t))
                        st.pend[loc] = frozenset(keep)
                st.pend[L] = frozenset((k, False) for (k, _) in moved)
                st.err.add(L)
            return
        # unknown right-hand side
        self.lose(st, L, "Overwritten", "`%s` assigned an unclassified value at line %d" % (L, line))
        st.err.discard(L)

    def call(self, e, st):
        name = callee_name(e)
        args = kids(e)[1:]
        if name is None:
            for a in kids(e):
                self.ev(a, st)
            self.unparsed(e, "indirect call")
            return ("other",)
        proto = self.protos.get(name)
        sidx = proto["status"] if proto else None
        tracked = name in self.defined or sidx is not None or name in SYSCALLS or name.startswith("ADFH_")
        if self.restricted:
            tracked = name.startswith("cgio_") and name in self.defined
            sidx = None
        if name == "set_error" and args and not self.restricted:
            d = self.ev(args[0], st)
            if d[0] == "const":
                if d[1] != 0:
                    self.assign(st, "last_err", d, self.line(e))
                return d
            if d[0] == "loc":
                # last_err = the value of that location
                return d
            return ("other",)
        # arguments (in order); the status argument is looked at below
        for i, a in enumerate(args):
            if sidx is not None and i == sidx:
                continue
            d = self.ev(a, st)
            if d[0] == "call":
                self.outcome(d[1], "Unparsed", "return value passed as an argument of %s" % name)
        if self.fname == "cgns_io.c" and name in self.defined and name != "set_error" and st.pend.get("last_err"):
            self.lose(st, "last_err", "Overwritten", "last_err is reset by the call of %s at line %d" % (name, self.line(e)))
            st.err.discard("last_err")
        if name in NORETURN:
            self.assign_state(st, None)
            return ("other",)
        if not tracked:
            return ("other",)
        if sidx is not None and sidx < len(args):
            a = strip(args[sidx])
            loc = None
            if a.get("kind") == "DeclRefExpr" and "*" + a["referencedDecl"]["name"] == self.own:
                loc = self.own
            elif a.get("kind") == "UnaryOperator" and a.get("opcode") == "&":
                loc = self.status_loc_of(kids(a)[0])
            kind = "adfh" if name.startswith("ADFH_") else "adf"
            k = self.site(e, name, "Ptr", kind)
            if loc is None:
                if int_value(a) == 0 or (a.get("kind") in ("GNUNullExpr",)):
                    self.outcome(k, "Ignored", "NULL passed as the status pointer")
                else:
                    self.outcome(k, "Unparsed", "status pointer argument not understood")
                return ("other",)
            self.lose(st, loc, "Overwritten", "`%s` is handed to %s at line %d" % (loc, name, self.line(e)))
            st.pend[loc] = frozenset([(k, False)])
            st.err.discard(loc)
            self.sites[k]["loc"] = loc
            return ("other",)
        rett = proto["ret"] if proto else "int"
        if rett == "void":
            if name in self.defined:
                k = self.site(e, name, "None", "none")
                self.outcome(k, "Ignored", "the callee has no status")
            return ("other",)
        if name in NOT_STATUS_RET:
            k = self.site(e, name, "None", "none")
            self.outcome(k, "Ignored", "the callee's return value is not a status")
            return ("other",)
        kind = SYSCALLS.get(name) or ("count" if name in COUNT_RET else "zero")
        k = self.site(e, name, "Ret", kind)
        return ("call", k)

    # ---- conditions
    def test_polarity(self, op, kind, c, c_is_const):
        """(then, else) in {E, O, U} for `status op c`"""
        E, O, U = "E", "O", "U"
        inv = {"E": "O", "O": "E", "U": "U"}
        if op in ("==", "<=", ">=") and False:
            pass
        if kind == "adf":
            if c_is_const and c == -1:
                return {"!=": (E, O), "==": (O, E), ">": (U, U), "<": (U, U)}.get(op, (U, U))
            if c_is_const and c == 0:
                return {">": (E, O), "<=": (O, E), "!=": (U, U), "==": (U, U), ">=": (U, U), "<": (O, E)}.get(op, (U, U))
            if c_is_const and c > 0:
                return {"==": (E, U), "!=": (U, E)}.get(op, (U, U))
            return (U, U)
        if kind in ("zero", "adfh"):
            if c_is_const and c == 0:
                return {"!=": (E, O), "==": (O, E), ">": (E, O), "<=": (O, E), "<": (E, O), ">=": (O, E)}.get(op, (U, U))
            if c_is_const:
                return {"==": (E, U), "!=": (U, E)}.get(op, (U, U))
            return (U, U)
        if kind == "neg":
            if c_is_const and c == 0:
                return {"<": (E, O), ">=": (O, E), "!=": (E, O), "==": (O, E)}.get(op, (U, U))
            if c_is_const and c == -1:
                return {"==": (E, O), "!=": (O, E), "<=": (E, O), ">": (O, E)}.get(op, (U, U))
            return (U, U)
        if kind == "count":
            if c_is_const and c in (0, -1):
                return {"<": (E, O), "<=": (E, O), "==": (E, O) if c == -1 else (U, U), "!=": (O, E) if c == -1 else (U, U),
                        ">=": (O, E), ">": (O, E)}.get(op, (U, U))
            # compared with the expected length
            return {"!=": (E, O), "==": (O, E), "<": (E, O), ">=": (O, E)}.get(op, (U, U))
        return (U, U)

    def kinds_in(self, st, L):
        if L == self.own and st.pend.get(L):
            # whatever was moved into the function's own status (`*error_return = FILE_CLOSE_ERROR` after a failed close()) is
            # read back in the convention of that location
            return {"adfh" if self.fname.startswith("adfh/") else "adf"}
        return set(self.sites[k]["kind"] for (k, _) in st.pend.get(L, ()))

    def apply_pol(self, st, L, pol):
        """restrict st to the branch where the statuses in L are: E error / O success / U unknown"""
        if st is None:
            return None
        if pol == "O" and L in st.err:
            return None                       # L is known to hold an error on every path that reaches this test
        s = st.copy()
        if pol == "E":
            s.pend[L] = frozenset((k, True) for (k, _) in s.pend.get(L, ()))
            s.err.add(L)
        elif pol == "O":
            s.pend[L] = frozenset()
        return s

    def to_last_err(self, st, L):
        """cgns_io.c: a cgio_* callee that returned non-zero has left that value in last_err (set_error)"""
        if st is None or self.fname != "cgns_io.c":
            return
        mine = [(k, t) for (k, t) in st.pend.get(L, ()) if self.sites[k]["callee"] in self.defined and self.sites[k]["kind"] == "zero"]
        if mine and len(mine) == len(st.pend.get(L, ())):
            self.lose(st, "last_err", "Overwritten", "last_err receives the status of %s" % self.sites[mine[0][0]]["callee"])
            st.pend["last_err"] = frozenset(mine)
            st.pend[L] = frozenset()
            st.err.add("last_err")

    def cond(self, e, st):
        """-> (state when true, state when false)"""
        if st is None or st.dead:
            return None, None
        e0 = e
        while e0.get("kind") in ("ParenExpr", "ImplicitCastExpr") and kids(e0):
            e0 = kids(e0)[0]
        k = e0.get("kind")
        if k == "UnaryOperator" and e0.get("opcode") == "!":
            t, f = self.cond(kids(e0)[0], st)
            return f, t
        if k == "BinaryOperator" and e0.get("opcode") == "&&":
            a, b = kids(e0)
            t1, f1 = self.cond(a, st)
            t2, f2 = self.cond(b, t1)
            return t2, merge(f1, f2)
        if k == "BinaryOperator" and e0.get("opcode") == "||":
            a, b = kids(e0)
            t1, f1 = self.cond(a, st)
            t2, f2 = self.cond(b, f1)
            return merge(t1, t2), f2
        if k == "BinaryOperator" and e0.get("opcode") in ("==", "!=", "<", ">", "<=", ">="):
            op = e0["opcode"]
            a, b = kids(e0)
            s = st.copy()
            da = self.ev(a, s)
            db = self.ev(b, s)
            flip = {"<": ">", ">": "<", "<=": ">=", ">=": "<=", "==": "==", "!=": "!="}
            if da[0] not in ("call", "loc") and db[0] in ("call", "loc"):
                da, db, op = db, da, flip[op]
            if da[0] in ("call", "loc") and db[0] in ("call",):
                self.outcome(db[1], "Unparsed", "two statuses compared with each other")
            if da[0] == "call":
                L = "$r%d" % self.order.index(da[1])
                s.pend[L] = frozenset([(da[1], False)])
                self.sites[da[1]]["loc"] = "(tested in place)"
                da = ("loc", L)
            elif db[0] == "call":
                self.outcome(db[1], "Unparsed", "return value compared with a non-status")
            if da[0] == "loc":
                L = da[1]
                kinds = self.kinds_in(s, L)
                if not kinds:
                    return s, s.copy()
                pols = set(self.test_polarity(op, kd, db[1] if db[0] == "const" else None, db[0] == "const") for kd in kinds)
                pt, pf = pols.pop() if len(pols) == 1 else ("U", "U")
                t, f = self.apply_pol(s, L, pt), self.apply_pol(s, L, pf)
                if L.startswith("$r"):
                    if pt == "E":
                        self.to_last_err(t, L)
                    if pf == "E":
                        self.to_last_err(f, L)
                    # a status tested in place lives only in this test: what is not known to be an error is gone
                    for br, p in ((t, pt), (f, pf)):
                        if p == "U":
                            for (kk, _) in br.pend.get(L, ()):
                                self.outcome(kk, "Unparsed", "return value tested in place with a test whose polarity is not understood")
                            br.pend[L] = frozenset()
                return t, f
            return s, s.copy()
        # a bare expression used as a truth value
        s = st.copy()
        d = self.ev(e0, s)
        if d[0] == "call":
            L = "$r%d" % self.order.index(d[1])
            s.pend[L] = frozenset([(d[1], False)])
            self.sites[d[1]]["loc"] = "(tested in place)"
            d = ("loc", L)
        if d[0] == "loc":
            L = d[1]
            kinds = self.kinds_in(s, L)
            if kinds and kinds <= {"zero", "neg", "adfh"}:
                t, f = self.apply_pol(s, L, "E"), self.apply_pol(s, L, "O")
                if L.startswith("$r"):
                    self.to_last_err(t, L)
                return t, f
            if kinds and L.startswith("$r"):
                for (kk, _) in s.pend.get(L, ()):
                    self.outcome(kk, "Unparsed", "a count / ADF status used as a truth value")
                s.pend[L] = frozenset()
        return s, s.copy()

    # ---- statements.  returns the state after the statement, None when control cannot fall through
    def stmt(self, s, st):
        if st is not None and st.dead:
            st = None
        if st is None and s.get("kind") not in ("LabelStmt", "CompoundStmt", "CaseStmt", "DefaultStmt", "IfStmt", "ForStmt",
                                              "WhileStmt", "DoStmt", "SwitchStmt"):
            return None
        k = s.get("kind")
        if k == "CompoundStmt":
            for c in kids(s):
                st = self.stmt(c, st)
            return st
        if k == "NullStmt":
            return st
        if k == "DeclStmt":
            for v in kids(s):
                if v.get("kind") == "VarDecl" and kids(v):
                    init = [c for c in kids(v) if c.get("kind") and not c["kind"].endswith("Attr")]
                    if not init:
                        continue
                    d = self.ev(init[-1], st)
                    tq = qual(v).replace("const ", "").strip()
                    if tq in ("int", "cglong_t", "long", "cgsize_t", "ssize_t", "off_t", "long long", "cgulong_t"):
                        self.assign(st, v["name"], d, self.line(v))
                    elif d[0] == "call":
                        self.outcome(d[1], "Unparsed", "status initialises a variable of type %s" % tq)
            return st
        if k == "IfStmt":
            if st is None:
                # still walk for labels
                ks = kids(s)
                a = self.stmt(ks[1], None)
                b = self.stmt(ks[2], None) if len(ks) > 2 else None
                return merge(a, b)
            ks = kids(s)
            t, f = self.cond(ks[0], st)
            a = self.stmt(ks[1], t)
            b = self.stmt(ks[2], f) if len(ks) > 2 else f
            return merge(a, b)
        if k in ("WhileStmt", "ForStmt", "DoStmt"):
            return self.loop(s, st)
        if k == "SwitchStmt":
            ks = kids(s)
            if st is not None:
                d = self.ev(ks[0], st)
                if d[0] == "call":
                    self.outcome(d[1], "Unparsed", "switch on a return value")
            self.sw.append((st.copy() if st is not None else None, [False]))
            self.brk.append([])
            end = self.stmt(ks[-1], None)
            entry, hasdef = self.sw.pop()
            br = self.brk.pop()
            return merge(end, *(br + ([] if hasdef[0] else [entry])))
        if k in ("CaseStmt", "DefaultStmt"):
            entry, hasdef = self.sw[-1] if self.sw else (None, [False])
            if k == "DefaultStmt":
                hasdef[0] = True
            st = merge(st, entry)
            sub = kids(s)[-1]
            return self.stmt(sub, st)
        if k == "BreakStmt":
            if self.brk:
                self.brk[-1].append(st)
            return None
        if k == "ContinueStmt":
            if self.cont:
                self.cont[-1].append(st)
            return None
        if k == "GotoStmt":
            lab = s.get("targetLabelDeclId")
            if lab in self.labels_done:
                self.backward.append(self.line(s))
            self.gotos[lab] = merge(self.gotos.get(lab), st)
            return None
        if k == "LabelStmt":
            lab = s.get("declId")
            self.labels_done.add(lab)
            st = merge(st, self.gotos.get(lab))
            return self.stmt(kids(s)[-1], st)
        if k == "ReturnStmt":
            self.ret_stmt(s, st)
            return None
        # expression statement
        d = self.ev(s, st)
        if d[0] == "call":
            self.sites[d[1]]["loc"] = "(discarded)"
            st.pend["$d%d" % self.order.index(d[1])] = frozenset([(d[1], False)])
        return None if st.dead else st

    def loop(self, s, st):
        k = s["kind"]
        ks = kids(s)
        if k == "ForStmt":
            # clang: init, (condvar), cond, inc, body -- absent parts are {} and filtered by kids(); use the raw list
            raw = s.get("inner", [])
            init, cond, inc, body = raw[0], raw[2], raw[3], raw[4]
            if init and st is not None:
                st = self.stmt(init, st) if init.get("kind") == "DeclStmt" else (self.ev(init, st), st)[1]
        elif k == "WhileStmt":
            init, cond, inc, body = None, ks[0], None, ks[-1]
        else:
            init, cond, inc, body = None, ks[1], None, ks[0]
        if st is None:
            self.brk.append([]); self.cont.append([])
            self.stmt(body, None)
            self.brk.pop(); self.cont.pop()
            return None
        head = st.copy()
        exit_st = None
        for _ in range(12):
            self.brk.append([]); self.cont.append([])
            if k == "DoStmt":
                b = self.stmt(body, head.copy())
                b = merge(b, *self.cont[-1])
                t, f = self.cond(cond, b) if (cond and b is not None) else (b, None)
                back = t
            else:
                t, f = self.cond(cond, head) if cond else (head.copy(), None)
                b = self.stmt(body, t)
                b = merge(b, *self.cont[-1])
                if inc and b is not None:
                    d = self.ev(inc, b)
                back = b
            brks = self.brk.pop(); self.cont.pop()
            exit_st = merge(f, *brks)
            new_head = merge(head, back)
            if new_head.key() == head.key():
                break
            head = new_head
        else:
            self.unparsed(s, "loop analysis did not converge")
        return exit_st

    def ret_stmt(self, s, st):
        line = self.line(s)
        ks = kids(s)
        if self.style == "ptr" or self.style == "none" or not ks:
            if ks:
                d = self.ev(ks[0], st)
                if d[0] == "call":
                    self.outcome(d[1], "Ignored", "returned as a value by a function whose status is %s" % (self.own or "absent"))
            errknown = self.own is not None and self.loc_err(st, self.own)
            self.finish(st, errknown, self.own, line)
            return
        e0 = ks[0]
        while e0.get("kind") in ("ParenExpr", "ImplicitCastExpr") and kids(e0):
            e0 = kids(e0)[0]
        if e0.get("kind") == "ConditionalOperator":
            # return c ? a : b   ==   if (c) return a; else return b;
            c, a, b = kids(e0)
            t, f = self.cond(c, st)
            for br, x in ((t, a), (f, b)):
                if br is not None and not br.dead:
                    self.ret_value(self.ev(x, br), br, line)
            return
        self.ret_value(self.ev(ks[0], st), st, line)

    def ret_value(self, d, st, line):
        if d[0] == "call":
            self.outcome(d[1], "Flow")
            self.finish(st, False, None, line)
        elif d[0] == "loc":
            self.finish(st, self.loc_err(st, d[1]), d[1], line)
        elif d[0] == "const":
            if self.ptr_ret:
                self.finish(st, d[1] == 0, None, line)
            else:
                self.finish(st, d[1] != 0 and self.name not in COUNT_RET or (self.name in COUNT_RET and d[1] < 0), None, line)
        else:
            self.finish(st, False, None, line)

    def run(self):
        body = [c for c in kids(self.fn) if c.get("kind") == "CompoundStmt"][0]
        st = self.stmt(body, St())
        if st is not None and not st.dead:
            end_line = bisect.bisect_left(self.lines, loc_off((self.fn.get("range") or {}).get("end"))[0]) + 1
            if self.style == "ptr":
                self.finish(st, self.loc_err(st, self.own), self.own, end_line)
            else:
                self.finish(st, False, None, end_line)
        for ln in self.backward:
            self.unparsed(None, "backward goto at line %d" % ln)
        seen_off = {k[0] for k in self.order}

        def sweep(n):
            if n.get("kind") == "CallExpr":
                name = callee_name(n)
                proto = self.protos.get(name) if name else None
                tracked = name is None or name in self.defined or (proto and proto["status"] is not None) or name in SYSCALLS or name.startswith("ADFH_")
                if self.restricted:
                    tracked = bool(name) and name.startswith("cgio_") and name in self.defined
                if tracked and name and name not in self.defined and proto and proto["status"] is None and proto["ret"] == "void":
                    tracked = False                      # no status and not ours: not a row
                if tracked and name not in NORETURN and name != "set_error" and self.off(n) not in seen_off:
                    self.unparsed(n, "call of %s at line %d is not reached by the data-flow walk" % (name, self.line(n)))
            for c in kids(n):
                sweep(c)
        sweep(body)
        rows = []
        for k in self.order:
            s = self.sites[k]
            out = s["out"] or {"Return"}          # no path from the call reaches the end of the function (abort)
            worst = max(out, key=lambda o: RANK[o])
            rows.append(dict(callee=s["callee"], line=s["line"], deliv=s["deliv"], cont=worst, loc=s.get("loc", ""),
                             all=sorted(out), why=s["why"]))
        return rows


# ------------------------------------------------------------------------------------------------ whole analysis
def src_hash(repo):
    h = hashlib.sha1(VERSION.encode())
    for f in FILES + FILES_MLL + ["adf/ADF_internals.h", "adf/ADF.h", "adfh/ADFH.h", "cgns_io.h"]:
        p = os.path.join(repo, "src", f)
        h.update(open(p, "rb").read() if os.path.exists(p) else b"-")
    h.update(open(os.path.abspath(__file__), "rb").read())
    return h.hexdigest()


def calls_cgio(n):
    if n.get("kind") == "CallExpr" and (callee_name(n) or "").startswith("cgio_"):
        return True
    return any(calls_cgio(c) for c in kids(n))


def analyse(repo, impl):
    protos, fns = {}, []
    for f in FILES:
        data = open(os.path.join(repo, "src", f), "rb").read()
        src = data.decode("latin-1")
        lines = [m.start() for m in re.finditer("\n", src)]
        for fn in stream_functions(repo, impl, f):
            name = fn.get("name")
            if not name:
                continue
            ps = [(c.get("name"), qual(c)) for c in kids(fn) if c.get("kind") == "ParmVarDecl"]
            status = None
            for i, (n, t) in enumerate(ps):
                if t.replace(" ", "") == "int*" and n in STATUS_PARAM_NAMES:
                    status = i
            if status is None and ps and ps[-1][1].replace(" ", "") == "int*" and (name.startswith("ADFH_") or name.startswith("ADF_")) \
                    and ps[-1][0] in (None, ""):
                status = len(ps) - 1
            ret = qual(fn).split("(")[0].strip()
            if name not in protos or status is not None:
                protos[name] = dict(status=status, ret=ret, nparams=len(ps))
            body = any(c.get("kind") == "CompoundStmt" for c in kids(fn))
            if body and re.search(r"\b%s\s*\(" % re.escape(name), src):
                fns.append((f, fn, lines))
    # ADFI_stack_control is a macro alias of ADFI_stack_control_body in some builds
    defined = {fn["name"] for _, fn, _ in fns}
    nmain = len(fns)
    for f in FILES_MLL:
        data = open(os.path.join(repo, "src", f), "rb").read()
        src = data.decode("latin-1")
        lines = [m.start() for m in re.finditer("\n", src)]
        for fn in stream_functions(repo, impl, f):
            name = fn.get("name")
            if not name or name in defined:
                continue
            # (decided on the AST, not on the text: WRITE_PART_1D_DATA and friends hide the cgio_* calls in macros)
            if any(c.get("kind") == "CompoundStmt" for c in kids(fn)) and re.search(r"\b%s\s*\(" % re.escape(name), src) \
                    and calls_cgio(fn):
                fns.append((f, fn, lines))
    out = []
    for i, (f, fn, lines) in enumerate(fns):
        w = Walker(fn, f, lines, protos, defined, restricted=i >= nmain)
        try:
            rows = w.run()
        except Exception as ex:                                    # whatever the walker chokes on is reported
            rows = [dict(callee="?", line=0, deliv="None", cont="Unparsed", loc="", all=["Unparsed"], why=["walker: %r" % (ex,)])]
        out.append(dict(name=fn["name"], file=f, line=w.line(fn), static=fn.get("storageClass") == "static",
                        style=w.style, rows=rows))
    return dict(functions=out)


def known_unchecked():
    """the hand list of ErrProp.v: (caller, callee) pairs"""
    p = os.path.join(ROOT, "coq", "ErrProp.v")
    if not os.path.exists(p):
        return []
    m = re.search(r"Definition\s+known_unchecked\s*:[^=]*:=\s*\[(.*?)\]\s*\.", open(p).read(), re.S)
    if not m:
        return []
    body = re.sub(r"\(\*.*?\*\)", "", m.group(1), flags=re.S)
    return re.findall(r'\(\s*"([^"]+)"\s*,\s*"([^"]+)"\s*\)', body)


def cs(s):
    s = "".join(ch if 32 <= ord(ch) < 127 else "?" for ch in s)
    return '"' + s.replace('"', '""') + '"'


def coq_gen(d):
    fid = {}
    for f in d["functions"]:
        if f["name"] not in fid:
            fid[f["name"]] = len(fid) + 2
    ext = {}

    def ident(n):
        if n in fid:
            return fid[n]
        if n not in ext:
            ext[n] = len(fid) + len(ext) + 2
        return ext[n]

    out = ["(* GENERATED by translators/c14_errprop.py from the current sources of /repo -- do not edit, not committed *)",
           "From Coq Require Import List String PArith.", "From CgnsV Require Import ErrProp.", "Import ListNotations.",
           "Open Scope string_scope.", "Open Scope positive_scope.", "",
           "Definition table : list frow := ["]
    lines, seen = [], set()
    for f in d["functions"]:
        if f["name"] in seen:
            continue
        seen.add(f["name"])
        rows = ["mkS %d %d D%s K%s" % (ident(r["callee"]), max(1, r["line"]), r["deliv"], r["cont"]) for r in f["rows"]]
        src = {"adf/ADF_interface.c": "FAdfApi", "adf/ADF_internals.c": "FAdfInt", "cgns_io.c": "FCgio"}.get(f["file"], "FMll")
        sty = {"ptr": "SPtr", "ret": "SRet", "none": "SNone"}[f["style"]]
        lines.append(" mkF %d %s %s %s %s\n  [%s]" % (fid[f["name"]], cs(f["name"]), src, sty, "false" if f["static"] else "true",
                                                    ";\n   ".join(rows)))
    out.append(";\n".join(lines))
    out.append("].")
    out.append("")
    out.append("(* callees that are not defined in the three files: id, name (classified by name in ErrProp.v) *)")
    out.append("Definition externs : list (positive * string) := [")
    out.append(";\n".join(" (%d, %s)" % (i, cs(n)) for n, i in sorted(ext.items(), key=lambda x: x[1])))
    out.append("].")
    out.append("")
    ku = known_unchecked()
    exc, stale = [], []
    allid = dict(fid); allid.update(ext)
    pairs = {(f["name"], r["callee"]) for f in d["functions"] for r in f["rows"]}
    for a, b in ku:
        if (a, b) in pairs:
            exc.append((allid[a], allid[b]))
        else:
            stale.append((a, b))
    out.append("(* ErrProp.known_unchecked translated to ids (pairs that name a row of the current table) *)")
    out.append("Definition exceptions : list (positive * positive) := [%s]." % "; ".join("(%d, %d)" % p for p in exc))
    out.append("Definition stale_exceptions : list (string * string) := [%s]." % "; ".join("(%s, %s)" % (cs(a), cs(b)) for a, b in stale))
    return "\n".join(out) + "\n", fid, ext, stale


def write_gen(repo="/repo", impl=None, force=False):
    impl = impl or os.path.join(ROOT, ".build", "cgns")
    h = src_hash(repo)
    cdir = os.path.join(ROOT, ".build", "c14b_cache")
    os.makedirs(cdir, exist_ok=True)
    cf = os.path.join(cdir, h + ".json")
    d = None
    if os.path.exists(cf) and not force:
        try:
            d = json.load(open(cf))
        except Exception:
            d = None
    cached = d is not None
    if d is None:
        d = analyse(repo, impl)
        tmp = cf + ".%d.tmp" % os.getpid()
        json.dump(d, open(tmp, "w"))
        os.replace(tmp, cf)
        for old in sorted((os.path.join(cdir, x) for x in os.listdir(cdir) if x.endswith(".json")), key=os.path.getmtime)[:-6]:
            try:
                os.unlink(old)
            except OSError:
                pass
    txt, fid, ext, stale = coq_gen(d)
    p = os.path.join(ROOT, "coq", "Gen_C14.v")
    if not os.path.exists(p) or open(p).read() != txt:
        open(p, "w").write(txt)
    cnt = {}
    for f in d["functions"]:
        for r in f["rows"]:
            cnt[r["cont"]] = cnt.get(r["cont"], 0) + 1
    info = dict(files=FILES + FILES_MLL, functions=len(d["functions"]), rows=sum(len(f["rows"]) for f in d["functions"]), by_cont=cnt,
                externs=len(ext), stale_exceptions=stale, gen_sha1=hashlib.sha1(txt.encode()).hexdigest(), cached=cached, src_sha1=h)
    d["fid"], d["ext"] = fid, ext
    return info, d


if __name__ == "__main__":
    import time
    t0 = time.time()
    repo = os.environ.get("VERIF_REPO", "/repo")
    info, d = write_gen(repo=repo, force="--force" in sys.argv)
    print(json.dumps(info, indent=1), "%.1fs" % (time.time() - t0))
    want = [a for a in sys.argv[1:] if not a.startswith("--")]
    for f in d["functions"]:
        for r in f["rows"]:
            if (f["name"] in want) or ("--bad" in sys.argv and RANK[r["cont"]] >= 2 and r["deliv"] != "None"):
                print("%-34s %-34s %5d %-4s %-11s %-18s %s" % (f["name"], r["callee"], r["line"], r["deliv"], r["cont"], r["loc"], "; ".join(r["why"])))
