#!/usr/bin/env python3
"""c01_templates.py -- tie (T) of property C01: re-extract, from /repo's CURRENT sources, what every writer can put into a
file and what every reader collects, and write coq/Gen_C01.v.

What is read (token level; comments and preprocessor lines dropped, nothing macro-expanded):

  src/cgnslib.c, src/cgns_internals.c   EVERY call  cgi_new_node (parent, name, label, &id, data_type, ndim, dims, data)
        and cgi_new_node_partial (...) in EVERY function  ->  writer row
            (function, parent label, name literal | parameter, label literal, data type literal | CG_SIZE_DATATYPE |
             parameter, rank literal | -1)
        The parent label is resolved from the parent-id expression: cg->rootid; V->id / V[..].id / V->f[..].id through the
        declared struct type of V and the struct declarations of cgns_header.h (struct type -> label from the goto table
        of cgi_next_posit); posit_id -> the labels of the cgi_*_address dispatcher the function calls; a `double`
        parameter -> instantiated at every call site (helpers such as cgi_write_ptset, cgi_write_rind, cgi_write_array).
  src/cgns_internals.c   EVERY call  cgi_get_nodes (parent, "Label_t", &n, &ids)  in every function -> reader row
            (function, parent label, child label, data types accepted: the "XX" literals compared with strcmp in the
             statements that follow, up to the next cgi_get_nodes, plus those of the value readers called there)
        and the label dispatch of get_base_label_type_as_enum (children of CGNSBase_t).
  src/cgnslib.c          the enumeration name tables  const char * XName[NofValidX] = {...}
  src/cgnslib.h          CGNS_DOTVERS, NofValidElementTypes (number of ElementType_t enumerators)

Whatever cannot be classified becomes an Unparsed row, which makes the forallb obligation false -- nothing is skipped
silently.  The decision (labels_closed, schema_in_sources) is a Gallina function evaluated by the Coq kernel.
"""
import hashlib, json, os, re, struct, sys

ROOT = os.path.dirname(os.path.dirname(os.path.abspath(__file__)))
sys.path.insert(0, os.path.join(ROOT, "translators"))
import c11_goto as T

DTYPES = {"MT", "I4", "I8", "U4", "U8", "R4", "R8", "C1", "X4", "X8", "B1", "LK"}
ROOT_LABEL = "Root Node of ADF File"
# struct types that the goto table never pushes (leaf attributes): label by hand
EXTRA_TYPES = {"cgns_descr": ["Descriptor_t"], "cgns_units": ["DimensionalUnits_t"], "cgns_exponent": ["DimensionalExponents_t"],
               "cgns_conversion": ["DataConversion_t"], "cgns_ptset": ["IndexArray_t", "IndexRange_t"],
               "cgns_famname": ["FamilyName_t"], "cgns_part": ["GeometryEntity_t"], "cgns_file": [ROOT_LABEL],
               "cgns_array": ["DataArray_t"]}
VALUE_READERS = {"cgi_read_string": {"C1"}, "cgi_read_int_data": {"I4", "I8"}, "cgi_read_ptset": {"I4", "I8"},
                 "cgi_read_one_ptset": {"I4", "I8"}, "cgi_read_array": {"*"}, "cgi_read_node": set(), "cgi_read_node_data": set()}


def vals(toks):
    return [t[1] for t in toks]


def unq(s):
    return s[1:-1].encode().decode("unicode_escape")


class Fn:
    def __init__(self, name, file, toks, hdr, body):
        self.name, self.file, self.toks = name, file, toks
        self.h0, self.b0, self.b1 = hdr, body[0], body[1]
        self.params = []           # (type string, name)
        self.vartypes = {}         # variable -> cgns_* struct type
        self.doubles = set()       # double parameters (node ids)
        self.idvars = {}           # id array variable -> label (from cgi_get_nodes)
        self.wrows, self.rrows, self.calls = [], [], []


def parse_functions(toks, file):
    funs = {}
    for name, (b0, b1) in T.functions(toks).items():
        # header: back from '{' to the matching '(' of the parameter list
        k, d = b0 - 1, 0
        while k >= 0:
            if toks[k][1] == ")":
                d += 1
            elif toks[k][1] == "(":
                d -= 1
                if d == 0:
                    break
            k -= 1
        f = Fn(name, file, toks, k, (b0, b1))
        args, _ = T.split_args(toks, k)
        for a in args:
            v = vals(a)
            if not v or v == ["void"]:
                continue
            pname = v[-1] if toks else None
            f.params.append((" ".join(v[:-1]), v[-1]))
            base = [x for x in v[:-1] if x not in ("const", "struct", "*")]
            if base and base[0].startswith("cgns_"):
                f.vartypes[v[-1]] = base[0]
            if base == ["double"] and "*" not in v:
                f.doubles.add(v[-1])
        # local declarations:  cgns_T *a, **b ;
        i = b0
        while i < b1:
            t = toks[i]
            if t[0] == "id" and t[1].startswith("cgns_") and toks[i - 1][1] in (";", "{", "}", "const", ")"):
                j = i + 1
                while j < b1 and toks[j][1] != ";":
                    if toks[j][0] == "id" and toks[j - 1][1] in ("*", ",", t[1]):
                        f.vartypes.setdefault(toks[j][1], t[1])
                    if toks[j][1] == "=":        # skip initialiser
                        while j < b1 and toks[j][1] not in (",", ";"):
                            j += 1
                        continue
                    j += 1
                i = j
            i += 1
        funs[name] = f
    return funs


class Ctx:
    def __init__(self, structs, type2labels, addr_labels):
        self.structs, self.type2labels, self.addr_labels = structs, type2labels, addr_labels

    def ftype(self, sty, field):
        for g, k, t in self.structs.get(sty, []):
            if g == field and k == "ptr":
                return t
        return None

    def parent_of(self, f, expr, pos, depth_guard=0):
        """('L', [labels]) | ('T', double parameter) | ('U', text)"""
        v = vals(expr)
        text = " ".join(v)
        if v == ["cg", "->", "rootid"]:
            return ("L", [ROOT_LABEL])
        if v == ["posit_id"]:
            labs = []
            for callee, _, _ in f.calls:
                if callee in self.addr_labels and re.fullmatch(r"cgi_\w+_address", callee):
                    labs += self.addr_labels[callee]
            labs = sorted(set(labs))
            return ("L", labs) if labs else ("U", "posit_id without an address dispatcher")
        if len(v) == 1 and v[0] in f.doubles:
            return ("T", v[0])
        if v in (["0.0"], ["0"]):
            labs = sorted(set(self.addr_labels.get("cgi_array_address", [])))
            return ("L", labs) if labs else ("U", text)
        if len(v) == 1 and v[0] not in f.local_assign and f.name in self.addr_labels:
            return ("L", sorted(set(self.addr_labels[f.name])))      # the node the dispatcher resolved (set inside its macros)
        if len(v) == 1 and v[0] in f.local_assign and depth_guard < 3:
            labs, bad = [], None
            for rhs in f.local_assign[v[0]]:
                if vals(rhs) in (["0"], ["0.0"]):
                    continue
                r = self.parent_of(f, rhs, pos, depth_guard + 1)
                if r[0] == "L":
                    labs += r[1]
                else:
                    bad = r
            labs = sorted(set(labs))
            if labs:
                return ("L", labs)
            return bad or ("U", text)
        if v and v[0] == "*" and len(v) == 2:
            v = v[1:]
        if v and v[0] in f.idvars_at(pos) and (len(v) == 1 or v[1] == "["):
            return ("L", [f.idvars_at(pos)[v[0]]])
        if len(v) >= 3 and v[-1] == "id" and v[-2] in ("->", ".") and v[0] in f.vartypes:
            ty = f.vartypes[v[0]]
            i, depth = 1, 0
            while i < len(v) - 2:
                if v[i] == "[":
                    depth += 1
                elif v[i] == "]":
                    depth -= 1
                elif depth == 0 and v[i] in ("->", ".") and i + 1 < len(v) - 2 + 1 and v[i + 1] != "id":
                    nt = self.ftype(ty, v[i + 1])
                    if nt is None:
                        return ("U", text)
                    ty = nt
                    i += 1
                i += 1
            labs = self.type2labels.get(ty)
            return ("L", labs) if labs else ("U", "%s (struct %s has no label)" % (text, ty))
        return ("U", text)


def idvars_at(self, pos):
    out = {}
    for p, var, lab in self._idassign:
        if p < pos:
            out[var] = lab
    return out


Fn.idvars_at = idvars_at


def scan(f, ctx):
    """calls, writer templates, reader templates of one function"""
    toks = f.toks
    f._idassign = []
    f.local_assign = {}
    f.label_lits = {}
    i = f.b0
    while i < f.b1:           # X = EXPR ;   for plain identifiers X (node ids kept in local doubles)
        if toks[i][0] == "id" and toks[i + 1][1] == "=" and toks[i - 1][1] in (";", "{", "}", ")", "else") and toks[i + 2][1] != "=":
            j = i + 2
            while j < f.b1 and toks[j][1] != ";":
                j += 1
            f.local_assign.setdefault(toks[i][1], []).append(toks[i + 2:j])
        if toks[i][1] == "sprintf" and toks[i + 1][1] == "(":
            a, _ = T.split_args(toks, i + 1)
            av = [vals(x) for x in a]
            # sprintf (label, "%.30s_t", V->name): the label is the node's name + "_t" -- every label of V's struct type
            if len(a) == 3 and len(av[0]) == 1 and av[1] == ['"%.30s_t"'] and len(av[2]) == 3 and av[2][1] == "->" and av[2][2] == "name" \
                    and av[2][0] in f.vartypes and ctx.type2labels.get(f.vartypes[av[2][0]]):
                f.label_lits.setdefault(av[0][0], []).extend(ctx.type2labels[f.vartypes[av[2][0]]])
        if toks[i][1] == "strcpy" and toks[i + 1][1] == "(":
            a, _ = T.split_args(toks, i + 1)
            if len(a) == 2 and len(a[0]) == 1 and len(a[1]) == 1 and a[1][0][1].startswith('"'):
                f.label_lits.setdefault(a[0][0][1], []).append(unq(a[1][0][1]))
        i += 1
    i = f.b0
    getpos = []
    while i < f.b1:
        t = toks[i]
        if t[0] == "id" and toks[i + 1][1] == "(" and toks[i - 1][1] not in ("->", "."):
            args, end = T.split_args(toks, i + 1)
            f.calls.append((t[1], args, i))
            if t[1] == "cgi_get_nodes" and len(args) == 4:
                lab = vals(args[1])
                idv = [x for x in vals(args[3]) if x not in ("&",)]
                if len(lab) == 1 and lab[0].startswith('"') and len(idv) == 1:
                    f._idassign.append((i, idv[0], unq(lab[0])))
                getpos.append(i)
        i += 1
    for callee, args, pos in f.calls:
        if callee in ("cgi_new_node", "cgi_new_node_partial") and len(args) >= 6:
            par = ctx.parent_of(f, args[0], pos)
            nm = vals(args[1])
            name = unq(nm[0]) if len(nm) == 1 and nm[0].startswith('"') else None
            lbs = labels_of(f, vals(args[2]))
            if lbs is None:
                f.wrows.append(("U", "label is not a literal: " + " ".join(vals(args[2]))))
                continue
            dv = vals(args[4])
            if len(dv) == 1 and dv[0].startswith('"'):
                dt = ("lit", unq(dv[0]))
            elif dv == ["CG_SIZE_DATATYPE"]:
                dt = ("size", None)
            else:
                dt = ("param", None)
            nd = vals(args[5])
            ndim = int(nd[0]) if len(nd) == 1 and nd[0].isdigit() else -1
            dat = vals(args[-1])
            enum_tbl = dat[-4] if len(dat) >= 4 and dat[-1] == "]" and dat[-4].endswith("Name") else None
            for k in range(len(dat) - 1):
                if dat[k].endswith("Name") and dat[k + 1] == "[":
                    enum_tbl = dat[k]
            for label in lbs:
                f.wrows.append(("W", par, name, label, dt, ndim, enum_tbl))
    for n, pos in enumerate(getpos):
        callee, args, _ = [c for c in f.calls if c[2] == pos][0]
        lbs = labels_of(f, vals(args[1]))
        if lbs is None:
            f.rrows.append(("U", "cgi_get_nodes label is not a literal: " + " ".join(vals(args[1]))))
            continue
        par = ctx.parent_of(f, args[0], pos)
        end = getpos[n + 1] if n + 1 < len(getpos) else f.b1
        acc = set()
        idv = [x for x in vals(args[3]) if x != "&"]
        idv = idv[0] if len(idv) == 1 else None
        direct = False          # the collected node's own data is read here
        for k in range(pos + 1, end):
            if toks[k][0] == "id" and toks[k + 1][1] == "(" and toks[k][1] in ("cgi_read_node", "cgi_read_node_data", "cgi_read_string",
                                                                                 "cgi_read_int_data", "cgi_read_array"):
                a, _ = T.split_args(toks, k + 1)
                a0 = vals(a[0]) if a else []
                if toks[k][1] == "cgi_read_array" or (idv and a0 and a0[0] == idv):
                    direct = True
                    if toks[k][1] == "cgi_read_string":
                        acc.add("C1")
                    if toks[k][1] == "cgi_read_int_data":
                        acc |= {"I4", "I8"}
        if direct:
            for k in range(pos, end):
                if toks[k][1] == "strcmp" and toks[k + 1][1] == "(":
                    a, _ = T.split_args(toks, k + 1)
                    for x in a:
                        xv = vals(x)
                        if len(xv) == 1 and xv[0].startswith('"') and unq(xv[0]) in DTYPES:
                            acc.add(unq(xv[0]))
        for label in lbs:
            f.rrows.append(("R", par, label, acc))


def labels_of(f, lb):
    """the label argument: a literal, a local buffer filled by strcpy (label, "X"), or a parameter (template)"""
    if len(lb) == 1 and lb[0].startswith('"'):
        return [("lit", unq(lb[0]))]
    if len(lb) == 1 and lb[0] in f.label_lits:
        alts = sorted(set(f.label_lits[lb[0]]))
        if len(alts) > 4:                      # a name-derived label (sprintf "%s_t"): one row per label
            return [("lit", x) for x in alts]
        return [("lit", "|".join(alts))]
    if len(lb) == 1 and lb[0] in [p[1] for p in f.params]:
        return [("param", lb[0])]
    if "?" in lb and ":" in lb:                    # cond ? "A" : "B"
        lits = [unq(x) for x in lb if x.startswith('"')]
        if len(lits) >= 2:
            return [("lit", "|".join(sorted(set(lits))))]
    return None


def own_accepts(f):
    """data type literals a struct-pointer reader tests before it collects its first child: the node's own type"""
    toks = f.toks
    first = min([c[2] for c in f.calls if c[0] == "cgi_get_nodes" or (c[0].startswith("cgi_read_") and c[0] not in VALUE_READERS)] + [f.b1])
    acc = set()
    for k in range(f.b0, first):
        if toks[k][1] == "strcmp" and toks[k + 1][1] == "(":
            a, _ = T.split_args(toks, k + 1)
            for x in a:
                xv = vals(x)
                if len(xv) == 1 and xv[0].startswith('"') and unq(xv[0]) in DTYPES:
                    acc.add(unq(xv[0]))
        if toks[k][0] == "id" and toks[k][1] in ("cgi_read_string",) and toks[k + 1][1] == "(":
            acc.add("C1")
    return acc


def instantiate(funs, ctx, kind):
    """propagate template rows (parent = a double parameter and / or label = a parameter) to the call sites, to a fixpoint"""
    attr = "wrows" if kind == "W" else "rrows"
    li = 3 if kind == "W" else 2           # position of the label in a row
    for _ in range(6):
        changed = False
        for g in funs.values():
            for callee, args, pos in g.calls:
                h = funs.get(callee)
                if h is None or h is g:
                    continue
                pnames = [p[1] for p in h.params]
                for row in list(getattr(h, attr)):
                    if row[0] != kind:
                        continue
                    par, lab = row[1], row[li]
                    if par[0] != "T" and lab[0] != "param":
                        continue
                    if par[0] == "T":
                        if par[1] not in pnames or pnames.index(par[1]) >= len(args):
                            continue
                        par = ctx.parent_of(g, args[pnames.index(par[1])], pos)
                    labs = [lab]
                    if lab[0] == "param":
                        if lab[1] not in pnames or pnames.index(lab[1]) >= len(args):
                            continue
                        labs = labels_of(g, vals(args[pnames.index(lab[1])]))
                        if labs is None:
                            continue
                    for lb in labs:
                        new = list(row)
                        new[1], new[li] = par, lb
                        new = tuple(new)
                        key = repr(new)
                        seen = getattr(g, "_seen_" + attr, None)
                        if seen is None:
                            seen = set()
                            setattr(g, "_seen_" + attr, seen)
                        if key not in seen:
                            seen.add(key)
                            getattr(g, attr).append(new)
                            changed = True
        if not changed:
            break


def cs(s):
    """a byte string as a Coq term: s "..." with the double quote doubled"""
    return 's "%s"' % s.replace('"', '""')


def enum_tables(src):
    out = []
    for m in re.finditer(r"const\s+char\s*\*\s*(\w+Name)\s*\[\s*(\w+)\s*\]\s*=\s*\{(.*?)\};", src, re.S):
        names = re.findall(r'"((?:[^"\\]|\\.)*)"', m.group(3))
        out.append((m.group(1), m.group(2), names))
    return out


def translate(repo):
    src_int = open(os.path.join(repo, "src", "cgns_internals.c"), errors="replace").read()
    src_lib = open(os.path.join(repo, "src", "cgnslib.c"), errors="replace").read()
    src_hdr = open(os.path.join(repo, "src", "cgns_header.h"), errors="replace").read()
    src_pub = open(os.path.join(repo, "src", "cgnslib.h"), errors="replace").read()
    t_int = T.tokenize(T.strip_comments_pp(src_int))
    t_lib = T.tokenize(T.strip_comments_pp(src_lib))
    structs = T.parse_structs(T.tokenize(T.strip_comments_pp(src_hdr)))
    _, _, gmodel = T.translate(repo)
    # struct type -> labels (from the goto table: the type a block casts to; the type of the array an arm pushes)
    lab2type = {}
    for b in gmodel["blocks"]:
        if b[0] != "B":
            continue
        for l in b[1]:
            lab2type.setdefault(l, b[2])
    type2labels = {}
    for l, ty in lab2type.items():
        type2labels.setdefault(ty, []).append(l)
    for ty, ls in EXTRA_TYPES.items():
        type2labels.setdefault(ty, ls)
    type2labels.setdefault("cgns_base", ["CGNSBase_t"])
    addr_labels = {}
    for r in gmodel["arows"]:
        addr_labels.setdefault(r["fn"], [])
        addr_labels[r["fn"]] += [l for l in r["labels"] if l not in addr_labels[r["fn"]]]
    ctx = Ctx(structs, type2labels, addr_labels)
    funs = {}
    for name, f in parse_functions(t_int, "cgns_internals.c").items():
        funs[name] = f
    for name, f in parse_functions(t_lib, "cgnslib.c").items():
        funs.setdefault(name, f)
    for f in funs.values():
        scan(f, ctx)
    instantiate(funs, ctx, "W")
    instantiate(funs, ctx, "R")
    # the label dispatch of the base reader
    base_labels = []
    f = funs.get("get_base_label_type_as_enum")
    if f:
        for k in range(f.b0, f.b1):
            if f.toks[k][1] == "strcmp":
                a, _ = T.split_args(f.toks, k + 1)
                for x in a:
                    xv = vals(x)
                    if len(xv) == 1 and xv[0].startswith('"'):
                        base_labels.append(unq(xv[0]))
    # own data type checks of the struct-pointer readers, by label
    own = {}
    for f in funs.values():
        if f.name.startswith("cgi_read_") and f.params:
            ty = f.vartypes.get(f.params[0][1])
            if ty and ty in type2labels and "*" in f.params[0][0]:
                acc = own_accepts(f)
                if acc:
                    for l in type2labels[ty]:
                        own.setdefault(l, set()).update(acc)
    # functions reachable from the public entry points (cg_* of cgnslib.c and the open-time reader)
    reach, todo = set(), [n for n, f in funs.items() if n.startswith("cg_") or n == "cgi_read"]
    while todo:
        n = todo.pop()
        if n in reach or n not in funs:
            continue
        reach.add(n)
        todo += [c[0] for c in funs[n].calls]
    dead = sorted(n for n, f in funs.items() if n not in reach and (f.wrows or f.rrows))
    wl, rl = [], []
    stats = {"writer_functions": 0, "writer_rows": 0, "writer_unparsed": 0, "reader_functions": 0, "reader_rows": 0,
             "reader_unparsed": 0, "templates_dropped": 0}
    unparsed = []
    seenw, seenr = set(), set()
    for f in sorted(funs.values(), key=lambda x: (x.file, x.name)):
        if f.name not in reach:
            continue
        if f.wrows:
            stats["writer_functions"] += 1
        for r in f.wrows:
            if r[0] == "U":
                wl.append("  WUnparsed (%s) (%s)" % (cs(f.name), cs(r[1][:80]))); stats["writer_unparsed"] += 1
                unparsed.append("%s: %s" % (f.name, r[1][:80])); continue
            _, par, name, label, dt, ndim, etbl = r[:7]
            if par[0] == "T" or label[0] == "param":
                stats["templates_dropped"] += 1
                continue
            label = label[1]
            if par[0] == "U":
                wl.append("  WUnparsed (%s) (%s)" % (cs(f.name), cs(("parent of %s: %s" % (label, par[1]))[:80]))); stats["writer_unparsed"] += 1
                unparsed.append("%s: parent of %s: %s" % (f.name, label, par[1][:60])); continue
            for pl in par[1]:
                key = (f.name, pl, name, label, dt, ndim)
                if key in seenw:
                    continue
                seenw.add(key)
                dts = {"lit": "WLit (%s)" % cs(dt[1] or ""), "size": "WSize", "param": "WParam"}[dt[0]]
                wl.append("  WRow (%s) (%s) %s (%s) (%s) (%d)" % (cs(f.name), cs(pl), "(Some (%s))" % cs(name) if name is not None else "None",
                                                                  cs(label), dts, ndim))
                stats["writer_rows"] += 1
        if f.rrows:
            stats["reader_functions"] += 1
        for r in f.rrows:
            if r[0] == "U":
                rl.append("  RUnparsed (%s) (%s)" % (cs(f.name), cs(r[1][:80]))); stats["reader_unparsed"] += 1
                unparsed.append("%s: %s" % (f.name, r[1][:80])); continue
            _, par, label, acc = r[:4]
            if par[0] == "T" or label[0] == "param":
                stats["templates_dropped"] += 1
                continue
            label = label[1]
            if par[0] == "U":
                rl.append("  RUnparsed (%s) (%s)" % (cs(f.name), cs(("parent of %s: %s" % (label, par[1]))[:80]))); stats["reader_unparsed"] += 1
                unparsed.append("%s: parent of %s: %s" % (f.name, label, par[1][:60])); continue
            acc = set(acc)
            if "*" in acc:
                acc = set()
            elif not acc:
                acc = set(own.get(label, set()))
            for pl in par[1]:
                key = (f.name, pl, label, tuple(sorted(acc)))
                if key in seenr:
                    continue
                seenr.add(key)
                rl.append("  RRow (%s) (%s) (%s) [%s]" % (cs(f.name), cs(pl), cs(label), "; ".join(cs(a) for a in sorted(acc))))
                stats["reader_rows"] += 1
    for l in base_labels:
        acc = sorted(own.get(l, set()))
        rl.append("  RRow (%s) (%s) (%s) [%s]" % (cs("cgi_read_base"), cs("CGNSBase_t"), cs(l), "; ".join(cs(a) for a in acc)))
        stats["reader_rows"] += 1
    if not base_labels:
        rl.append("  RUnparsed (%s) (%s)" % (cs("get_base_label_type_as_enum"), cs("not found")))
        stats["reader_unparsed"] += 1
    # enumeration tables and constants
    et = enum_tables(src_lib)
    el = ["  (%s, [%s])" % (cs(n), "; ".join(cs(x) for x in names)) for n, _, names in et]
    m = re.search(r"#\s*define\s+CGNS_DOTVERS\s+([0-9.]+)", src_pub)
    ver = float(m.group(1)) if m else 0.0
    vb = struct.pack("<f", ver)
    nel = len([n for n, _, names in et if n == "ElementTypeName"] and [x for n, _, names in et if n == "ElementTypeName" for x in names])
    # data types cgi_read_node allocates a buffer for
    alloc = []
    f = funs.get("cgi_read_node")
    if f:
        for k in range(f.b0, f.b1):
            if f.toks[k][1] == "strcmp" and f.toks[k + 1][1] == "(":
                a, _ = T.split_args(f.toks, k + 1)
                for x in a:
                    xv = vals(x)
                    if len(xv) == 1 and xv[0].startswith('"') and unq(xv[0]) in DTYPES and unq(xv[0]) != "MT":
                        if unq(xv[0]) not in alloc:
                            alloc.append(unq(xv[0]))
    # readers that compute the zone-wide data size of a node (cgi_datasize: fails for a location it does not know) before they
    # look for the node's point set, i.e. also for a node that has one
    dsfirst = []
    for fname in sorted(funs):
        f = funs[fname]
        names = [f.toks[k][1] for k in range(f.b0, f.b1)]
        if "cgi_datasize" in names and "cgi_read_one_ptset" in names and names.index("cgi_datasize") < names.index("cgi_read_one_ptset"):
            dsfirst.append(fname)
    text = ("(* GENERATED on every run by translators/c01_templates.py from the current src/cgnslib.c, src/cgns_internals.c,\n"
            "   src/cgns_header.h and src/cgnslib.h.  Never edit, never commit. *)\n"
            "From Coq Require Import ZArith List.\nFrom Coq Require String.\nImport String.StringSyntax.\nFrom CgnsV Require Import TreeDB SidsRows.\nImport ListNotations.\n"
            "Local Open Scope Z_scope.\n\n"
            "Definition gen_writers : list wrow := [\n%s\n].\n\n"
            "Definition gen_readers : list rrow := [\n%s\n].\n\n"
            "Definition gen_enum_tables : list (bytes * list bytes) := [\n%s\n].\n\n"
            "Definition gen_version_bytes : bytes := [%s].\n"
            "Definition gen_nof_element_types : Z := %d.\n"
            "Definition gen_read_node_allocates : list bytes := [%s].\n"
            "Definition gen_datasize_before_ptset : list bytes := [%s].\n"
            % (";\n".join(wl), ";\n".join(rl), ";\n".join(el), "; ".join(str(b) for b in vb), nel,
               "; ".join(cs(a) for a in alloc), "; ".join(cs(a) for a in dsfirst)))
    info = dict(stats)
    info["files"] = ["src/cgnslib.c", "src/cgns_internals.c", "src/cgns_header.h", "src/cgnslib.h"]
    info["enum_tables"] = len(et)
    info["unparsed_list"] = unparsed[:40]
    info["read_node_allocates"] = alloc
    info["datasize_before_ptset"] = dsfirst
    info["unreachable_functions_with_templates"] = dead
    return text, info


def write_gen(repo=None, out=None):
    repo = repo or os.environ.get("VERIF_REPO", "/repo")
    out = out or os.path.join(ROOT, "coq", "Gen_C01.v")
    text, info = translate(repo)
    if not os.path.exists(out) or open(out).read() != text:
        open(out, "w").write(text)
        info["gen_changed"] = True
    else:
        info["gen_changed"] = False
    info["gen_sha1"] = hashlib.sha1(text.encode()).hexdigest()
    return info


if __name__ == "__main__":
    if len(sys.argv) > 1 and sys.argv[1] == "--dry":
        text, info = translate(os.environ.get("VERIF_REPO", "/repo"))
        json.dump(info, sys.stdout, indent=1); print()
    else:
        json.dump(write_gen(), sys.stdout, indent=1); print()
