#!/usr/bin/env python3
"""c06_casts.py -- tie (T) of property C06: regenerate coq/Gen_C06.v from the cast table cgi_convert_data
(/repo/src/cgns_internals.c) as clang sees it *with the configuration header of the build under test*.

The function is a two-level if / else-if dispatcher on (from_type, to_type); each arm is a loop
    for (n = 0; n < cnt; n++)  <dest>[n] = (T) <src>[n];          (or the part-wise complex form)
where <src>/<dest> are either locals initialised by a cast of from_data/to_data or such a cast in place.
For every arm one row is emitted:   (to, ArmLoop <pointee type of the source pointer> <does it come from from_data>
                                          <pointee type of the destination pointer> <does it come from to_data>
                                          [ assignment: destination part, casts applied innermost first, source part ])
an `else { ierr = 1; }` arm is ArmErr, and ANYTHING the translator does not recognise (other loop bounds, other
index, arithmetic in the element expression, unknown type, unknown enumerator, extra statements ...) is
ArmUnparsed, for which ConvertProofs.row_ok is false -- an unrecognised rewrite can never pass silently.
The element multiplier of a complex arm is the number of assignments in its body (2 = real and imaginary part).
"""
import json, os, subprocess, sys

ROOT = os.path.dirname(os.path.dirname(os.path.abspath(__file__)))
ENUMS = {"Character": "C1", "Integer": "I4", "LongInteger": "I8", "RealSingle": "R4", "RealDouble": "R8",
         "ComplexSingle": "X4", "ComplexDouble": "X8"}
CTYPES = {"char": "CChar", "signed char": "CChar", "int": "CInt", "long": "CLong", "long long": "CLong",
          "float": "CFloat", "double": "CDouble", "_Complex float": "CFloatCx", "_Complex double": "CDoubleCx",
          "float _Complex": "CFloatCx", "double _Complex": "CDoubleCx"}
PARTFN = {"crealf": ("PRe", "CFloatCx"), "cimagf": ("PIm", "CFloatCx"), "creal": ("PRe", "CDoubleCx"),
          "cimag": ("PIm", "CDoubleCx")}
VALUE_CASTS = {"IntegralCast", "FloatingCast", "IntegralToFloating", "FloatingToIntegral", "FloatingComplexCast",
               "FloatingRealToComplex", "FloatingComplexToReal", "IntegralToBoolean", "FloatingToBoolean",
               "IntegralRealToComplex", "IntegralComplexToReal", "IntegralComplexCast", "BooleanToSignedIntegral"}
TRANSPARENT_CASTS = {"LValueToRValue", "NoOp", "FunctionToPointerDecay"}


class Unparsed(Exception):
    pass


def clang_ast(repo, impl_inc, fn="cgi_convert_data", src="cgns_internals.c"):
    cmd = ["clang", "-fsyntax-only", "-w", "-Xclang", "-ast-dump=json", "-Xclang", "-ast-dump-filter=" + fn,
           "-DCGNS_VERIF", "-I" + impl_inc, "-I" + os.path.join(repo, "src"), "-I/usr/include/hdf5/serial",
           os.path.join(repo, "src", src)]
    p = subprocess.run(cmd, stdout=subprocess.PIPE, stderr=subprocess.PIPE, text=True)
    txt = p.stdout
    dec, i, docs = json.JSONDecoder(), 0, []
    while i < len(txt):
        while i < len(txt) and txt[i].isspace():
            i += 1
        if i >= len(txt):
            break
        o, i = dec.raw_decode(txt, i)
        docs.append(o)
    for d in docs:
        if d.get("kind") == "FunctionDecl" and d.get("name") == fn and \
                any(c.get("kind") == "CompoundStmt" for c in d.get("inner", [])):
            return d, p.stderr
    return None, p.stderr


def qt(n):
    t = n.get("type", {})
    return t.get("desugaredQualType") or t.get("qualType") or ""


def strip_q(t):
    t = t.replace("const ", "").replace("volatile ", "").replace(" const", "").replace("restrict", "").strip()
    return t


def pointee(tstr):
    t = tstr.strip()
    if not t.endswith("*"):
        raise Unparsed("not a pointer type: " + tstr)
    return strip_q(t[:-1].strip())


def ctype_of_str(t):
    t = strip_q(t)
    if t in CTYPES:
        return CTYPES[t]
    return "COther"


def skip(n):
    """look through parentheses and value-preserving implicit casts"""
    while True:
        k = n.get("kind")
        if k == "ParenExpr":
            n = n["inner"][0]
        elif k == "ImplicitCastExpr" and n.get("castKind") in TRANSPARENT_CASTS:
            n = n["inner"][0]
        else:
            return n


def ref_name(n):
    n = skip(n)
    if n.get("kind") == "DeclRefExpr":
        return n["referencedDecl"]["name"]
    return None


def is_int_lit(n, v=None):
    n = skip(n)
    while n.get("kind") in ("ImplicitCastExpr", "CStyleCastExpr") and n.get("castKind") in ("IntegralCast", "NoOp"):
        n = skip(n["inner"][0])
    if n.get("kind") != "IntegerLiteral":
        return False
    return v is None or int(n["value"]) == v


def pointer_origin(n, env):
    """(pointee ctype string, parameter it points into) of a pointer-valued expression"""
    n = skip(n)
    k = n.get("kind")
    if k == "DeclRefExpr":
        name = n["referencedDecl"]["name"]
        if name in env:
            return env[name]
        if name in ("from_data", "to_data"):
            return ("void", name)
        raise Unparsed("pointer variable %s of unknown origin" % name)
    if k == "CStyleCastExpr" and n.get("castKind") in ("BitCast", "NoOp"):
        _, origin = pointer_origin(n["inner"][0], env)
        return (pointee(qt(n)), origin)
    raise Unparsed("pointer expression of kind %s" % k)


def element(n, env, idx):
    """an lvalue <ptr>[idx] possibly under __real__/__imag__: -> (part, pointee ctype, origin)"""
    n = skip(n)
    part = "PWhole"
    if n.get("kind") == "UnaryOperator" and n.get("opcode") in ("__real", "__imag"):
        part = "PRe" if n["opcode"] == "__real" else "PIm"
        n = skip(n["inner"][0])
    if n.get("kind") != "ArraySubscriptExpr":
        raise Unparsed("element is not an array subscript (%s)" % n.get("kind"))
    base, index = n["inner"][0], n["inner"][1]
    if ref_name(index) != idx:
        raise Unparsed("subscript is not the loop counter")
    _, origin = pointer_origin(base, env)
    # the element type as clang resolved it (typedefs such as cglong_t desugared), not the spelling of the pointer
    return part, ctype_of_str(qt(n)), origin


def rhs_chain(n, env, idx):
    """value expression: casts (innermost first) applied to one element -> (casts, part, pointee, origin)"""
    casts = []
    while True:
        k = n.get("kind")
        if k == "ParenExpr":
            n = n["inner"][0]
        elif k in ("ImplicitCastExpr", "CStyleCastExpr"):
            ck = n.get("castKind")
            if (k == "CStyleCastExpr" and ck in ("NoOp", "LValueToRValue")) or ck in VALUE_CASTS:
                casts.append(ctype_of_str(qt(n)))      # an explicit cast is recorded even when it changes nothing
                n = n["inner"][0]
            elif ck in TRANSPARENT_CASTS:
                n = n["inner"][0]
            else:
                raise Unparsed("cast kind %s in element expression" % ck)
        elif k == "CallExpr":
            f = ref_name(n["inner"][0])
            if f not in PARTFN or len(n["inner"]) != 2:
                raise Unparsed("call of %s in element expression" % f)
            part, need = PARTFN[f]
            inner_casts, p0, pt, origin = rhs_chain(n["inner"][1], env, idx)
            if inner_casts or p0 != "PWhole" or pt != need:
                raise Unparsed("%s applied to something else than a %s element" % (f, need))
            casts.reverse()
            return casts, part, pt, origin
        elif k == "UnaryOperator" and n.get("opcode") in ("__real", "__imag"):
            part, pt, origin = element(n, env, idx)
            casts.reverse()
            return casts, part, pt, origin
        elif k == "ArraySubscriptExpr":
            part, pt, origin = element(n, env, idx)
            casts.reverse()
            return casts, part, pt, origin
        else:
            raise Unparsed("operator %s %s in element expression" % (k, n.get("opcode", "")))


def decls(stmt, env):
    """DeclStmt of pointer locals initialised from from_data/to_data"""
    for d in stmt.get("inner", []):
        if d.get("kind") != "VarDecl" or not d.get("inner"):
            raise Unparsed("declaration without initialiser")
        pt, origin = pointer_origin(d["inner"][0], env)
        declared = pointee(qt(d))
        if strip_q(declared) != strip_q(pt):
            raise Unparsed("initialiser type differs from declared type of %s" % d.get("name"))
        env[d["name"]] = (declared, origin)


def loop(st, env):
    """for (n = 0; n < cnt; n++) body  -> list of assignments"""
    init, _, cond, inc, body = st["inner"][0], st["inner"][1], st["inner"][2], st["inner"][3], st["inner"][4]
    if not (init.get("kind") == "BinaryOperator" and init.get("opcode") == "=" and ref_name(init["inner"][0])
            and is_int_lit(init["inner"][1], 0)):
        raise Unparsed("loop does not start at 0")
    idx = ref_name(init["inner"][0])
    if not (cond.get("kind") == "BinaryOperator" and cond.get("opcode") == "<" and ref_name(cond["inner"][0]) == idx
            and ref_name(cond["inner"][1]) == "cnt"):
        raise Unparsed("loop bound is not  n < cnt")
    if not (inc.get("kind") == "UnaryOperator" and inc.get("opcode") == "++" and ref_name(inc["inner"][0]) == idx):
        raise Unparsed("loop increment is not ++")
    stmts = body["inner"] if body.get("kind") == "CompoundStmt" else [body]
    out = []
    for s in stmts:
        if not (s.get("kind") == "BinaryOperator" and s.get("opcode") == "="):
            raise Unparsed("loop body statement %s %s" % (s.get("kind"), s.get("opcode", "")))
        dpart, dpt, dorig = element(s["inner"][0], env, idx)
        casts, spart, spt, sorig = rhs_chain(s["inner"][1], env, idx)
        out.append((dpart, casts, spart, dpt, dorig, spt, sorig))
    return out


def arm(st, env):
    """one arm of the inner chain -> Coq term of type arm"""
    env = dict(env)
    stmts = st["inner"] if st.get("kind") == "CompoundStmt" else [st]
    stmts = [s for s in stmts if s.get("kind") != "NullStmt"]
    # error arm:  ierr = 1;
    if len(stmts) == 1 and stmts[0].get("kind") == "BinaryOperator" and stmts[0].get("opcode") == "=" and \
            ref_name(stmts[0]["inner"][0]) == "ierr" and is_int_lit(stmts[0]["inner"][1]) and \
            not is_int_lit(stmts[0]["inner"][1], 0):
        return "ArmErr", None
    loops = []
    for s in stmts:
        if s.get("kind") == "DeclStmt":
            decls(s, env)
        elif s.get("kind") == "ForStmt":
            loops.append(loop(s, env))
        else:
            raise Unparsed("statement %s %s in arm" % (s.get("kind"), s.get("opcode", "")))
    if len(loops) != 1 or not loops[0]:
        raise Unparsed("%d loops in arm" % len(loops))
    asg = loops[0]
    dpt, dorig, spt, sorig = asg[0][3], asg[0][4], asg[0][5], asg[0][6]
    for a in asg:
        if (a[3], a[4], a[5], a[6]) != (dpt, dorig, spt, sorig):
            raise Unparsed("assignments of one loop use different arrays")
    body = "; ".join("mkAssign %s [%s] %s" % (a[0], "; ".join(a[1]), a[2]) for a in asg)
    return "ArmLoop %s %s %s %s [%s]" % (spt, "true" if sorig == "from_data" else "false", dpt,
                                          "true" if dorig == "to_data" else "false", body), None


def chain(ifstmt, var):
    """if (var == E1) A1 else if (var == E2) A2 ... else Ae  ->  [(E1, A1), ...], Ae (or None)"""
    arms = []
    n = ifstmt
    while n is not None and n.get("kind") == "IfStmt":
        cond, then = n["inner"][0], n["inner"][1]
        els = n["inner"][2] if len(n["inner"]) > 2 else None
        c = skip(cond)
        e = None
        if c.get("kind") == "BinaryOperator" and c.get("opcode") == "==":
            a, b = c["inner"]
            while a.get("kind") == "ImplicitCastExpr":
                a = a["inner"][0]
            while b.get("kind") == "ImplicitCastExpr":
                b = b["inner"][0]
            if ref_name(a) == var and ref_name(b) in ENUMS:
                e = ENUMS[ref_name(b)]
            elif ref_name(b) == var and ref_name(a) in ENUMS:
                e = ENUMS[ref_name(a)]
        arms.append((e, then))
        n = els
    return arms, n


def translate(repo, impl_inc):
    f, err = clang_ast(repo, impl_inc)
    notes = []
    if f is None:
        return None, ["clang produced no body for cgi_convert_data: " + err[-400:]]
    body = [c for c in f["inner"] if c.get("kind") == "CompoundStmt"][0]
    top = [s for s in body["inner"]]
    ifs = [s for s in top if s.get("kind") == "IfStmt"]
    frame_ok = True
    # frame: int ierr = 0; ...; <dispatcher>; if (ierr) cgi_error(...); return ierr;
    ierr0 = False
    for s in top:
        if s.get("kind") == "DeclStmt":
            for d in s.get("inner", []):
                if d.get("name") == "ierr" and d.get("inner") and is_int_lit(d["inner"][0], 0):
                    ierr0 = True
    ret = [s for s in top if s.get("kind") == "ReturnStmt"]
    ret_ok = len(ret) == 1 and ref_name(ret[0]["inner"][0]) == "ierr" and top[-1] is ret[0]
    others = [s for s in top if s.get("kind") not in ("DeclStmt", "IfStmt", "ReturnStmt")]
    if not (ierr0 and ret_ok and not others and len(ifs) == 2):
        frame_ok = False
        notes.append("function frame not recognised (ierr0=%s ret=%s others=%d ifs=%d)" % (ierr0, ret_ok, len(others), len(ifs)))
    if len(ifs) >= 2:
        # the trailing  if (ierr) cgi_error(...)  must not touch the data
        t = ifs[-1]
        if not (ref_name(t["inner"][0]) == "ierr" and len(t["inner"]) == 2):
            frame_ok = False
            notes.append("trailing if is not  if (ierr) report")
    rows = []
    outer, outer_else = chain(ifs[0], "from_type") if ifs else ([], None)
    for fe, then in outer:
        if fe is None:
            rows.append(("Unparsed", [], "ArmUnparsed"))
            notes.append("outer condition not of the form from_type == <enumerator>")
            continue
        env = {}
        try:
            stmts = then["inner"] if then.get("kind") == "CompoundStmt" else [then]
            inner_if = None
            for s in stmts:
                if s.get("kind") == "DeclStmt":
                    decls(s, env)
                elif s.get("kind") == "IfStmt" and inner_if is None:
                    inner_if = s
                else:
                    raise Unparsed("statement %s before/after the to_type chain" % s.get("kind"))
            if inner_if is None:
                raise Unparsed("no to_type chain")
        except Unparsed as u:
            rows.append((fe, [], "ArmUnparsed"))
            notes.append("from %s: %s" % (fe, u))
            continue
        inner, inner_else = chain(inner_if, "to_type")
        cells = []
        for te, a in inner:
            if te is None:
                cells.append(("C1", "ArmUnparsed"))
                notes.append("from %s: inner condition not of the form to_type == <enumerator>" % fe)
                continue
            try:
                term, _ = arm(a, env)
            except Unparsed as u:
                term = "ArmUnparsed"
                notes.append("%s -> %s: %s" % (fe, te, u))
            cells.append((te, term))
        try:
            eterm = arm(inner_else, env)[0] if inner_else is not None else "ArmFallThrough"
        except Unparsed as u:
            eterm = "ArmUnparsed"
            notes.append("from %s else: %s" % (fe, u))
        rows.append((fe, cells, eterm))
    try:
        dflt = arm(outer_else, {})[0] if outer_else is not None else "ArmFallThrough"
    except Unparsed as u:
        dflt = "ArmUnparsed"
        notes.append("outer else: %s" % u)
    if not frame_ok:
        dflt = "ArmUnparsed"
    return (rows, dflt), notes


def render(tab, notes, repo):
    rows, dflt = tab
    out = ["(* Gen_C06.v -- REGENERATED on every run by translators/c06_casts.py from src/cgns_internals.c",
           "   (function cgi_convert_data, as preprocessed with the cgnstypes.h of the build under test). Do not edit. *)",
           "From Coq Require Import ZArith List.", "From CgnsV Require Import Convert.", "Import ListNotations.", ""]
    for n in notes:
        out.append("(* NOT RECOGNISED: %s *)" % n.replace("*)", "* )").replace("(*", "( *"))
    out.append("Definition table : list from_row :=")
    rs = []
    for fe, cells, eterm in rows:
        if fe == "Unparsed":
            rs.append("  mkFrom C1 [] ArmUnparsed")
            continue
        cs = ";\n      ".join("(%s, %s)" % (te, term) for te, term in cells)
        rs.append("  mkFrom %s\n     [%s%s]\n     %s" % (fe, " " if cs else "", cs, "(" + eterm + ")" if " " in eterm else eterm))
    out.append(" [\n" + ";\n".join(rs) + "\n ].")
    out.append("")
    out.append("Definition default_arm : arm := %s." % dflt)
    out.append("")
    out.append("Definition cast_table : cast_tab := mkTab table default_arm.")
    return "\n".join(out) + "\n"


def main(repo=None, impl_inc=None, out=None):
    repo = repo or os.environ.get("VERIF_REPO", "/repo")
    if impl_inc is None:
        sys.path.insert(0, ROOT)
        import vlib
        impl_inc = os.path.join(vlib.IMPL, "src")
    out = out or os.path.join(ROOT, "coq", "Gen_C06.v")
    tab, notes = translate(repo, impl_inc)
    if tab is None:
        tab = ([], "ArmUnparsed")
    txt = render(tab, notes, repo)
    if not os.path.exists(out) or open(out).read() != txt:
        open(out, "w").write(txt)
    rows, dflt = tab
    narms = sum(len(c) for _, c, _ in rows)
    nunp = sum(1 for _, c, e in rows for _, t in c if t == "ArmUnparsed") + sum(1 for _, _, e in rows if e == "ArmUnparsed") + (1 if dflt == "ArmUnparsed" else 0)
    return {"from_rows": len(rows), "cast_arms": narms, "error_arms": sum(1 for _, _, e in rows if e == "ArmErr") + (1 if dflt == "ArmErr" else 0),
            "unparsed": nunp, "notes": notes, "file": out,
            "pairs": {"%s->%s" % (fe, te): term for fe, cells, _ in rows for te, term in cells}}


if __name__ == "__main__":
    r = main()
    print(json.dumps({k: v for k, v in r.items() if k != "pairs"}, indent=1))
