#!/usr/bin/env python3
"""c15_rewrite.py -- regenerate coq/Gen_C15.v from the CGNS sources (tie T of property C15).

Reads   <repo>/src/cgns_io.c          rewrite_file, cgio_open_file (WRITE case), cgio_compress_file
        <repo>/src/cgnslib.c          cg_close (compress-on-close)
        <repo>/src/tools/cgnscompress.c  main
and emits, for each of the two paths of rewrite_file (plain name / name is a symbolic link), the ordered list of
effectful calls with their error exits, as rows of Compact.gstmt; plus the call shapes of the three callers.
Anything the translator cannot classify becomes a GUnparsed / CUnparsed row, which makes the Coq obligation
`safe_order ... = true` (resp. `callers_ok ... = true`) false.

The file is rewritten only when its content changes.
"""
import os, re, sys

PURE = {"malloc", "free", "strlen", "sprintf", "strcpy", "get_cgnsio", "get_error", "set_error", "sizeof",
        "if", "return", "while", "for", "switch", "defined"}
CALLER_PURE = PURE | {"cgi_get_file", "cg_io_error", "cgi_free_file", "fprintf", "printf", "exit", "cgmemnow", "cgmemmax",
                      "cgalloccalls", "cgfreecalls", "objlist_status", "cgio_error_exit", "main"}


def strip_comments(s):
    s = re.sub(r"/\*.*?\*/", lambda m: " " * 0 + "\n" * m.group(0).count("\n"), s, flags=re.S)
    s = re.sub(r"//[^\n]*", "", s)
    return s


def function_body(src, name, ret=r"(?:static\s+)?int"):
    m = re.search(r"^" + ret + r"\s+" + re.escape(name) + r"\s*\(([^)]*)\)\s*\{", src, re.M)
    if not m:
        return None, None
    i = m.end()
    depth, j = 1, i
    while depth and j < len(src):
        c = src[j]
        if c == "{":
            depth += 1
        elif c == "}":
            depth -= 1
        elif c == '"':
            j += 1
            while src[j] != '"':
                j += 2 if src[j] == "\\" else 1
        elif c == "'":
            j += 1
            while src[j] != "'":
                j += 2 if src[j] == "\\" else 1
        j += 1
    return m.group(1), src[i:j - 1]


def drop_preprocessor(body):
    """keep the code of #ifdef S_IFLNK / #if CG_BUILD_HDF5 / #else-less blocks (this is the Linux, HDF5-enabled
    build that the check compiles); report any other conditional"""
    out, unknown = [], []
    for l in body.split("\n"):
        t = l.strip()
        if t.startswith("#"):
            if re.match(r"#\s*(ifdef\s+S_IFLNK|if\s+CG_BUILD_HDF5|endif|ifdef\s+__CG_MALLOC_H__|ifdef\s+DEBUG_HDF5_OBJECTS_CLOSE)", t):
                out.append("")
            else:
                unknown.append(t)
                out.append("")
        else:
            out.append(l)
    return "\n".join(out), unknown


# ----------------------------------------------------------------------------- a tiny C statement parser
class P:
    def __init__(self, s):
        self.s, self.i = s, 0

    def ws(self):
        while self.i < len(self.s) and self.s[self.i].isspace():
            self.i += 1

    def paren(self):
        assert self.s[self.i] == "("
        d, j = 0, self.i
        while True:
            c = self.s[j]
            if c == "(":
                d += 1
            elif c == ")":
                d -= 1
                if d == 0:
                    break
            elif c in "\"'":
                q = c
                j += 1
                while self.s[j] != q:
                    j += 2 if self.s[j] == "\\" else 1
            j += 1
        t = self.s[self.i + 1:j]
        self.i = j + 1
        return t

    def stmt(self):
        self.ws()
        s = self.s
        if self.i >= len(s):
            return None
        if s[self.i] == "{":
            self.i += 1
            body = []
            while True:
                self.ws()
                if s[self.i] == "}":
                    self.i += 1
                    return ("block", body)
                body.append(self.stmt())
        m = re.match(r"(if|while|for|switch)\b\s*", s[self.i:])
        if m:
            kw = m.group(1)
            self.i += m.end()
            cond = self.paren()
            then = self.stmt()
            if kw != "if":
                return ("other", kw, cond, then)
            save = self.i
            self.ws()
            if s.startswith("else", self.i) and not (s[self.i + 4].isalnum() or s[self.i + 4] == "_"):
                self.i += 4
                els = self.stmt()
            else:
                self.i = save
                els = None
            return ("if", " ".join(cond.split()), flat(then), flat(els) if els else [])
        # simple statement up to ';' at depth 0
        d, j = 0, self.i
        while True:
            c = s[j]
            if c in "([":
                d += 1
            elif c in ")]":
                d -= 1
            elif c in "\"'":
                q = c
                j += 1
                while s[j] != q:
                    j += 2 if s[j] == "\\" else 1
            elif c == ";" and d == 0:
                break
            j += 1
        t = " ".join(s[self.i:j].split())
        self.i = j + 1
        if t.startswith("return"):
            return ("return", t[6:].strip())
        return ("simple", t)


def flat(st):
    if st is None:
        return []
    if st[0] == "block":
        return [x for x in st[1] if x is not None]
    return [st]


def parse_body(body):
    p = P(body + "\n}")
    out = []
    while True:
        p.ws()
        if p.s[p.i] == "}":
            break
        out.append(p.stmt())
    return out


def calls_in(text):
    text = re.sub(r'"(?:\\.|[^"\\])*"', '""', text)
    return [(m.group(1), m.end() - 1) for m in re.finditer(r"\b([A-Za-z_]\w*)\s*\(", text)]


def args_of(text, name):
    m = re.search(r"\b" + re.escape(name) + r"\s*\(", text)
    if not m:
        return None
    p = P(text)
    p.i = m.end() - 1
    inner = p.paren()
    args, d, cur = [], 0, ""
    for c in inner:
        if c in "([":
            d += 1
        elif c in ")]":
            d -= 1
        if c == "," and d == 0:
            args.append(cur.strip()); cur = ""
        else:
            cur += c
    if cur.strip():
        args.append(cur.strip())
    return args


def pexpr(a):
    return {"filename": "PName", "linkfile": "PLink", "tmpfile": "PTmp"}.get(a.strip(), "POther")


# ----------------------------------------------------------------------------- rewrite_file
class Walker:
    def __init__(self, variant, open_write_effects):
        self.variant = variant
        self.rows = []              # [act, onfail(None|list)]
        self.pending = {}           # status variable -> row index
        self.tmp_base = None
        self.notes = []
        self.open_write_effects = open_write_effects
        self.done = False

    def effect_rows(self, text):
        """the effectful calls of one expression, in textual (= evaluation, given && and ,) order -> list of acts;
        None when the expression is pure"""
        acts = []
        for name, _ in calls_in(text):
            if name in PURE:
                if name == "sprintf":
                    a = args_of(text, "sprintf")
                    if a and a[0] == "tmpfile":
                        self.tmp_base = pexpr(a[2]) if (len(a) == 3 and a[1] == '"%s.temp"') else "POther"
                continue
            a = args_of(text, name) or []
            if name in ("UNLINK", "unlink"):
                acts.append("GUnlink %s" % pexpr(a[0]))
            elif name == "rename":
                acts.append("GRename %s %s" % (pexpr(a[0]), pexpr(a[1])))
            elif name == "lstat" or name == "readlink":
                acts.append("GStat %s" % pexpr(a[0]))
            elif name == "cgio_open_file":
                if len(a) == 4 and a[1] == "CGIO_MODE_WRITE" and a[2] == "input->type" and self.open_write_effects is not None:
                    for e in self.open_write_effects:
                        acts.append(e % pexpr(a[0]))
                else:
                    acts.append("GUnparsed")
                    self.notes.append("cgio_open_file with unexpected arguments: " + text)
            elif name == "recurse_nodes":
                ok = len(a) == 6 and a[0] == "cginp" and a[2] == "cgout" and a[4] == "0"
                acts.append("GCopy" if ok else "GUnparsed")
                if not ok:
                    self.notes.append("recurse_nodes with unexpected arguments: " + text)
            elif name == "cgio_close_file":
                acts.append({"cgout": "GCloseOut", "cginp": "GCloseIn"}.get(a[0] if a else "", "GUnparsed"))
            elif name == "cgio_flush_to_disk":
                if a == ["cginp"] and re.search(r"input->mode\s*!=\s*CGIO_MODE_READ\s*&&\s*cgio_flush_to_disk", text):
                    acts.append("GFlushIfModify")
                else:
                    acts.append("GUnparsed")
                    self.notes.append("unguarded flush: " + text)
            else:
                acts.append("GUnparsed")
                self.notes.append("unknown call %s in: %s" % (name, text))
        return acts

    def branch_acts(self, stmts):
        """acts of a (failure) branch, and whether it terminates with return"""
        acts, term = [], False
        for st in stmts:
            if st[0] == "simple":
                acts += self.effect_rows(st[1])
            elif st[0] == "return":
                acts += self.effect_rows(st[1])
                term = True
                break
            elif st[0] == "if":
                c = self.link_test(st[1])
                if c is not None:
                    a, t = self.branch_acts(st[2] if c else st[3])
                    acts += a
                    if t:
                        term = True
                        break
                else:
                    ca = self.effect_rows(st[1])
                    a1, _ = self.branch_acts(st[2])
                    a2, _ = self.branch_acts(st[3])
                    if ca or a1 or a2:
                        acts.append("GUnparsed")
                        self.notes.append("conditional with effects inside a branch: " + st[1])
            else:
                acts.append("GUnparsed")
        return acts, term

    def link_test(self, cond):
        """True/False when the condition only asks which path we are on, else None"""
        c = cond.replace(" ", "")
        if c == "linkfile==NULL":
            return self.variant == "plain"
        if c == "linkfile!=NULL":
            return self.variant == "symlink"
        return None

    def walk(self, stmts):
        for st in stmts:
            if self.done:
                return
            k = st[0]
            if k == "simple":
                t = st[1]
                acts = self.effect_rows(t)
                m = re.match(r"(\w+)\s*=\s*[A-Za-z_]\w*\s*\(", t)
                for a in acts:
                    self.rows.append([a, None])
                if acts and m and len(acts) == 1:
                    self.pending[m.group(1)] = len(self.rows) - 1
                elif m is None:
                    m2 = re.match(r"(\w+)\s*=\s*\w+$", t)           # ierr = CGIO_ERR_NONE : forget a pending status
                    if m2:
                        self.pending.pop(m2.group(1), None)
            elif k == "return":
                for a in self.effect_rows(st[1]):
                    self.rows.append([a, None])
                self.done = True
            elif k == "if":
                cond, then, els = st[1], st[2], st[3]
                lt = self.link_test(cond)
                if lt is not None:
                    self.walk(then if lt else els)
                    continue
                if "lstat" in [n for n, _ in calls_in(cond)]:
                    # the symbolic-link detection:  !lstat(filename,&st) && (st.st_mode & S_IFLNK) == S_IFLNK
                    for a in self.effect_rows(cond):
                        self.rows.append([a, None])
                    if not re.search(r"S_IFLNK", cond):
                        self.rows.append(["GUnparsed", None])
                        self.notes.append("lstat test without S_IFLNK: " + cond)
                    if self.variant == "symlink":
                        self.walk(then)
                    if els:
                        self.rows.append(["GUnparsed", None])
                    continue
                m = re.fullmatch(r"!?\s*(\w+)", cond)
                if m and m.group(1) in self.pending and not cond.startswith("!"):
                    # deferred status test:  ierr = f(); g(); if (ierr) { exits; return }
                    idx = self.pending.pop(m.group(1))
                    acts, term = self.branch_acts(then)
                    between = [r[0] for r in self.rows[idx + 1:]]
                    if term and not els:
                        self.rows[idx][1] = between + acts
                    else:
                        self.rows.append(["GUnparsed", None])
                        self.notes.append("status test that does not return: " + cond)
                    continue
                cacts = self.effect_rows(cond)
                if cacts:
                    acts, term = self.branch_acts(then)
                    if els:
                        self.rows.append(["GUnparsed", None])
                        self.notes.append("else after a tried call: " + cond)
                    for a in cacts[:-1]:
                        self.rows.append([a, None])
                    if term:
                        self.rows.append([cacts[-1], acts])
                    elif not acts:
                        self.rows.append([cacts[-1], None])       # failure only recorded (ierr = ...), flow continues
                    else:
                        self.rows.append([cacts[-1], None])
                        self.rows.append(["GUnparsed", None])
                        self.notes.append("non-returning failure branch with effects: " + cond)
                    continue
                # a pure condition: both branches must be pure (len < 0 ... etc.)
                a1, t1 = self.branch_acts(then)
                a2, t2 = self.branch_acts(els)
                if a1 or a2:
                    self.rows.append(["GUnparsed", None])
                    self.notes.append("effects under an unrecognised condition: " + cond)
                if (t1 and not a1) and self.variant in ("plain", "symlink"):
                    # malloc-failure returns: no effect, not modelled (malloc never fails is an assumption)
                    pass
            else:
                self.rows.append(["GUnparsed", None])
                self.notes.append("loop/switch in rewrite_file")


def open_write_effects(src):
    """effects of cgio_open_file(x, CGIO_MODE_WRITE, ...): the statements of `case CGIO_MODE_WRITE:` up to break,
    then the back-end creation"""
    _, body = function_body(src, "cgio_open_file", r"int")
    if body is None:
        return None
    m = re.search(r"case\s+CGIO_MODE_WRITE\s*:(.*?)break\s*;", body, re.S)
    if not m:
        return None
    eff = []
    for name, _ in calls_in(m.group(1)):
        if name in ("UNLINK", "unlink"):
            a = args_of(m.group(1), name)
            eff.append("GUnlink %s" if a == ["filename"] else "GUnparsed")
        elif name not in PURE:
            eff.append("GUnparsed")
    if not re.search(r'fmode\s*=\s*"NEW"', m.group(1)):
        eff.append("GUnparsed")
    if not (re.search(r"ADF_Database_Open\s*\(\s*filename\s*,\s*fmode", body) and
            re.search(r"ADFH_Database_Open\s*\(\s*filename\s*,\s*fmode", body)):
        eff.append("GUnparsed")
    eff.append("GCreate %s")
    return eff


# ----------------------------------------------------------------------------- callers
def caller_calls(stmts, table, pure):
    out = []

    def expr(text):
        for name, _ in calls_in(text):
            if name in pure:
                continue
            hit = None
            for (fn, argpat), tok in table:
                if fn == name:
                    a = args_of(text, name) or []
                    if argpat is None or [x.replace(" ", "") for x in a[:len(argpat)]] == argpat:
                        hit = tok
                    break
            out.append(hit or "CUnparsed")

    def go(sts):
        for st in sts:
            if st is None:
                continue
            if st[0] == "simple" or st[0] == "return":
                expr(st[1])
            elif st[0] == "if":
                expr(st[1]); go(st[2]); go(st[3])
            elif st[0] == "other":
                expr(st[2]); go(flat(st[3]))
    go(stmts)
    return out


def coq_list(xs, wrap="%s"):
    return "[" + "; ".join(wrap % x for x in xs) + "]"


def paren(a):
    return a if " " not in a else "(" + a + ")"


def generate(repo):
    src = strip_comments(open(os.path.join(repo, "src", "cgns_io.c"), errors="replace").read())
    lib = strip_comments(open(os.path.join(repo, "src", "cgnslib.c"), errors="replace").read())
    tool = strip_comments(open(os.path.join(repo, "src", "tools", "cgnscompress.c"), errors="replace").read())
    notes = []
    owe = open_write_effects(src)
    _, body = function_body(src, "rewrite_file")
    res = {}
    if body is None:
        notes.append("rewrite_file not found")
        for v in ("plain", "symlink"):
            res[v] = ([["GUnparsed", None]], "POther")
    else:
        body, unk = drop_preprocessor(body)
        notes += ["preprocessor: " + u for u in unk]
        stmts = parse_body(body)
        for v in ("plain", "symlink"):
            w = Walker(v, owe)
            w.walk(stmts)
            if unk:
                w.rows.append(["GUnparsed", None])
            res[v] = (w.rows, w.tmp_base or "POther")
            notes += ["%s: %s" % (v, n) for n in w.notes]
    # callers
    callers = {}
    _, cbody = function_body(src, "cgio_compress_file", r"int")
    callers["compress_adf"] = callers["compress_hdf5"] = ["CUnparsed"]
    if cbody is not None:
        cbody, _ = drop_preprocessor(cbody)
        st = parse_body(cbody)
        table = [(("rewrite_file", ["cgio_num", "filename"]), "CRewrite"), (("cgio_close_file", ["cgio_num"]), "CCloseOnError")]
        chain = [s for s in st if s[0] == "if" and "cgio->type" in s[1]]
        if len(chain) == 1:
            top = chain[0]
            callers["compress_adf"] = caller_calls(top[2], table, CALLER_PURE) if "CGIO_FILE_ADF" in top[1] else ["CUnparsed"]
            e = top[3]
            if len(e) == 1 and e[0][0] == "if" and "CGIO_FILE_HDF5" in e[0][1]:
                callers["compress_hdf5"] = caller_calls(e[0][2], table, CALLER_PURE)
                if caller_calls(e[0][3], table, CALLER_PURE):
                    callers["compress_hdf5"].append("CUnparsed")
        rest = [s for s in st if s not in chain]
        if caller_calls(rest, table, CALLER_PURE):
            callers["compress_adf"].append("CUnparsed")
    _, kbody = function_body(lib, "cg_close", r"int")
    callers["close"] = ["CUnparsed"]
    if kbody is not None:
        kbody, _ = drop_preprocessor(kbody)
        table = [(("cgio_compress_file", ["cg->cgio", "cg->filename"]), "CRewrite"), (("cgio_close_file", ["cg->cgio"]), "CCloseElse")]
        callers["close"] = caller_calls(parse_body(kbody), table, CALLER_PURE)
    _, mbody = function_body(tool, "main", r"int")
    callers["main"] = ["CUnparsed"]
    if mbody is not None:
        table = [(("cgns_stat", None), "CStat"), (("cgio_open_file", ["inpfile", "'r'"]), "COpenRead"),
                 (("cgio_compress_file", ["inpcg", "outfile"]), "CRewrite")]
        callers["main"] = caller_calls(parse_body(mbody), table, CALLER_PURE)

    def rows(rs):
        out = []
        for a, f in rs:
            of = "None" if f is None else "Some " + coq_list([x for x in f])
            out.append("  {| g_act := %s; g_onfail := %s |}" % (a, of))
        return "[\n" + ";\n".join(out) + "\n]"

    txt = ["(* Gen_C15.v -- GENERATED by translators/c15_rewrite.py from src/cgns_io.c, src/cgnslib.c,",
           "   src/tools/cgnscompress.c.  Do not edit; regenerated on every run of ./check C15. *)",
           "From Coq Require Import List.", "From CgnsV Require Import Compact.", "Import ListNotations.", ""]
    for v in ("plain", "symlink"):
        txt.append("Definition steps_%s : list gstmt := %s." % (v, rows(res[v][0])))
        txt.append("Definition tmp_base_%s : pexpr := %s." % (v, res[v][1]))
        txt.append("")
    for k in ("compress_adf", "compress_hdf5", "close", "main"):
        txt.append("Definition calls_%s : list ccall := %s." % (k, coq_list(callers[k])))
    txt.append("")
    txt.append("(* translator notes:")
    for n in notes:
        txt.append("   " + n.replace("*)", "* )"))
    txt.append("*)")
    return "\n".join(txt) + "\n", res, callers, notes


def main():
    repo = os.environ.get("VERIF_REPO", "/repo")
    root = os.path.dirname(os.path.dirname(os.path.abspath(__file__)))
    out = os.path.join(root, "coq", "Gen_C15.v")
    txt, res, callers, notes = generate(repo)
    if not os.path.exists(out) or open(out).read() != txt:
        open(out, "w").write(txt)
    return res, callers, notes


if __name__ == "__main__":
    r, c, n = main()
    for v in r:
        print(v, r[v])
    print(c)
    print(n)
